package main

// -e values. The adapter builds a rules file around the text given on the command line
// (`func e(m dsl.Matcher) { <text>.Report("$$") }`): whatever the text contains has to reach the engine byte for byte.
// The pool spells every class of character that means something to one of the layers the text could travel through
// on its way (a fmt format: `%` verbs, `%%`, flags / width / argument indexes, a trailing `%`; a quoted Go string:
// `"`, `\`, back quotes, new lines; a template: `{{`, `$`), inside patterns, inside Where() operands, inside comments,
// at the very start and at the very end of the text. Most entries match nodes of the targets; some must not load.

import (
	"math/rand"
	"strings"
)

type eText struct {
	text   string
	broken bool // the rule must not load (the error is compared with the direct engine's, positions aside)
}

var eTexts = []eText{
	{text: "m.Match(`pa1($*_)`)"},
	// `%` as an operator of the pattern
	{text: "m.Match(`$x % $y`)"},
	{text: "m.Match(`$x %= $y`)"},
	{text: "m.Match(`pd1($x % $y)`, `pd1($x%7) % $_`)"},
	{text: "m.Match(`$x%$y`).Where(m[\"y\"].Const)"},
	// format strings inside the pattern: plain verbs, %%, a lone %, flags / width / precision, argument indexes
	{text: "m.Match(`pfmt(\"%d items\", $*_)`)"},
	{text: "m.Match(`pfmt(\"%%\", $x)`)"},
	{text: "m.Match(`pfmt(\"%\", $x)`)"},
	{text: "m.Match(`pfmt(\"100%\", $_)`)"},
	{text: "m.Match(`pfmt(\"%s=%v\", $k, $v)`)"},
	{text: "m.Match(`pfmt(\"%q and %[1]T\", $x)`)"},
	{text: "m.Match(`pfmt(\"%5.2f%%\", $x % $_)`)"},
	// `%` in Where() operands: regexps, compared texts, raw and interpreted strings
	{text: "m.Match(`pfmt($s, $*_)`).Where(m[\"s\"].Text.Matches(`%[dsv]`))"},
	{text: "m.Match(`pfmt($s, $*_)`).Where(m[\"s\"].Text == \"\\\"%%\\\"\" || m[\"s\"].Text == `\"100%\"`)"},
	{text: "m.Match(`pfmt($s, $*_)`).Where(!m[\"s\"].Text.Matches(`%`))"},
	{text: "m.Match(`$x % $y`).Where(m[\"x\"].Text != \"a%7\" && m[\"y\"].Text.Matches(`^[a-z0-9]$`))"},
	// `%` at the very start / the very end of the text, in comments, next to what a template would read
	{text: "/*%s*/m.Match(`pa1($*_)`)"},
	{text: "m.Match(`pa1($*_)`)/*%*/"},
	{text: "m.Match(`pa1($x)`) /* 100% */ .At(m[\"x\"])"},
	{text: "m.Match(`pfmt(\"%d items\", $x)`).At(m[\"x\"])/*%%*/"},
	{text: "m.Match(`pa1($x)`).Where(m[\"x\"].Text != \"{{.}}%!(EXTRA)\")"},
	// quotes, back slashes, new lines, several statements' worth of chain
	{text: "m.Match(`pa1(\"s\")`, `pz2(\"k\", $_)`)"},
	{text: "m.Match(\"pfmt(\\\"%s=%v\\\", $*_)\")"},
	{text: "m.Match(\n\t`$x % $y`,\n\t`pfmt(\"%\", $_)`,\n)"},
	{text: " \tm.Match(`pz1($x)`).Where(m[\"x\"].Const).Suggest(`pz1($x % 2)`)  "},
	{text: "m.\nMatch(`$x == $x`)"},
	// a chain that already ends in Suggest / At
	{text: "m.Match(`$x % $y`).Where(m[\"y\"].Const).Suggest(\"$x&(1<<3-1) /* was: % $y */\").At(m[\"y\"])"},
	// texts that are not a rule: the load error is the engine's
	{text: "m.Match(`$x % `)", broken: true},
	{text: "m.Match(`pfmt(\"%d\", $x`)", broken: true},
	{text: "m.Match(`$x % $y`", broken: true},
	{text: "m.Match(`pa1($*_)`) // 100%", broken: true},
	{text: "m.Match(`pa1($x)`).Report(`100% custom: $x`)", broken: true}, // Report() can't be repeated
	{text: "%", broken: true},
	{text: "%s", broken: true},
	{text: " ", broken: true},
	{text: "m.Match(`$x % $y`).Where(m[\"z\"].Pure)", broken: true},
}

// eEnable picks -enable / -disable values for a scenario that loads the -e rule (its only group is `e`).
func eEnable(rng *rand.Rand) (enable, disable string) {
	switch rng.Intn(8) {
	case 0:
		return decorate(rng, "e") + ",alpha", ""
	case 1:
		return strings.Join([]string{"alpha", decorate(rng, "e"), ""}, ","), "E, e2"
	case 2:
		return "alpha,ee", "" // the rule is loaded, its group filtered out
	case 3:
		return "<all>", decorate(rng, "e")
	}
	return "<all>", ""
}
