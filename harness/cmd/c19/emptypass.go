// A package WITHOUT files (every Go file excluded by build constraints / cgo): a driver still schedules a pass for it,
// with an empty pass.Files. Such a pass takes a runner state from the pool and hands it back without a single Run in
// between -- the shortest path through the pool block, and the one on which a Put on an early exit next to the deferred
// Put (the state in the pool twice) or a missing Put shows: the passes that come AFTER it -- the sequential passes and
// above all the 16-goroutine bursts -- then share a state or not. The package takes part in every scenario kind like
// any other (sequential passes, bursts on the cold and the warm cache, forced engine); its expected diagnostics are
// the direct engine's on its zero files: none, and no error.
package main

const emptyPkg = "p0"

func init() { targets[emptyPkg] = nil }
