"""C03 -- report payload is faithful: message interpolation (longest capture name wins, exact source text), reported
node (At() relocation), Suggest range/replacement, RuleInfo line of the matching alternative.

P: RG.Engine.RenderSpec proves, for all templates and capture sets with distinct names, that sorting by name length
   (any tie order) + first prefix hit = longest-name match, and the report/edit/loader theorems; nodeText's in-range
   test is regenerated from runner.go (leaf translator) and node_text_exact (incl. a node ending at EOF) is re-proved
   against it; the statements of handleMatch / handleCommentMatch / renderMessage / loadSyntaxRule / loadCommentRule
   that the model mirrors are re-read from source as facts and must all hold.
   The scanning loop of renderMessage is translated from runner.go statement by statement (go2coq c03loop) and proved on
   every run to compute that interpolation for all templates and capture lists (Inst_RenderLoop.v); so are the statements
   in front of it (go2coq c03pre: the filter that drops captures without a usable node, the sort): proved on every run to
   leave the live captures sorted STABLY by name length, hence `$name` is the longest name that fits and the FIRST capture
   of that name, for all capture lists -- names may repeat (Inst_RenderPre.v; nothing is assumed about sort.Slice).
K: the Coq models gen_render_msg (the translated loop) / render_msg / node_text / mk_report+load_alternatives are executed (vm_compute) on the same template,
   capture list, offsets and TruncateLen as the real renderMessage / nodeText (hooks) and as engine-level runs.
O: an independent Go implementation of the specification (longest name, source slices taken from offsets known by
   construction, C15 truncation) vs the observed ReportData; `$$` suggestions must leave the bytes unchanged and the
   pattern's own text must leave the AST unchanged.
"""
import base64
import json
import os
import re as pyre

from vlib import coq_bytes

FINDING = "C03-fixedtext-amp"


def b64(x):
    return base64.b64decode(x) if x else b""


def guard_fixedtext(msg, caps, whole_fix):
    """narrow guard of the known finding: some `$name` resolved (longest name) to a capture that is `&x`/`&x[i]`/`&x.y`
    is directly followed by `.` in the template (fixedText strips the `&` there)"""
    m = msg.encode() if isinstance(msg, str) else msg
    i = 0
    while i < len(m):
        if m[i] != 36:
            i += 1
            continue
        rest = m[i + 1:]
        if rest.startswith(b"$"):
            if whole_fix and rest[1:2] == b".":
                return True
            i += 2
            continue
        best = None
        for c in caps:
            n = c["name"].encode()
            if c.get("nil") or not rest.startswith(n):
                continue
            if best is None or len(n) > len(best["name"].encode()):
                best = c
        if best is None:
            i += 1
            continue
        n = best["name"].encode()
        if best.get("fix") and rest[len(n):len(n) + 1] == b".":
            return True
        i += 1 + len(n)
    return False


def run(c):
    c.go2coq_sources = ["c03.go", "textmatch.go", "c03loop.go", "c03pre.go", "c03src.go"]   # private translator build: another family's generator cannot break this check
    thorough = c.tier == "thorough"
    c.rule = ("direct: renderMessage (hook) on capture sets drawn from 10 name chains whose names prefix one another, in shuffled "
              "order, some names twice or three times, up to 20 captures, with typed-nil / nil-interface / empty-node-slice captures, templates from a token grammar ($name, $name.b, $namez, $$, $nope, lone $), with and "
              "without truncation under 7 TruncateLen values; nodeText (hook) on every expression of a file incl. nodes ending at EOF "
              "and nodes beyond a truncated copy; engine: generated rule groups (1-2 alternatives on separate lines, $* lists, At(), "
              "Suggest incl. `$$` and the pattern's own text, Suggest() without Report(), an alternative written twice, MatchComment alternatives, a Suggest-only comment rule, a family of eight comment rules that name their groups alike and meet on the same comments, "
              "a family of four syntax rules that match the same calls) over a generated target with offsets known by "
              "construction -- ten versions at one path (same length, shifted, //line, other FileSet, byte order mark, CRLF) --, under TruncateLen 0/20/1000; non-trivial = a capture or $$ was interpolated; distinct by full case content")
    c.trusted += [
        "go2coq c03extras (nodeText in-range test through the leaf translator; statement-shape facts of the report path)",
        "go2coq c03loop: the statement-level Go->Gallina translator of renderMessage's scanning loop (its reading of Go: let for :=/=, ++ for append, "
        "partial slices in the outcome monad, tuple joins for if/else, match for the nil test, range_first for the capture loop) and c03pre, the "
        "translator of the statements in front of the loop (fold over the captures in the outcome monad, short-circuit || / && with an operand that "
        "can panic, sort.Slice / sort.SliceStable kept apart as two abstract operations)",
        "sort.SliceStable is the stable insertion sort (RenderPre.stable_sort: a sorted permutation in which equal elements keep their order); "
        "reflect.ValueOf(n).IsNil() panics on a nil interface, is true for a typed nil pointer and false for a node / a node slice",
        "go2coq c03src: the statement-level translator of rulesRunner.fileBytes (the world is the cell rr.src, os.ReadFile a parameter whose error is "
        "the boolean err != nil; a nil slice is None) and its syntactic facts about newRulesRunner (`*rr = rulesRunner{...}` without src / filename), "
        "run (rr.filename) and the package's mentions of rr.src; os.ReadFile returns the bytes the file has at the time of the call",
        "go/parser, go/types and gogrep deliver the match and its captures; go/token offsets",
        "harness/cmd/c03 (its independent specification oracle) and hooks VerifRenderMessage / VerifNodeText (build tag verif)",
    ]
    c.notes += ["Do()-produced messages belong to C04; truncation itself to C15 (TruncateSpec reused)",
                "known finding: fixedText deliberately renders `$x.f` with x=`&a` as `a.f` (not the exact source text)"]

    c.sh([os.path.join(c.verif, "coq", "build.sh")], timeout=3400)
    c.require_theories("Base/*.v", "Regex/Utf8.v", "Engine/TruncateSpec.v", "Engine/RenderSpec.v", "Engine/RenderLoop.v", "Engine/RenderPre.v", "Engine/FileBytes.v")

    gen_ok = False
    loop_ok = False
    if c.go2coq("c03extras", "Gen_C03.v"):
        if c.coq_compile(["Gen_C03.v"]):
            gen_ok = True
    # the scanning loop of renderMessage, translated statement by statement; the executed model uses it when it translates
    if c.go2coq("c03loop", "Gen_C03Loop.v"):
        if c.coq_compile(["Gen_C03Loop.v"]):
            loop_ok = True
    # the statements of renderMessage in front of the loop (capture filter + sort), translated likewise
    pre_ok = False
    if c.go2coq("c03pre", "Gen_C03Pre.v"):
        if c.coq_compile(["Gen_C03Pre.v"]):
            pre_ok = True
    # rulesRunner.fileBytes (the bytes nodeText slices), translated statement by statement; the life of rr.src / rr.filename
    # across the runs of one reused RunnerState read off newRulesRunner / run / the package
    src_ok = False
    if c.go2coq("c03src", "Gen_C03Src.v"):
        if c.coq_compile(["Gen_C03Src.v"]):
            src_ok = True
    if gen_ok:
        c.install_tmpl("C03/Inst_Render.v", "C03/Def_RenderLoop.v", "C03/Inst_RenderLoop.v", "C03/Def_RenderPre.v", "C03/Inst_RenderPre.v", "C03/Inst_FileBytes.v",
                       "C03/C03.v")
        c.coq_compile(["Inst_Render.v"])
        if src_ok:
            src_ok = c.coq_compile(["Inst_FileBytes.v"])
        else:
            c.obligation("coq:Inst_FileBytes.v", False, "not compiled: fileBytes did not translate")
        if loop_ok:
            loop_ok = c.coq_compile(["Def_RenderLoop.v"])   # definitions only: the executed model
        if loop_ok and pre_ok:
            pre_ok = c.coq_compile(["Def_RenderPre.v"])     # definitions only: the executed model
        else:
            pre_ok = False
        if loop_ok:
            c.coq_compile(["Inst_RenderLoop.v"])
        else:
            c.obligation("coq:Inst_RenderLoop.v", False, "not compiled: the scanning loop did not translate")
        if pre_ok:
            c.coq_compile(["Inst_RenderPre.v"])
        else:
            c.obligation("coq:Inst_RenderPre.v", False, "not compiled: the statements in front of the scanning loop did not translate")
        if loop_ok and pre_ok and src_ok:
            c.coq_compile(["C03.v"])
        else:
            c.obligation("coq:C03.v", False, "not compiled: a file it depends on failed")

    hb = c.build_harness("c03")
    if hb is None:
        return c.finish()

    def observe(nrender, ngroups, seed):
        tmp = os.path.join(c.work, "tmp")
        os.makedirs(tmp, exist_ok=True)
        rc, out = c.run_harness(hb, ["-seed", str(seed), "-render", str(nrender), "-groups", str(ngroups), "-tmp", tmp], timeout=900)
        obs = []
        for line in out.splitlines():
            line = line.strip()
            if line.startswith("{"):
                try:
                    obs.append(json.loads(line))
                except ValueError:
                    pass
        if rc != 0:
            c.obligation("harness-run:c03", False, out[-2000:])
        return obs

    def coq_caps(caps):
        return "[" + ";".join("((%s, %s, %s), %s)" % (coq_bytes(x["name"].encode()), coq_bytes(b64(x.get("text"))),
                                                     "true" if x.get("fix") else "false", "%d" % (x.get("kind") or (1 if x.get("nil") else 0)))
                              for x in caps) + "]"

    def coq_nodes(caps):
        return "[" + ";".join("(%s, {| n_pos := %d; n_end := %d; n_text := %s; n_fix := %s |})" % (
            coq_bytes(x["name"].encode()), x.get("from", 0), x.get("to", 0), coq_bytes(b64(x.get("text"))),
            "true" if x.get("fix") else "false") for x in caps) + "]"

    def compare(obs, tag):
        renders = [o for o in obs if o["k"] == "render"]
        ntexts = [o for o in obs if o["k"] in ("ntext", "ntext-short")]
        engines = [o for o in obs if o["k"] == "engine"]
        comments = [o for o in obs if o["k"] == "engine-comment"]
        strays = [o for o in obs if o["k"] == "engine-stray"]
        cfams = [o for o in obs if o["k"] == "engine-cfam"]
        cfnone = [o for o in obs if o["k"] == "engine-cfam-none"]
        pending = []   # (kind, index, failure-dict) oracle mismatches inside the finding's guard, decided after K

        def ofail(what, inp, exp, got, guard=None):
            f = dict(what=what, input=inp, expected=exp, observed=got)
            if guard is not None:
                pending.append((guard, f))
            else:
                c.fail("oracle", **f)

        # ---- O
        for i, o in enumerate(renders):
            c.count()
            inp = {"template": o["msg"], "captures": [(x["name"], repr(b64(x.get("text"))), x.get("nil")) for x in o["caps"]],
                   "whole": repr(b64(o["whole"].get("text"))), "truncate": o["trunc"], "TruncateLen": o["L"]}
            if o.get("panic"):
                c.fail("oracle", "renderMessage panics", input=inp, observed=o["panic"], expected="a message")
                continue
            o["out"], o["want"] = b64(o["out"]), b64(o["want"])
            if o["want"] != o["msg"].encode():
                c.nontriv(("render", o["msg"], json.dumps(o["caps"]), o["trunc"], o["L"]))
            if o["out"] != o["want"]:
                g = ("render", i) if guard_fixedtext(o["msg"], o["caps"], o["whole"].get("fix")) else None
                ofail("rendered message differs from the interpolation specification", inp, repr(o["want"]), repr(o["out"]), g)
        for o in ntexts:
            c.count()
            inp = {"from": o["from"], "to": o["to"], "file_len": o["srcn"]}
            if o.get("panic"):
                c.fail("oracle", "nodeText panics", input=inp, observed=o["panic"], expected="text")
                continue
            c.nontriv(("ntext", o["k"], o["from"], o["to"]))
            if b64(o["out"]) != b64(o["want"]):
                c.fail("oracle", "nodeText is not the exact source text of the node" + (" (node ends at EOF)" if o.get("at_eof") else ""),
                       input=inp, expected=repr(b64(o["want"])), observed=repr(b64(o["out"])))
        for o in strays:
            c.fail("oracle", "a report lies outside every generated match site", input={"group": o["o_group"]},
                   observed={"pos": o["o_pos"], "end": o["o_end"], "message": repr(b64(o["o_msg"]))}, expected="no such report")
        for i, o in enumerate(engines):
            c.count()
            if o.get("panic"):
                c.fail("oracle", "Run panics", input={"TruncateLen": o["L"], "file": o.get("version"), "first_match_site_without_a_report": {
                    "call": repr(b64((o.get("whole") or {}).get("text"))), "rule": o.get("rule"), "at": o.get("at"), "report_template": o.get("msg_tpl"),
                    "suggest_template": o.get("sugg_tpl")}, "first_comment_without_its_report": o.get("comment")}, observed=o["panic"], expected="reports")
                continue
            inp = {"group": o["group"], "alternative": o["alt"], "report_template": o["msg_tpl"], "suggest_template": o["sugg_tpl"],
                   "at": o["at"], "TruncateLen": o["L"], "whole_match": repr(b64(o["whole"]["text"])), "node_ends_at_EOF": o["at_eof"],
                   "captures": [(x["name"], repr(b64(x.get("text")))) for x in o["caps"]], "file": o.get("version")}
            if o.get("rule"):
                # a family of syntax rules competing for one call: the rules in front matched it and rejected it
                inp["rule_that_reports"], inp["matched_and_rejected_before"] = o["rule"], o.get("rejected") or []
                if o.get("rejected") and not o["missing"]:
                    c.coverage["syntax_reports_behind_a_rejecting_rule_with_alike_names"] = c.coverage.get("syntax_reports_behind_a_rejecting_rule_with_alike_names", 0) + 1
            for k in ("o_msg", "w_msg", "o_sugg", "w_sugg"):
                o[k] = b64(o.get(k))
            if o["missing"]:
                c.fail("oracle", "a generated match site produced no report", input=inp, expected="one report", observed="none")
                continue
            c.nontriv(("engine", o["group"], o["alt"], o["L"], o["w_pos"], o.get("version")))
            if o["extra"]:
                c.fail("oracle", "more than one report for one match site", input=inp, expected=1, observed=1 + o["extra"])
            fx = guard_fixedtext(o["msg_tpl"], o["caps"], False)
            if o["o_msg"] != o["w_msg"]:
                ofail("report message differs from the interpolation specification", inp, repr(o["w_msg"]), repr(o["o_msg"]), ("engine", i) if fx else None)
            if (o["o_pos"], o["o_end"]) != (o["w_pos"], o["w_end"]):
                c.fail("oracle", "reported node is not the At() capture / whole match", input=inp,
                       expected=[o["w_pos"], o["w_end"]], observed=[o["o_pos"], o["o_end"]])
            if not (0 <= o["o_pos"] <= o["o_end"] <= o["srcn"]):
                c.fail("oracle", "reported node lies outside the file", input=inp, expected="0<=pos<=end<=%d" % o["srcn"],
                       observed=[o["o_pos"], o["o_end"]])
            if o["o_line"] != o["w_line"] or o["o_group"] != o["w_group"]:
                c.fail("oracle", "RuleInfo does not identify the group and the line of the alternative that matched", input=inp,
                       expected={"group": o["w_group"], "line": o["w_line"]}, observed={"group": o["o_group"], "line": o["o_line"]})
            if o.get("o_file") != o.get("w_file"):
                c.fail("oracle", "reported node lies in another file of the FileSet than the analysed one", input=inp, expected=o.get("w_file"),
                       observed=o.get("o_file"))
            if o.get("o_func", "") != o.get("w_func", ""):
                c.fail("oracle", "ReportData.Func is not the function declaration around the reported match (\"\" = nil)", input=inp,
                       expected=o.get("w_func", ""), observed=o.get("o_func", ""))
            if o["o_has_sugg"] != o["w_has_sugg"]:
                c.fail("oracle", "suggestion presence differs", input=inp, expected=o["w_has_sugg"], observed=o["o_has_sugg"])
            elif o["o_has_sugg"]:
                if (o["o_sugg_from"], o["o_sugg_to"]) != (o["w_pos"], o["w_end"]):
                    c.fail("oracle", "suggestion does not replace exactly the reported node's byte range", input=inp,
                           expected=[o["w_pos"], o["w_end"]], observed=[o["o_sugg_from"], o["o_sugg_to"]])
                if o["o_sugg"] != o["w_sugg"]:
                    fs = guard_fixedtext(o["sugg_tpl"], o["caps"], False)
                    ofail("suggestion text differs from the Suggest template interpolated with untruncated texts", inp, repr(o["w_sugg"]), repr(o["o_sugg"]),
                          ("engine", i) if fs else None)
                if o["at"] == "" and o["sugg_tpl"] == "$$" and not o["bytes_same"]:
                    c.fail("oracle", "suggesting `$$` changes the file", input=inp, expected="file bytes unchanged", observed=repr(o["o_sugg"]))
                if o["at"] == "" and o["own_text"] and not o["ast_same"] and not guard_fixedtext(o["sugg_tpl"], o["caps"], False):
                    c.fail("oracle", "suggesting the pattern's own text changes the file's AST", input=inp, expected="AST unchanged",
                           observed={"replacement": repr(o["o_sugg"]), "parse_error": o.get("apply_err")})
        for o in [x for x in obs if x["k"] == "engine-func"] + [x for x in comments if not x.get("missing")]:
            # the reused ReportData must not leak the function of an earlier report into this one
            c.count()
            inp = {"group": o.get("o_group"), "message": repr(b64(o.get("o_msg"))), "TruncateLen": o["L"]}
            if o.get("missing"):
                c.fail("oracle", "the tail file did not produce one syntax-rule and two comment-rule reports", input={"TruncateLen": o["L"]},
                       expected=3, observed=o["extra"])
                continue
            c.nontriv(("func", o.get("o_group"), o.get("o_func"), o["L"], o.get("o_msg")))
            if o.get("o_func", "") not in o.get("w_funcs", [""]):
                c.fail("oracle", "ReportData.Func names a function that has nothing to do with the reported node (left over from an earlier report)",
                       input=inp, expected=o.get("w_funcs"), observed=o.get("o_func", ""))
            if o.get("o_file") != o.get("w_file"):
                c.fail("oracle", "reported node lies in another file of the FileSet than the analysed one", input=inp, expected=o.get("w_file"),
                       observed=o.get("o_file"))
        for o in comments:
            c.count()
            if o.get("missing"):
                c.fail("oracle", "comment-rule alternatives did not both report", input={"TruncateLen": o["L"]}, expected=2, observed=o["extra"])
            elif o["o_line"] != o["w_line"]:
                c.fail("oracle", "a comment rule reports the rule's line, not the line of the MatchComment alternative that matched",
                       input={"alternative": o["alt"], "message": repr(b64(o["o_msg"]))}, expected=o["w_line"], observed=o["o_line"])
            else:
                c.nontriv(("comment-line", o["alt"], o["L"]))
        # the family of comment rules that name their groups alike: the rule that reports uses ITS OWN submatches, whatever the rules
        # tried on the comment before it (matched, rejected by their Where()) captured under the same names
        c.count(len(cfnone))
        nstale, nshort = {}, {}
        for o in cfams:
            c.count()
            for k in ("o_msg", "w_msg", "o_sugg", "w_sugg"):
                o[k] = b64(o.get(k))
            inp = {"comment": o.get("comment"), "rule_that_reports": o.get("rule"), "matched_and_rejected_before": o.get("rejected"),
                   "submatches": [(x["name"], repr(b64(x.get("text")))) for x in (o.get("caps") or [])], "whole_match": repr(b64((o.get("whole") or {}).get("text"))),
                   "TruncateLen": o["L"], "file": o.get("version")}
            o["caps"] = o.get("caps") or []
            if o.get("unexpected"):
                c.fail("oracle", "a comment rule reports a comment that its regexp does not match or its Where() rejects", input=inp, expected="no report",
                       observed={"group": o["o_group"], "message": repr(o["o_msg"])})
                continue
            if o["missing"]:
                c.fail("oracle", "a comment rule that matches and whose Where() accepts did not report (no earlier rule accepts)", input=inp,
                       expected={"group": o["w_group"], "message": repr(o["w_msg"])}, observed="no report")
                continue
            c.nontriv(("cfam", o["comment"], o["L"], o.get("version")))
            if o.get("stale"):
                nstale[o.get("version")] = nstale.get(o.get("version"), 0) + 1
            if "(?<" in (o.get("rule") or ""):
                nshort[o.get("version")] = nshort.get(o.get("version"), 0) + 1
            if o["extra"]:
                c.fail("oracle", "more than one comment-rule report for one comment", input=inp, expected=1, observed=1 + o["extra"])
            if o["o_group"] != o["w_group"] or o["o_line"] != o["w_line"]:
                c.fail("oracle", "not the first comment rule that accepts reports (RuleInfo group / line of the alternative)", input=inp,
                       expected={"group": o["w_group"], "line": o["w_line"]}, observed={"group": o["o_group"], "line": o["o_line"], "message": repr(o["o_msg"])})
                continue
            if o["o_msg"] != o["w_msg"]:
                c.fail("oracle", "comment-rule message is not the template interpolated with the reporting rule's own submatches", input=inp,
                       expected=repr(o["w_msg"]), observed=repr(o["o_msg"]))
            if (o["o_pos"], o["o_end"]) != (o["w_pos"], o["w_end"]):
                c.fail("oracle", "comment-rule report is not located at the At() submatch of the reporting rule / its whole match", input=inp,
                       expected=[o["w_pos"], o["w_end"]], observed=[o["o_pos"], o["o_end"]])
            if o.get("o_file") != o.get("w_file") or o.get("o_func", "") != "":
                c.fail("oracle", "comment-rule report names another file / a function", input=inp, expected=[o.get("w_file"), ""],
                       observed=[o.get("o_file"), o.get("o_func", "")])
            if o["o_has_sugg"] != o["w_has_sugg"]:
                c.fail("oracle", "suggestion presence differs (comment rule)", input=inp, expected=o["w_has_sugg"], observed=o["o_has_sugg"])
            elif o["o_has_sugg"]:
                if (o["o_sugg_from"], o["o_sugg_to"]) != (o["w_pos"], o["w_end"]):
                    c.fail("oracle", "comment-rule suggestion does not replace exactly the reported span", input=inp,
                           expected=[o["w_pos"], o["w_end"]], observed=[o["o_sugg_from"], o["o_sugg_to"]])
                if o["o_sugg"] != o["w_sugg"]:
                    c.fail("oracle", "comment-rule quick-fix text is not the Suggest template interpolated with the reporting rule's own submatches", input=inp,
                           expected=repr(o["w_sugg"]), observed=repr(o["o_sugg"]))
        if engines:
            ok_e = [o for o in engines if not o.get("panic") and not o["missing"]]
            n_at_whole = sum(1 for o in ok_e if o["at"] == "$$")
            n_at_empty = sum(1 for o in ok_e if o["at"] and any(x["name"] == o["at"] and x.get("from", 0) < 0 for x in o["caps"]))
            n_at_list = sum(1 for o in ok_e if o["at"] and any(x["name"] == o["at"] and x.get("from", 0) >= 0 and b", " in b64(x.get("text")) for x in o["caps"]))
            c.coverage["at_whole_match"], c.coverage["at_list_that_matched_nothing"], c.coverage["at_list_of_several"] = n_at_whole, n_at_empty, n_at_list
            c.obligation("coverage:%s: At(m[\"$$\"]), At() on a list capture that matched nothing and on one of several arguments are reached" % tag,
                         n_at_whole >= 10 and n_at_empty >= 4 and n_at_list >= 1, "reached: %d / %d / %d" % (n_at_whole, n_at_empty, n_at_list))
            nsf = sum(1 for o in engines if o.get("rejected") and not o.get("panic") and not o["missing"])
            c.obligation("coverage:%s: syntax-rule reports behind rules that matched the same call and rejected it (>= 40)" % tag, nsf >= 40, "reached: %d" % nsf)
        if cfams:
            # the class the family exists for must be reached in every analysed version (fixed comments guarantee it)
            versions_seen = {o.get("version") for o in cfams}
            low = sorted(str(v) for v in versions_seen if nstale.get(v, 0) < 6)
            c.obligation("coverage:%s: every version has >= 6 comment reports behind a rule that captured another text under the same name" % tag, not low,
                         "versions below: %s" % low)
            c.coverage["comment_reports_behind_a_rejecting_rule_with_alike_names"] = c.coverage.get("comment_reports_behind_a_rejecting_rule_with_alike_names", 0) + sum(nstale.values())
            low = sorted(str(v) for v in versions_seen if nshort.get(v, 0) < 6)
            c.obligation("coverage:%s: every version has >= 6 comment reports of a regexp that names groups in the short spelling (?<name>re)" % tag, not low,
                         "versions below: %s" % low)
            c.coverage["comment_reports_of_short_spelled_groups"] = c.coverage.get("comment_reports_of_short_spelled_groups", 0) + sum(nshort.values())
        # a comment rule with Suggest() only: message = "suggestion: " + the template (truncated), replacement untruncated
        suggonly = [o for o in obs if o["k"] == "engine-suggonly"]
        for o in suggonly:
            c.count()
            inp = {"rule": "m.MatchComment(`gamma-(?P<long>\\w+)`).Suggest(`<$long|$$>`)", "comment_match": repr(b64(o["whole"].get("text"))), "TruncateLen": o["L"],
                   "version": o.get("version")}
            if o.get("missing"):
                c.fail("oracle", "the Suggest-only comment rule did not report exactly once", input=inp, expected=1, observed=o["extra"])
                continue
            c.nontriv(("suggonly", o["L"], o.get("version")))
            if b64(o["o_msg"]) != b64(o["w_msg"]):
                c.fail("oracle", "report message of a Suggest-only rule differs from `suggestion: ` + the interpolated template", input=inp,
                       expected=repr(b64(o["w_msg"])), observed=repr(b64(o["o_msg"])))
            if not o["o_has_sugg"] or b64(o["o_sugg"]) != b64(o["w_sugg"]):
                c.fail("oracle", "quick-fix text is not the Suggest template interpolated with UNtruncated texts", input=inp,
                       expected=repr(b64(o["w_sugg"])), observed=repr(b64(o["o_sugg"])) if o["o_has_sugg"] else None)
            if (o["o_pos"], o["o_end"]) != (o["w_pos"], o["w_end"]) or (o["o_has_sugg"] and (o["o_sugg_from"], o["o_sugg_to"]) != (o["w_pos"], o["w_end"])):
                c.fail("oracle", "the report / the suggestion of a Suggest-only comment rule does not cover exactly the match", input=inp,
                       expected=[o["w_pos"], o["w_end"]], observed=[o["o_pos"], o["o_end"], o.get("o_sugg_from"), o.get("o_sugg_to")])
        c.coverage["oracle_vs_impl_cases"] = c.coverage.get("oracle_vs_impl_cases", 0) + len(renders) + len(ntexts) + len(engines) + len(comments) + len(suggonly)
        c.coverage["nodes_ending_at_EOF"] = c.coverage.get("nodes_ending_at_EOF", 0) + sum(1 for o in ntexts if o.get("at_eof")) + \
            sum(1 for o in engines if o.get("at_eof"))

        # ---- K: the Coq models on the same cases
        pre = "\n".join([
            "From Coq Require Import List ZArith Bool Arith.",
            "From RG.Base Require Import Outcome GoInt GoSlice.",
            "From RG.Engine Require Import TruncateSpec RenderSpec.",
            "Definition live (l : list (ccap * Z)) : list ccap := map fst (filter (fun p => (snd p =? 0)%Z || (snd p =? 3)%Z) l).",
            # the executed model: capture preparation AND loop as translated from the source when both translate
            ("From RG.Engine Require Import RenderLoop RenderPre.\nFrom RGW Require Import Gen_C03Loop Def_RenderLoop Gen_C03Pre Def_RenderPre.\n"
             "Definition render_model (tr : option Z) (caps : list (ccap * Z)) (w : bytes) (wf : bool) (msg : bytes) : outcome bytes := "
             "gen_render_msg_full tr (map to_val caps) w wf msg."
             if loop_ok and pre_ok and gen_ok else
             ("From RG.Engine Require Import RenderLoop.\nFrom RGW Require Import Gen_C03Loop Def_RenderLoop.\n"
              "Definition render_model (tr : option Z) (caps : list (ccap * Z)) (w : bytes) (wf : bool) (msg : bytes) : outcome bytes := gen_render_msg tr (live caps) w wf msg."
              if loop_ok and gen_ok else
              "Definition render_model (tr : option Z) (caps : list (ccap * Z)) (w : bytes) (wf : bool) (msg : bytes) : outcome bytes := Ok (render_msg tr (live caps) w wf msg).")),
            "From RGW Require Import Gen_C03." if gen_ok else
            "Definition nodeTextInRange (from to : Z) (src : bytes) : outcome bool := Ok ((0 <=? from)%Z && (from <? len src)%Z && ((from <=? to)%Z && (to <=? len src)%Z)).",
            "Import ListNotations. Local Open Scope Z_scope.",
            "Definition rep_eqb (m : option mreport) (pos end_ : Z) (msg : bytes) (hs : bool) (sf st : Z) (sg : bytes) (ln : Z) : bool :=",
            "  match m with None => false | Some r => (rep_pos r =? pos) && (rep_end r =? end_) && bytes_eqb (rep_msg r) msg && (rep_line r =? ln) &&",
            "    match rep_sugg r with None => negb hs | Some (f, t, s) => hs && (f =? sf) && (t =? st) && bytes_eqb s sg end end.",
        ])
        kcf = [o for o in cfams if not o.get("unexpected") and not o["missing"]]
        for o in kcf:
            o["at_eof"] = False
        engines = engines + kcf   # the report model runs on the comment-rule reports as well (captures = the reporting rule's submatches)
        good_engines = [(i, o) for i, o in enumerate(engines) if not o.get("panic") and not o["missing"]]
        good_renders = [(i, o) for i, o in enumerate(renders) if not o.get("panic")]
        good_ntexts = [(i, o) for i, o in enumerate(ntexts) if not o.get("panic")]

        def shard(rs, ns, es):
            src = [pre]
            src.append("Definition rcases : list (Z * option Z * list (ccap * Z) * bytes * bool * bytes * bytes) := [")
            src.append(";\n".join("(%d, %s, %s, %s, %s, %s, %s)" % (
                i, ("(Some (%d))" % o["L"]) if o["trunc"] else "None", coq_caps(o["caps"]), coq_bytes(b64(o["whole"].get("text"))),
                "true" if o["whole"].get("fix") else "false", coq_bytes(o["msg"].encode()), coq_bytes(o["out"])) for i, o in rs))
            src.append("].")
            src.append("Definition bad_render := map (fun c => match c with (i, tr, caps, w, wf, msg, out) => i end) (filter (fun c => "
                       "match c with (i, tr, caps, w, wf, msg, out) => match render_model tr caps w wf msg with Ok r => negb (bytes_eqb r out) | Panic _ => true end "
                       "end) rcases).")
            # nodeText: the file is only needed through its length and the wanted slice; model input = a file of srcn bytes
            # whose [from,to) part is the observed text when in range: use a synthetic file  pad ++ want ++ pad
            src.append("Definition ncases : list (Z * Z * Z * Z * bytes * bytes * bytes) := [")
            src.append(";\n".join("(%d, %d, %d, %d, %s, %s, %s)" % (i, o["from"], o["to"], o["srcn"], coq_bytes(b64(o["want"])),
                                                                  coq_bytes(b64(o["fb"])), coq_bytes(b64(o["out"]))) for i, o in ns))
            src.append("].")
            src.append("Definition mkfile (from to n : Z) (want : bytes) : bytes := "
                       "firstn (Z.to_nat n) (repeat 7 (Z.to_nat from) ++ want ++ repeat 9 (Z.to_nat (n - to))).")
            src.append("Definition bad_ntext := map (fun c => match c with (i, f, t, n, want, fb, out) => i end) (filter (fun c => "
                       "match c with (i, f, t, n, want, fb, out) => match node_text nodeTextInRange (mkfile f t n want) f t fb with "
                       "Ok r => negb (bytes_eqb r out) | Panic _ => true end end) ncases).")
            src.append("Definition ecases : list (Z * (bytes * bytes * option bytes) * list Z * nat * Z * mnode * list (bytes * mnode) * "
                       "(Z * Z * bytes * bool * Z * Z * bytes * Z)) := [")
            src.append(";\n".join("(%d, (%s, %s, %s), [%s], %d%%nat, %d, {| n_pos := %d; n_end := %d; n_text := %s; n_fix := false |}, %s, "
                                  "(%d, %d, %s, %s, %d, %d, %s, %d))" % (
                i, coq_bytes(o["msg_tpl"].encode()), coq_bytes(o["sugg_tpl"].encode()),
                ("(Some %s)" % coq_bytes(o["at"].encode())) if o["at"] else "None",
                ";".join(str(x) for x in o["alt_lines"]), o["alt"], o["L"],
                o["whole"]["from"], o["whole"]["to"], coq_bytes(b64(o["whole"]["text"])), coq_nodes(o["caps"]),
                o["o_pos"], o["o_end"], coq_bytes(o["o_msg"]), "true" if o["o_has_sugg"] else "false",
                o["o_sugg_from"], o["o_sugg_to"], coq_bytes(o["o_sugg"]), o["o_line"]) for i, o in es))
            src.append("].")
            src.append("Definition bad_engine := map (fun c => match c with (i, _, _, _, _, _, _, _) => i end) (filter (fun c => "
                       "match c with (i, (msg, sugg, loc), alts, alt, l, whole, caps, (pos, en, om, hs, sf, st, sg, ln)) => "
                       "match nth_error (load_alternatives {| r_msg := msg; r_sugg := sugg; r_loc := loc; r_line := 0 |} alts) alt with "
                       "| Some r => negb (rep_eqb (mk_report r l whole caps) pos en om hs sf st sg ln) | None => true end end) ecases).")
            src.append("Definition RES := Eval vm_compute in (bad_render, bad_ntext, bad_engine).")
            src.append("Print RES.")
            return "\n".join(src)

        NSH = 12
        jobs = [("Cases_%s_%d.v" % (tag, k), shard(good_renders[k::NSH], good_ntexts[k::NSH], good_engines[k::NSH])) for k in range(NSH)]
        br, bn, be = [], [], []

        def ints(s):
            return [int(x.replace("%Z", "").strip()) for x in s.split(";") if x.strip()]
        for (fname, _), (ok, out) in zip(jobs, c.coq_eval_many(jobs, timeout=1500)):
            if not ok:
                c.obligation("coq-eval:" + fname, False, out[-2000:])
                return
            m = pyre.search(r"RES\s*=\s*\((.*?)\)\s*:\s", out, pyre.S)
            lists = pyre.findall(r"\[(.*?)\]", pyre.sub(r"\s+", " ", m.group(1))) if m else []
            if len(lists) != 3:
                c.obligation("coq-eval-parse:" + fname, False, out[-2000:])
                return
            a, b, cc = [ints(x) for x in lists]
            br += a; bn += b; be += cc
        badset = {("render", i) for i in br} | {("engine", i) for i in be}
        # oracle mismatches inside the guard: a known finding iff the faithful model reproduces the observed text exactly
        for key, f in pending:
            c.fail("oracle", finding=(FINDING if key not in badset else None), **f)
        oracle_failed = {id(x) for x in c.failures}
        del oracle_failed
        for i in br:
            o = renders[i]
            c.fail("corr", "Coq render model differs from renderMessage", input={"template": o["msg"], "captures": [x["name"] for x in o["caps"]],
                   "truncate": o["trunc"], "TruncateLen": o["L"]}, observed=repr(o["out"]))
        for i in bn:
            o = ntexts[i]
            c.fail("corr", "Coq nodeText model differs from nodeText", input={"from": o["from"], "to": o["to"], "file_len": o["srcn"]},
                   observed=repr(b64(o["out"])))
        for i in be:
            o = engines[i]
            c.fail("corr", "Coq report model (mk_report + load_alternatives) differs from the observed ReportData",
                   input={"group": o.get("w_group") or o["group"], "comment": o.get("comment"), "alternative": o["alt"], "report_template": o["msg_tpl"], "suggest_template": o["sugg_tpl"], "at": o["at"],
                          "TruncateLen": o["L"]},
                   observed={"pos": o["o_pos"], "end": o["o_end"], "message": repr(o["o_msg"]), "suggestion": repr(o["o_sugg"]), "line": o["o_line"]})
        c.coverage["model_vs_impl_cases"] = c.coverage.get("model_vs_impl_cases", 0) + len(good_renders) + len(good_ntexts) + len(good_engines)
        for o in renders[3:5]:
            c.sample({"template": o["msg"], "captures": [x["name"] for x in o["caps"]], "truncate": o["trunc"], "L": o["L"], "out": repr(o["out"][:80])})
        for o in engines[5:8]:
            if not o.get("missing") and not o.get("panic"):
                c.sample({"report": o["msg_tpl"], "suggest": o["sugg_tpl"], "at": o["at"], "message": repr(o["o_msg"][:80]), "pos": o["o_pos"],
                          "end": o["o_end"], "line": o["o_line"]})

    nrender, ngroups = (1500, 60) if not thorough else (8000, 240)
    compare(observe(nrender, ngroups, c.seed), "main")

    def search():
        compare(observe(3000, 120, c.seed + 7), "search")

    c.coverage["exhaustive"] = False
    c.finish(search=search)
