"""C10 -- type patterns match exactly the types they denote.

P: coq/theories/Types/TypePat.v (generic in the identity test) + TypePatInst.v (identity = the C14 model identical_x):
   match_pat p t = true  <->  denotes p t   for every pattern tree and every well-formed type of one universe
   (props file coq/tmpl/C10/C10.v).
K: the model match_pat_x is evaluated (vm_compute) on the pattern trees that typematch.Parse really built (hook VerifDump)
   against every type of the pool and diffed with Pattern.MatchIdentical; the parsed tree is compared with the tree the
   generator meant (ties Parse).
O: brute force in Go: every assignment of sub-types / lengths of the type to the pattern's variables x every split of the
   $*_ runs, variables compared with types.Identical; for variable-free patterns additionally types.Identical with the
   type the pattern spells.
"""
import json
import re

F_GENERIC = "named-pattern-matches-instantiations"
F_ALIAS = "named-pattern-alias-name"
F_NESTED = "vendored-copy-nested-vendor-directories"


def coq_str_list(xs):
    return "[" + "; ".join('"%s"' % x for x in xs) + "]"


def pairs(s):
    return [(int(a), int(b)) for a, b in re.findall(r"\((\d+),\s*(\d+)\)", s or "")]


def nats(s):
    return [int(x) for x in re.findall(r"\d+", s or "")]


def eval_source(o, shard, nshards):
    idx = list(range(len(o["pats"])))[shard::nshards]
    src = ["From Coq Require Import List ZArith NArith Bool String.",
           "From RG.Types Require Import GType XIdentical TypePat TypePatInst C14Run.",
           "Import ListNotations. Local Open Scope string_scope.",
           "Definition tys : list gtype := [\n%s\n]." % ";\n".join(o["terms"]),
           "Definition pats : list tpat := [\n%s\n]." % ";\n".join(o["trees"][i] for i in idx),
           "Definition o_obs : list string := %s." % coq_str_list([o["obs"][i] for i in idx])]
    defs = [("R_wf", "bad_indices wf tys"), ("R_un", "bad_indices (in_univ 1) tys"),
            ("R_m", "mismatches match_pat_x pats tys o_obs")]
    for name, body in defs:
        src.append("Definition %s := Eval vm_compute in (%s).\nPrint %s." % (name, body, name))
    return "\n".join(src), idx


def bt_eval_source(blocks):
    """one Coq file for several backtracking blocks (each: all its patterns x all its types)"""
    src = ["From Coq Require Import List ZArith NArith Bool String.",
           "From RG.Types Require Import GType XIdentical TypePat TypePatInst C14Run.",
           "Import ListNotations. Local Open Scope string_scope."]
    for k, m in blocks:
        src.append("Definition tys%d : list gtype := [\n%s\n]." % (k, ";\n".join(m["terms"])))
        src.append("Definition pats%d : list tpat := [\n%s\n]." % (k, ";\n".join(m["trees"])))
        src.append("Definition Rw_%d := Eval vm_compute in ((bad_indices wf tys%d ++ bad_indices (in_univ 1) tys%d)%%list).\nPrint Rw_%d."
                   % (k, k, k, k))
        src.append("Definition Rm_%d := Eval vm_compute in (mismatches match_pat_x pats%d tys%d %s).\nPrint Rm_%d."
                   % (k, k, k, coq_str_list(m["obs"]), k))
    return "\n".join(src)


def run(c):
    from vlib import parse_coq_print
    c.go2coq_sources = ["c20.go", "c10.go", "c10skel.go"]
    thorough = c.tier == "thorough"
    c.rule = ("patterns are abstracted from random type trees (sub-types -> $x/$_, parameter/field runs -> $*_, lengths -> $n; "
              "variables reused consistently and inconsistently) plus a hand-written catalogue (sequences in the middle, repeated "
              "variables across parameter and result lists, nested lists); every pattern is matched against every pool type (the "
              "source types, two near-miss mutants each, aliases, vendored copies, instantiations, same-named types of two packages) "
              "under gotypesalias=0 and 1; near-miss pairs for repeated variables in every binding position; an engine-level section "
              "(Type.Is, Underlying().Is, list captures) and a group-sequence section (several files of several groups spelling the same "
              "pattern strings under different Import() sets, Type.Is / Underlying().Is / SinkType.Is, one engine). A case is non-trivial when the oracle says it matches, or the pattern has a variable or "
              "$*_ and pattern and type have the same root constructor; distinct by (alias mode, pattern string, type expression)")
    c.trusted += [
        "harness/internal/gtypes serialiser; go/types accessors",
        "brute-force oracle in harness/cmd/c10 (assignment enumeration + types.Identical); the harness' own reading of the pattern strings",
        "hook typematch.(*Pattern).VerifDump (build tag verif) for the parsed tree",
        "identity test = C14 model identical_x, which C14 checks against internal/xtypes on every run",
    ]
    c.notes += [
        "typematch.Parse is tied by comparing the dumped tree with the generator's tree; it is not modelled in Coq",
        "the theorems speak about the types of one universe (wf, in_univ u); struct patterns constrain field types only "
        "(names, tags and embeddedness are not expressible in a pattern); a variadic signature is only denoted through a trailing $*_",
    ]
    c.trusted += [
        "go2coq c10tables: translates the `case opNamed:` clause of matchIdentical (straight-line string/bool code) into Gallina, "
        "reads builtinTypeByName, the ReplaceAll calls of Parse and the placeholder prefixes; RG.Types.GoStrings as the meaning of "
        "strings.Index / slicing (String.index / substring)",
        "go2coq c10skel: reads the case clauses of Pattern.matchIdentical of the shape assertion / definitions / rejecting guards / one "
        "return into MatchSkel.clause terms (calls of the matcher, their continuation arguments and the && structure explicit; guards "
        "and component expressions as text, given their meaning by the environments of Inst_C10.v), lists every call of the matcher "
        "with its continuation, and prints the statements of matchIdenticalFielder (transcribed by hand as MatchSkel.fielder_go)",
    ]
    c.build_theories()
    c.require_theories("Types/GType.v", "Types/XIdentical.v", "Types/TypePat.v", "Types/TypePatInst.v", "Types/TypePatClosed.v",
                       "Types/C14Run.v", "Types/GoStrings.v", "Types/MatchSkel.v")
    c.install_tmpl("C10/C10.v")
    c.coq_compile(["C10.v"])
    # ---- P over code translated from typematch.go on this run: the opNamed clause (vendored paths), the builtin names, Parse's rewriting
    if c.go2coq("c10tables", "Gen_C10.v"):
        if c.coq_compile(["Gen_C10.v"]):
            c.install_tmpl("C10/Inst_C10.v", "C10/C10Tr.v")
            c.coq_compile(["Inst_C10.v", "C10Tr.v"])

    hb = c.build_harness("c10")
    if hb is None:
        return c.finish()

    def observe(seed, nrand, depth):
        res = []
        for mode in ("0", "1"):
            # backtracking blocks: 2 ways of mentioning the variable per choice (rotating over the blocks), all 4 in the thorough tier
            rc, out = c.run_harness(hb, ["-seed", str(seed), "-rand", str(nrand), "-depth", str(depth),
                                         "-bt", "4" if thorough else "2", "-btrand", "200" if thorough else "60"], timeout=900,
                                    env={"GODEBUG": "gotypesalias=" + mode})
            o = None
            for line in out.splitlines():
                if line.startswith("{"):
                    try:
                        o = json.loads(line)
                    except ValueError:
                        pass
            if o is None or rc != 0 or o.get("error"):
                if o is None and ("stack overflow" in out or "panic" in out or "fatal error" in out):
                    c.fail("oracle", "typematch crashes the process", input={"seed": seed, "gotypesalias": mode},
                           observed=out[-800:], expected="an answer for every (pattern, type)")
                else:
                    c.obligation("harness-run:c10:seed%d:alias%s" % (seed, mode), False, (o or {}).get("error") or out[-1500:])
                continue
            o["alias"], o["seed"] = mode, seed
            res.append(o)
        return res

    NSH = 6

    def compare(obs, tag):
        jobs, meta = [], []
        for o in obs:
            for sh in range(NSH):
                src, idx = eval_source(o, sh, NSH)
                jobs.append(("Cases_%s_s%d_a%s_%d.v" % (tag, o["seed"], o["alias"], sh), src))
                meta.append((o, idx))
        NBT = 6
        bt_jobs = []
        for o in obs:
            bt = o.get("bt") or []
            for sh in range(NBT):
                blocks = [(k, m) for k, m in enumerate(bt) if k % NBT == sh and m["pats"]]
                if blocks:
                    bt_jobs.append(("CasesBT_%s_s%d_a%s_%d.v" % (tag, o["seed"], o["alias"], sh), bt_eval_source(blocks), blocks))
        all_results = c.coq_eval_many(jobs + [(f, src) for f, src, _ in bt_jobs], timeout=1200)
        results = all_results[:len(jobs)]
        model_bad = {}   # id(matrix) -> set of (pattern index, type index) where model != observed; None when unavailable
        for (fname, _, blocks), (ok, out) in zip(bt_jobs, all_results[len(jobs):]):
            if not ok:
                c.obligation("coq-eval:" + fname, False, out[-2000:])
            for k, m in blocks:
                rw, rm = (parse_coq_print(out, "Rw_%d" % k), parse_coq_print(out, "Rm_%d" % k)) if ok else (None, None)
                if rw is None or rm is None:
                    if ok:
                        c.obligation("coq-eval-parse:%s:%d" % (fname, k), False, out[-1500:])
                    model_bad[id(m)] = None
                    continue
                if nats(rw):
                    c.obligation("pool-terms-ok:%s:%d" % (fname, k), False, "terms violating wf / in_univ: %s" % rw)
                model_bad[id(m)] = set(pairs(rm))
        for (fname, _), (o, idx), (ok, out) in zip(jobs, meta, results):
            key = id(o)
            if not ok:
                c.obligation("coq-eval:" + fname, False, out[-2000:])
                model_bad[key] = None
                continue
            R = {nm: parse_coq_print(out, nm) for nm in ("R_wf", "R_un", "R_m")}
            if any(v is None for v in R.values()):
                c.obligation("coq-eval-parse:" + fname, False, out[-1500:])
                model_bad[key] = None
                continue
            if nats(R["R_wf"]) or nats(R["R_un"]):
                c.obligation("pool-terms-ok:" + fname, False, "terms violating wf / in_univ: %s %s" % (R["R_wf"], R["R_un"]))
            if model_bad.get(key, set()) is not None:
                model_bad.setdefault(key, set()).update((idx[i], j) for (i, j) in pairs(R["R_m"]))
        def check_matrix(m, ctx, mb):
            mode = ctx["gotypesalias"]
            have_model = mb is not None
            for p in m.get("panics") or []:
                c.fail("oracle", "typematch panics", input=dict(ctx, call=p), observed="panic", expected="an answer")
            for e in m.get("parse_err") or []:
                c.fail("corr", "typematch.Parse rejects a pattern of the generator's grammar (or the harness cannot read its own pattern)",
                       input=dict(ctx, pattern=e))
            pats, tys = m["pats"], m["types"]
            for i, p in enumerate(pats):
                if m["trees"][i] != m["exp_trees"][i]:
                    c.fail("corr", "typematch.Parse built a different tree than the pattern string means",
                           input=dict(ctx, pattern=p), expected=m["exp_trees"][i], observed=m["trees"][i])
            kinds = [re.match(r"T \(?(H\w+)", t).group(1) for t in m["terms"]]
            pk = {"PPointer": "HPointer", "PSlice": "HSlice", "PArrayN": "HArray", "PArrayVar": "HArray", "PMap": "HMap",
                  "PChan": "HChan", "PFunc": "HSig", "PStruct": "HStruct"}
            for i, p in enumerate(pats):
                root = pk.get(m["trees"][i].split(" ")[0])
                flexible = m["has_seq"][i] or m["nvars"][i] > 0
                for j, t in enumerate(tys):
                    c.evaluations += 1
                    ob, orc, cl = m["obs"][i][j], m["oracle"][i][j], m["closed"][i][j]
                    if orc == "1" or (flexible and root == kinds[j]):
                        c.nontrivial.add((mode, p, t))
                    model = None
                    if have_model:
                        model = ob if (i, j) not in mb else ("0" if ob == "1" else "1")
                    expected = orc
                    if cl in "01" and not m["vendored"][j] and cl != orc:
                        c.fail("corr", "the two oracles disagree (brute force vs types.Identical of the spelled type)",
                               input=dict(ctx, pattern=p, type=t), expected=cl, observed=orc)
                    if ob != expected:
                        finding = None
                        if model == ob:
                            if ob == "1" and m["names_generic"][i] and m["instantiated"][j]:
                                finding = F_GENERIC
                            elif ob == "0" and m["names_alias"][i]:
                                finding = F_ALIAS
                            elif ob == "0" and m["nested_vendor"][j]:
                                finding = F_NESTED
                        c.fail("oracle", "Pattern.MatchIdentical contradicts the assignment search"
                               + (" and types.Identical with the spelled type" if cl in "01" else ""),
                               input=dict(ctx, pattern=p, type=t), expected=expected == "1", observed=ob == "1", finding=finding)
                    elif have_model and model != ob:
                        c.fail("corr", "model match_pat_x differs from Pattern.MatchIdentical",
                               input=dict(ctx, pattern=p, tree=m["trees"][i], type=t), observed=ob == "1", expected=model == "1")
            if have_model:
                c.coverage["model_vs_impl_cases"] = c.coverage.get("model_vs_impl_cases", 0) + len(m["pats"]) * len(m["types"])
            c.coverage["oracle_assignments_tried"] = c.coverage.get("oracle_assignments_tried", 0) + m["assignments_tried"]

        for o in obs:
            mode = o["alias"]
            ctx = {"gotypesalias": mode, "seed": o["seed"]}
            mb = model_bad.get(id(o))
            have_model = mb is not None
            if o.get("unsupported"):
                c.obligation("pool-inside-model-fragment", False, o["unsupported"])
            check_matrix(o, ctx, mb)
            for m in o.get("bt") or []:
                check_matrix(m, dict(ctx, block=m["name"]), model_bad.get(id(m)))
                c.coverage["backtracking_blocks"] = len(o["bt"])
                c.coverage["backtracking_patterns"] = sum(len(x["pats"]) for x in o["bt"])
                c.coverage["backtracking_cases"] = sum(len(x["pats"]) * len(x["types"]) for x in o["bt"])
            pats, tys = o["pats"], o["types"]
            # ---- engine level: the same patterns through Where(Type.Is / Type.Underlying().Is) and a list capture
            eo = o.get("engine")
            if eo is not None:
                if eo.get("load_err"):
                    c.fail("oracle", "a rules file with Type.Is patterns of the generator's grammar does not load",
                           input=dict(ctx, patterns=eo.get("pats")), observed=eo["load_err"], expected="loads")
                if eo.get("panic"):
                    c.fail("oracle", "Run fails on the Type.Is probe file", input=ctx, observed=eo["panic"], expected="reports")
                kinds_ = {"is": "Type.Is", "uis": "Type.Underlying().Is", "ls": "Type.Is on a $*xs capture (every element must match)"}
                for key, exp in sorted((eo.get("oracle") or {}).items()):
                    got = (eo.get("obs") or {}).get(key) or []
                    exp = exp or []
                    kind = re.match(r"[a-z]+", key).group(0)
                    pat = eo["pats"][int(key[len(kind):])]
                    c.evaluations += 1
                    if exp and exp != [""]:
                        c.nontrivial.add((mode, "engine", kind, pat))
                    if got != exp:
                        c.fail("oracle", "%s filter outcome contradicts the assignment search" % kinds_[kind],
                               input=dict(ctx, pattern=pat, filter=kinds_[kind], probes="harness/cmd/c10 engine section"),
                               expected=exp[:20], observed=got[:20])
                c.coverage["engine_rules"] = len(eo.get("oracle") or {})
            # ---- group sequences: the same pattern strings in groups with different Import() sets, several files, one engine
            go_ = o.get("groups")
            if go_ is not None:
                if go_.get("panic"):
                    c.fail("oracle", "Run fails on the group-sequence probe file", input=ctx, observed=go_["panic"], expected="reports")
                files = go_["files"]
                for f in files:
                    if f["load_err"]:
                        c.fail("oracle", "a rules file whose groups spell resolvable type patterns does not load",
                               input=dict(ctx, file=f["name"], rules=f["rules"]), observed=f["load_err"], expected="loads")
                kinds_ = {"is": "Type.Is", "uis": "Type.Underlying().Is", "snk": "SinkType.Is"}
                for ru in go_["rules"]:
                    f = files[ru["file"]]
                    if f["load_err"]:
                        continue
                    c.evaluations += 1
                    if ru["oracle"]:
                        c.nontrivial.add((mode, "groups", tuple(tuple(g) for g in f["groups"]), ru["group"], ru["kind"], ru["pattern"]))
                    if ru["obs"] != ru["oracle"]:
                        c.fail("oracle", "%s(`%s`) in group %s does not denote the types its qualified names stand for under the "
                               "group's own import table (%s)" % (kinds_[ru["kind"]], ru["pattern"], ru["group"], ru["meaning"] or "no qualified name"),
                               input=dict(ctx, file=f["name"], rules=f["rules"], group=ru["group"], imports=ru["imports"],
                                          groups_of_the_file=f["groups"], pattern=ru["pattern"], filter=kinds_[ru["kind"]],
                                          probes=go_["probes"]),
                               expected=ru["oracle"], observed=ru["obs"])
                c.coverage["group_sequence_files"] = len(files)
                c.coverage["group_sequence_rules"] = len(go_["rules"])
            c.coverage["patterns"] = len(pats)
            c.coverage["patterns_with_seq"] = sum(1 for x in o["has_seq"] if x)
            c.coverage["patterns_with_vars"] = sum(1 for x in o["nvars"] if x)
            c.coverage["types"] = len(tys)
            c.coverage["matching_pairs"] = sum(r.count("1") for r in o["oracle"])
            for i in (3, len(pats) // 2, len(pats) - 20):
                j = o["oracle"][i].find("1")
                c.sample({"gotypesalias": mode, "pattern": pats[i], "tree": o["trees"][i][:300], "type": tys[max(j, 0)],
                          "MatchIdentical": o["obs"][i][max(j, 0)], "oracle": o["oracle"][i][max(j, 0)]}, limit=5)

    if thorough:
        obs = []
        for s in range(6):
            obs += observe(c.seed * 100 + s, 90, 4)
        compare(obs, "main")
    else:
        compare(observe(c.seed, 60, 3), "main")

    def search():
        obs = []
        for s in range(1, 3):
            obs += observe(c.seed * 1000 + s, 80, 4)
        compare(obs, "search")

    c.coverage["exhaustive"] = False
    c.finish(search=search)
