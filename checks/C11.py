"""C11 -- regexp-taking predicates follow Go regexp semantics; textmatch fast paths never change the answer.

P: compileOptimized (closures + if/switch cascade) and the Match/MatchString methods of every matcher are regenerated
   from ruleguard/textmatch by `go2coq textmatch`; coq/tmpl/C11 re-proves against them that the selection is total and
   is the specified selection, and (with RG.Regex.FastPath / Utf8) that a selected matcher accepts a byte string iff an
   unanchored search of the pattern's syntax tree over the decoded input succeeds -- for all trees and all inputs.
K: the regenerated selection is run (vm_compute) on the syntax trees of thousands of patterns and compared with the
   matcher textmatch.Compile really chose (hook VerifDescribe); the regenerated matchers are run on the inputs and
   compared with Match; the capture-group walk model is compared with regexpHasCaptureGroups (hook).
O: textmatch.Match / MatchString vs regexp.MustCompile(p).Match on pattern x input (the property's oracle), compile
   errors of both, engine-level Text.Matches / File().Name.Matches / File().PkgPath.Matches vs regexp on the node text,
   file name and package path -- over a history of runs (several packages, file names, versions of the text at the same
   offsets / the same path) through ONE reused RunnerState and with a nil state; every pattern answered by a rune predicate
   is swept over all runes. The hypothesis about the (regenerated) table of prefix classes is checked entry by entry for
   every rune, and discharged in Coq from the observed range tables (Hyp_Instance.v).
"""
import base64
import json
import os
import re as pyre

from vlib import coq_bytes


def b64(x):
    return base64.b64decode(x) if x else b""


def run(c):
    c.go2coq_sources = ["textmatch.go"]   # private translator build: another family's generator cannot break this check
    thorough = c.tier == "thorough"
    c.rule = ("patterns: every atom, pair and begin/any x literal x end/any triple over pools of literals (plain, case-folded, "
              "[Ff], non-ASCII, U+FFFD, surrogate, with newline), any-variants, anchors (^ $ \\A \\z, (?m)), flags in front of "
              "every fast-path shape, near misses of ^\\p{Lu}, an anchor next to a dot-star (every spelling of either) around a literal under every flag prefix, "
              "every metacharacter where it is a literal (escaped, in a bracket expression, inside \\Q..\\E) next to real groups, plus seeded random patterns; inputs: ~60 fixed strings (empty, "
              "multi-line, case variants, non-ASCII, invalid UTF-8) plus strings derived from the pattern's literals (also several lines with the literal on the "
              "first / a middle / the last line), every printable ASCII character alone and inside a word for the metacharacter patterns, plus strings beginning "
              "with the runes on both sides of every boundary of the pattern's classes and with runes of every unicode predicate; a case "
              "(pattern, input) is non-trivial when textmatch chose a fast path or regexp matches; distinct by (pattern, input)")
    c.trusted += [
        "go2coq textmatch translator (closures and if/switch cascade of compileOptimized, matcher methods -> Gallina; the exact shapes of the exported "
        "Compile -- the pattern string goes to compile() unchanged --, of compile() and of newInputValue)",
        "regexp/syntax.Parse delivers the tree (serialised by harness/cmd/c11); regexp.MustCompile is the oracle",
        "Section hypothesis of C11_fast_path_equiv (table_sound): for every entry of the REGENERATED table of prefix classes, "
        "syntax.Parse of the pattern string is Concat[BeginText, CharClass] whose class equals the entry's unicode predicate and "
        "excludes U+FFFD -- discharged on every run by Hyp_Instance.v from the range tables obtained by calling unicode.IsX on every "
        "rune 0..0x10FFFF+16 and the observed parses (trusted: that extraction); fold_rel (unicode.SimpleFold orbits) is abstract "
        "and unused by any selected path",
        "the positional matching relation RG.Regex.Regex.m as the meaning of a syntax tree (existence of a match; greediness ignored) -- "
        "validated on every run: an executable matcher PROVED equivalent to m (Matcher.searchb_correct) is compared with regexp on "
        "every generated pattern (trees with surrogate literal runes excepted: Go's regexp is inconsistent with itself there)",
        "harness/cmd/c11 and hooks textmatch.VerifDescribe, ruleguard.VerifRegexpHasCaptureGroups (build tag verif)",
        "the facts go2coq reads off filters.go / ir_loader.go / ruleguard.go / runner.go (call sites, loader, RunnerState inventory, "
        "what flows from a reused state into a run) are syntactic",
    ]
    c.notes += ["the regexp fallback path is regexp.Compile itself; File().Name/PkgPath.Matches use regexp.Compile directly",
                "Text.Matches(``) (empty pattern) and patterns regexp rejects are load errors (observed, expected)"]

    # build the shared theories; only the files this property rests on must have compiled (another family's file that
    # is being edited must not break this check)
    c.sh([os.path.join(c.verif, "coq", "build.sh")], timeout=3400)
    c.require_theories("Base/*.v", "Regex/*.v")
    c.log("theories ready")

    # ---- P: regenerate and re-prove
    gen_ok = False
    inst_ok = False
    table_json = ""   # the table of prefix classes the translator read off the source (pattern string -> unicode predicate)
    if c.go2coq("textmatch", "Gen_Textmatch.v"):
        m = pyre.search(r"^\(\* PREFIX-TABLE-JSON: (\[.*\]) \*\)$", open(os.path.join(c.gen, "Gen_Textmatch.v")).read(), pyre.M)
        table_json = m.group(1) if m else ""
        c.obligation("go2coq:textmatch: the table of prefix classes is listed", bool(m), "no PREFIX-TABLE-JSON line")
        if c.coq_compile(["Gen_Textmatch.v"]):
            c.install_tmpl("C11/Inst_Textmatch.v", "C11/C11.v", "C11/Hyp_Instance.v")
            inst_ok = c.coq_compile(["Inst_Textmatch.v", "C11.v"])
            gen_ok = True  # the generated definitions exist and can be executed even if a proof about them broke
    c.coverage["prefix_class_table"] = [[b64(e[0]).decode("utf-8", "replace"), e[1]] for e in json.loads(table_json)] if table_json else None

    c.log("proof obligations compiled")
    hb = c.build_harness("c11")
    c.log("harness built")
    if hb is None:
        return c.finish()

    def observe(nrand, nengine, seed):
        tmp = os.path.join(c.work, "tmp")
        os.makedirs(tmp, exist_ok=True)
        args = ["-seed", str(seed), "-rand", str(nrand), "-engine", str(nengine), "-tmp", tmp, "-table", table_json]
        if thorough:
            args.append("-allclasses")
        rc, out = c.run_harness(hb, args, timeout=1800)
        obs = []
        for line in out.splitlines():
            line = line.strip()
            if line.startswith("{"):
                try:
                    obs.append(json.loads(line))
                except ValueError:
                    pass
        if rc != 0:
            c.obligation("harness-run:c11", False, out[-2000:])
        return obs

    def compare(obs, tag):
        c.log("harness observations: %d" % len(obs))
        pats = [o for o in obs if o["k"] == "pat"]
        eng = [o for o in obs if o["k"] == "engine"]
        rej = [o for o in obs if o["k"] == "engine-reject"]
        runs = [o for o in obs if o["k"] == "engine-run"]
        sweeps = [o for o in obs if o["k"] == "sweep"]
        tab = next((o for o in obs if o["k"] == "table"), None)
        classes = next((o["defs"] for o in obs if o["k"] == "classes"), {}) or {}

        # ---- the hypothesis of the theorems about the table of prefix classes, entry by entry, for every rune; the observed
        # range tables / parses go into Obs_Unicode.v and Hyp_Instance.v turns the comparison into the hypothesis (in Coq)
        obs_ok = False
        from concurrent.futures import ThreadPoolExecutor
        pool, hyp_future = ThreadPoolExecutor(max_workers=1), None
        if not tab:
            c.obligation("hyp:table-observed", False, "harness printed no table record")
        else:
            for e in tab["entries"] or []:
                ok = e["known"] and not e.get("parse_err") and e["shape_ok"] and e["nbad"] == 0 and not e["pred_error"]
                c.obligation("hyp:table entry %r: syntax.Parse gives ^ + one class and unicode.%s decides that class, for every rune (%d) "
                             "and rejects U+FFFD" % (b64(e["pat"]).decode("utf-8", "replace"), e["pred"], tab["runes"]), ok,
                             json.dumps({k: v for k, v in e.items() if k != "ast"}))
                c.count(tab["runes"])
            if tag == "main":
                names = ["IsUpper", "IsLower", "IsTitle", "IsLetter", "IsDigit", "IsNumber", "IsSpace", "IsPunct", "IsSymbol", "IsMark",
                         "IsControl", "IsGraphic", "IsPrint"]
                src = ["(* written by checks/C11.py from the harness's observations of this run *)",
                       "From Coq Require Import List ZArith.", "From RG.Base Require Import Outcome GoSlice.", "From RG.Regex Require Import Utf8 Regex FastPath.",
                       "Import ListNotations. Local Open Scope Z_scope.",
                       "Definition obs_pred_rg (p : pred_id) : list (rune * rune) :=\n  match p with"]
                for n in names:
                    src.append("  | Pred%s => %s" % (n, tab["preds"].get(n, "[]")))
                src.append("  end.")
                src.append("Definition obs_parses : list (bytes * regex) := [%s]." % ";\n  ".join(
                    "(%s, %s)" % (coq_bytes(b64(e["pat"])), e["ast"]) for e in (tab["entries"] or []) if e.get("ast")))
                with open(os.path.join(c.gen, "Obs_Unicode.v"), "w") as f:
                    f.write("\n".join(src) + "\n")
                def hyp_job():
                    ok = c.coq_compile(["Obs_Unicode.v"])
                    if ok and gen_ok and inst_ok:
                        c.coq_compile(["Hyp_Instance.v"])
                    return ok
                hyp_future = pool.submit(hyp_job)
            else:
                obs_ok = os.path.exists(os.path.join(c.gen, "Obs_Unicode.vo"))
        cls_mod = "Obs_Classes_%s" % tag
        with open(os.path.join(c.gen, cls_mod + ".v"), "w") as f:
            f.write("From Coq Require Import List ZArith.\nImport ListNotations. Local Open Scope Z_scope.\n" +
                    "\n".join("Definition %s : list (Z * Z) := %s." % (k, v) for k, v in sorted(classes.items())) + "\n")
        cls_ok = c.coq_compile([cls_mod + ".v"])   # meanwhile Obs_Unicode.v / Hyp_Instance.v compile in the other thread
        if hyp_future is not None:
            obs_ok = hyp_future.result()
        pool.shutdown()

        # ---- O: the property's oracle
        kinds = {}
        for o in pats:
            pat = b64(o["pat"])
            if o.get("panic"):
                c.fail("oracle", "textmatch/regexp panics on a pattern", input={"pattern": repr(pat)}, observed=o["panic"],
                       expected="no panic")
                continue
            if o["err"] != o["re_err"]:
                c.fail("oracle", "textmatch.Compile and regexp.Compile disagree on whether the pattern is valid",
                       input={"pattern": repr(pat)}, observed={"textmatch_error": o["err"]}, expected={"regexp_error": o["re_err"]})
            if o["hascap"] != (o["parse_err"] or o["numsub"] > 0):
                c.fail("oracle", "regexpHasCaptureGroups contradicts regexp.NumSubexp", input={"pattern": repr(pat)},
                       observed=o["hascap"], expected=(o["parse_err"] or o["numsub"] > 0))
            kinds[o.get("kind", "-")] = kinds.get(o.get("kind", "-"), 0) + 1
            if o.get("kind") not in (None, "", "regexp") and b64(o.get("lit_s")) != b64(o.get("lit_b")) and o.get("kind") != "pred":
                c.fail("corr", "the string and byte copies of a matcher's literal differ", input={"pattern": repr(pat)},
                       observed={"s": repr(b64(o.get("lit_s"))), "b": repr(b64(o.get("lit_b")))})
            if o.get("tm") is None:
                c.count()
                continue
            ins = o["inputs"]
            for k in o.get("unstable") or []:
                c.fail("oracle", "a compiled pattern answers differently on the same input the second time (the answer depends on what was matched before)",
                       input={"pattern": repr(pat), "input": repr(b64(ins[k])), "matcher": o.get("kind")},
                       observed={"first": o["tm"][k] == "1", "second": o["tm"][k] != "1"}, expected={"regexp.Match": o["re"][k] == "1"})
            fast = o.get("kind") not in ("regexp", None, "")
            for k, (a, b, r) in enumerate(zip(o["tm"], o["tms"], o["re"])):
                c.count()
                if fast or r == "1":
                    c.nontriv((o["pat"], ins[k]))
                if a != r or b != r:
                    c.fail("oracle", "textmatch answers differently from regexp compiled from the same pattern",
                           input={"pattern": repr(pat), "input": repr(b64(ins[k])), "matcher": o.get("kind")},
                           observed={"Match": a == "1", "MatchString": b == "1"}, expected={"regexp.Match": r == "1"})
        for o in eng:
            c.count()
            if o.get("panic") or o.get("load_err"):
                c.fail("oracle", "engine-level run failed", input={}, observed=o.get("panic") or o.get("load_err"), expected="reports")
                continue
            if o["want"]:
                c.nontriv(("engine", o["pred"], o["neg"], o["pat"], o["input"]))
            if o["got"] != o["want"]:
                c.fail("oracle", ("a boolean combination of Text.Matches predicates is not that combination of regexp's verdicts, each on its own pattern and text"
                                  if o["pred"] == "bool" else "%s%s.Matches disagrees with regexp on the same text" % ("!" if o["neg"] else "", o["pred"])),
                       input={"predicate": o["pred"], "negated": o["neg"], "pattern": repr(b64(o["pat"])), "text": repr(b64(o["input"])),
                              "run": o.get("run"), "runner_state": {"shared": "one RunnerState reused for the whole history of runs",
                                                                    "nil": "RunContext.State == nil"}.get(o.get("mode"), o.get("mode")),
                              "earlier_runs_with_this_state": o.get("prev", "")},
                       observed={"reported": o["got"]}, expected={"reported": o["want"]})
        for o in runs:
            # a later run over a version whose sites were listed before: mismatches (if any) are among `eng`
            c.count(o["sites"])
            c.nontriv(("engine-run", o["mode"], o["run"], o["version"]))
        c.coverage["engine_runs"] = c.coverage.get("engine_runs", 0) + len(runs) + len(set((o.get("mode"), o.get("run")) for o in eng))
        for o in sweeps:
            c.count(o["runes"])
            c.nontriv(("sweep", o["pat"]))
            for k, inp in enumerate(o.get("bad") or []):
                c.fail("oracle", "textmatch answers differently from regexp compiled from the same pattern (sweep over every rune as the "
                       "first character; %d inputs differ)" % o["nbad"],
                       input={"pattern": repr(b64(o["pat"])), "input": repr(b64(inp)), "matcher": o.get("kind")},
                       observed={"textmatch": o["bad_tm"][k]}, expected={"regexp.Match": not o["bad_tm"][k]})
        c.coverage["all_rune_sweeps"] = c.coverage.get("all_rune_sweeps", 0) + len(sweeps)
        for o in rej:
            c.count()
            if not o["got"]:
                c.fail("oracle", "Load accepts a Text.Matches pattern it must reject", input={"pattern": repr(b64(o["pat"]))},
                       observed="loaded", expected="load error")
        ek = next((o["kinds"] for o in obs if o["k"] == "engine-kinds"), None)
        if ek is not None:
            c.coverage["engine_text_matcher_kinds"] = ek
            missing = sorted(k for k in kinds if k not in ("-", "", None) and not ek.get(k))
            c.obligation("coverage: the engine-level Text.Matches runs reach every matcher kind the pattern-level run saw", not missing,
                         "not reached: %s" % missing)
        c.coverage.setdefault("matcher_kinds", {})
        for k, v in kinds.items():
            c.coverage["matcher_kinds"][k] = c.coverage["matcher_kinds"].get(k, 0) + v
        c.coverage["oracle_vs_impl_cases"] = c.coverage.get("oracle_vs_impl_cases", 0) + sum(len(o.get("tm") or "") for o in pats) + len(eng)

        # ---- K: run the regenerated selection / matchers / capture walk inside Coq on the same cases
        if not (obs_ok and cls_ok):
            return
        ctor = {"contains": "MContains", "prefix": "MPrefix", "suffix": "MSuffix", "eq": "MEq"}
        folds = next((o["table"] for o in obs if o["k"] == "folds"), []) or []
        srng = c.rng(17)

        def pick(o):
            """inputs on which the executable matcher (proved equivalent to the relation m) is compared with regexp: short ones,
            matching and non-matching"""
            ins = [b64(x) for x in o["inputs"]]
            order = sorted(range(len(ins)), key=lambda k: (len(ins[k]), k))
            pos = [k for k in order if o["re"][k] == "1" and len(ins[k]) <= 16][:npos]
            neg = [k for k in order if o["re"][k] == "0" and len(ins[k]) <= 16][:nneg]
            rest = [k for k in order if len(ins[k]) <= 24 and k not in pos and k not in neg]
            extra = srng.sample(rest, min(nextra, len(rest)))
            return sorted(set(pos + neg + extra))

        def expected(o):
            k = o.get("kind")
            if k == "regexp":
                return "None"
            if k in ctor:
                return "(Some (%s %s))" % (ctor[k], coq_bytes(b64(o.get("lit_b"))))
            if k == "pred":
                name = b64(o.get("lit_s")).decode()
                if name in pred_names:
                    return "(Some (MPrefixPred Pred%s))" % name
            return None

        pred_names = set(tab["preds"].keys())
        for o in pats:
            if o.get("ast") and not o["err"] and expected(o) is None:
                c.fail("corr", "textmatch chose a matcher the model has no counterpart for (a rune predicate that is not one of package unicode's?)",
                       input={"pattern": repr(b64(o["pat"]))}, observed={"kind": o.get("kind"), "holds": repr(b64(o.get("lit_s")))})
        sel = [o for o in pats if o.get("ast") and not o["err"] and expected(o) is not None]
        NSH = 14
        sel_fn = "gen_compileOptimized" if gen_ok else "(fun s re => Ok (spec_select [(pat_upper, PredIsUpper); (pat_lower, PredIsLower)] s re))"
        mb_fn = "gen_match_bytes pred" if gen_ok else "run_matcher pred"
        ms_fn = "gen_match_string pred" if gen_ok else "run_matcher pred"
        pre = "\n".join([
            "From Coq Require Import List ZArith Bool Arith.",
            "From RG.Base Require Import Outcome GoSlice.",
            "From RG.Regex Require Import Utf8 Regex FastPath GoOps Capture Matcher.",
            "From RGW Require Import Gen_Textmatch." if gen_ok else "",
            "From RGW Require Import Obs_Unicode %s." % cls_mod,
            "Import ListNotations. Local Open Scope Z_scope.",
            "Definition pred (p : pred_id) (c : Z) : bool := in_ranges (obs_pred_rg p) c.",
            "Definition sel_ok (s : bytes) (re : regex) (e : option matcher) : bool := "
            "match %s s re with Ok r => opt_matcher_eqb r e | Panic _ => false end." % sel_fn,
            "Definition folds : list (Z * list Z) := [%s]." % ";".join("(%d, [%s])" % (row[0], ";".join(str(x) for x in row[1:])) for row in folds),
            "Definition fold_rel (a c : Z) : bool := match find (fun p => fst p =? a) folds with Some (_, orb) => existsb (Z.eqb c) orb | None => false end.",
            "Definition bools_eqb (a b : list bool) : bool := (length a =? length b)%nat && forallb (fun p => Bool.eqb (fst p) (snd p)) (combine a b).",
        ])

        def shard(items):
            src = [pre]
            src.append("Definition scases : list (Z * bytes * regex * option matcher * bool) := [")
            src.append(";\n".join("(%d, %s, %s, %s, %s)" % (o["i"], coq_bytes(b64(o["pat"])), o["ast"], expected(o),
                                                            "true" if o["hascap"] else "false") for o in items))
            src.append("].")
            src.append("Definition bad_sel := map (fun c => match c with (i, s, re, e, h) => i end) "
                       "(filter (fun c => match c with (i, s, re, e, h) => negb (sel_ok s re e) end) scases).")
            src.append("Definition bad_cap := map (fun c => match c with (i, s, re, e, h) => i end) "
                       "(filter (fun c => match c with (i, s, re, e, h) => negb (Bool.eqb (has_capture_groups (Some re)) h) end) scases).")
            fastp = [o for o in items if o.get("kind") != "regexp" and o.get("tm") is not None]
            src.append("Definition mcases : list (Z * matcher * list bytes * list bool * list bool) := [")
            src.append(";\n".join("(%d, %s, [%s], [%s], [%s])" % (
                o["i"], expected(o)[6:-1], ";".join(coq_bytes(b64(x)) for x in o["inputs"]),
                ";".join("true" if ch == "1" else "false" for ch in o["tm"]),
                ";".join("true" if ch == "1" else "false" for ch in o["tms"])) for o in fastp))
            src.append("].")
            src.append("Definition bad_match := map (fun c => match c with (i, mt, ins, bs, ss) => i end) "
                       "(filter (fun c => match c with (i, mt, ins, bs, ss) => negb (bools_eqb (map (%s mt) ins) bs && "
                       "bools_eqb (map (%s mt) ins) ss) end) mcases)." % (mb_fn, ms_fn))
            # Go's regexp is itself inconsistent on literals holding surrogate runes (`^a\x{D800}$` matches "a\uFFFD" through the
            # complete-literal-prefix path, `a\x{D800}` does not): no relation can agree with it there; such trees are skipped
            def scalar_literals(ast):
                for mm in pyre.finditer(r"\(Literal (?:true|false) \[([0-9;]*)\]\)", ast):
                    if any(0xD800 <= int(x) <= 0xDFFF for x in mm.group(1).split(";") if x):
                        return False
                return True
            wm = [o for o in items if o.get("re") is not None and scalar_literals(o["ast"])]
            picks = {o["i"]: pick(o) for o in wm}
            src.append("Definition vcases : list (Z * regex * list bytes * list bool) := [")
            src.append(";\n".join("(%d, %s, [%s], [%s])" % (
                o["i"], o["ast"], ";".join(coq_bytes(b64(o["inputs"][k])) for k in picks[o["i"]]),
                ";".join("true" if o["re"][k] == "1" else "false" for k in picks[o["i"]])) for o in wm))
            src.append("].")
            src.append("Definition bad_search := map (fun c => match c with (i, re, ins, bs) => i end) "
                       "(filter (fun c => match c with (i, re, ins, bs) => negb (bools_eqb (map (fun b => searchb fold_rel re (decode b)) ins) bs) end) vcases).")
            src.append("Definition RES := Eval vm_compute in (bad_sel, bad_cap, bad_match, bad_search).")
            src.append("Print RES.")
            nsearch[0] += sum(len(v) for v in picks.values())
            return "\n".join(src), len(fastp)

        c.log("oracle compared; running the model in Coq")
        # decode / encode against Go's own UTF-8 handling
        dec = next((o for o in obs if o["k"] == "decode"), None)
        dec_src = ""
        if dec:
            dec_src = "\n".join([
                "Definition dcases : list (Z * bytes * list Z) := [",
                ";\n".join("(%d, %s, [%s])" % (k, coq_bytes(b64(i)), ";".join(str(x) for x in r)) for k, (i, r) in enumerate(zip(dec["inputs"], dec["runes"]))),
                "].",
                "Definition ecases : list (Z * list Z * bytes) := [",
                ";\n".join("(%d, [%s], %s)" % (k, ";".join("(%d)" % x for x in r), coq_bytes(b64(e))) for k, (r, e) in enumerate(zip(dec["encs"] or [], dec["encout"] or []))),
                "].",
                "Definition zs_eqb (a b : list Z) : bool := bytes_eqb a b.",
                "Definition bad_dec := map (fun c => fst (fst c)) (filter (fun c => match c with (i, b, r) => negb (zs_eqb (decode b) r) end) dcases).",
                "Definition bad_enc := map (fun c => fst (fst c)) (filter (fun c => match c with (i, r, e) => negb (bytes_eqb (encode r) e) end) ecases).",
                "Definition DRES := Eval vm_compute in (bad_dec, bad_enc).", "Print DRES."])
        jobs, nfast = [], 0
        nsearch = [0]
        for k in range(NSH):
            s, nf = shard(sel[k::NSH])
            nfast += nf
            jobs.append(("Cases_%s_%d.v" % (tag, k), s))
        if dec_src:
            jobs.append(("Cases_%s_decode.v" % tag, pre + "\n" + dec_src))
        bsel, bcap, bmatch, bsearch = [], [], [], []

        def ints(s):
            return [int(x.replace("%Z", "").strip()) for x in s.split(";") if x.strip()]
        for (fname, _), (ok, out) in zip(jobs, c.coq_eval_many(jobs, timeout=1500)):
            if not ok:
                c.obligation("coq-eval:" + fname, False, out[-2000:])
                return
            if fname.endswith("_decode.v"):
                m = pyre.search(r"DRES\s*=\s*\((.*?)\)\s*:\s", out, pyre.S)
                lists = pyre.findall(r"\[(.*?)\]", pyre.sub(r"\s+", " ", m.group(1))) if m else []
                if len(lists) != 2:
                    c.obligation("coq-eval-parse:" + fname, False, out[-2000:])
                    return
                for k in ints(lists[0]):
                    c.fail("corr", "Coq decode differs from Go's decoding of the byte string", input={"bytes": repr(b64(dec["inputs"][k]))},
                           observed=dec["runes"][k])
                for k in ints(lists[1]):
                    c.fail("corr", "Coq encode differs from Go's string([]rune)", input={"runes": dec["encs"][k]}, observed=repr(b64(dec["encout"][k])))
                c.count(len(dec["inputs"]) + len(dec["encs"] or []))
                c.coverage["utf8_model_vs_go_cases"] = c.coverage.get("utf8_model_vs_go_cases", 0) + len(dec["inputs"]) + len(dec["encs"] or [])
                continue
            m = pyre.search(r"RES\s*=\s*\((.*?)\)\s*:\s", out, pyre.S)
            lists = pyre.findall(r"\[(.*?)\]", pyre.sub(r"\s+", " ", m.group(1))) if m else []
            if len(lists) != 4:
                c.obligation("coq-eval-parse:" + fname, False, out[-2000:])
                return
            a, b, cc, dd = [ints(x) for x in lists]
            bsel += a; bcap += b; bmatch += cc; bsearch += dd
        c.log("model compared")
        byi = {o["i"]: o for o in pats}
        for i in bsel:
            o = byi[i]
            c.fail("corr", "the regenerated fast-path selection differs from the matcher textmatch.Compile chose",
                   input={"pattern": repr(b64(o["pat"])), "tree": o["ast"][:300]}, observed={"kind": o.get("kind"), "literal": repr(b64(o.get("lit_b")))})
        for i in bcap:
            o = byi[i]
            c.fail("corr", "the capture-group walk model differs from regexpHasCaptureGroups", input={"pattern": repr(b64(o["pat"]))},
                   observed=o["hascap"])
        for i in bmatch:
            o = byi[i]
            c.fail("corr", "the regenerated matcher differs from Match/MatchString on some input", input={"pattern": repr(b64(o["pat"]))},
                   observed={"kind": o.get("kind"), "Match": o["tm"], "MatchString": o["tms"]})
        for i in bsearch:
            o = byi[i]
            c.fail("corr", "the executable matcher (proved equivalent to the matching relation of the theorems) disagrees with regexp: the "
                   "relation is not Go's semantics on this pattern", input={"pattern": repr(b64(o["pat"])), "tree": o["ast"][:300]},
                   observed={"regexp": o["re"][:40]})
        c.count(nsearch[0])
        c.coverage["relation_vs_regexp_cases"] = c.coverage.get("relation_vs_regexp_cases", 0) + nsearch[0]
        c.coverage["model_vs_impl_selection_cases"] = c.coverage.get("model_vs_impl_selection_cases", 0) + len(sel)
        c.coverage["model_vs_impl_matcher_patterns"] = c.coverage.get("model_vs_impl_matcher_patterns", 0) + nfast
        for o in [x for x in sel if x.get("kind") != "regexp"][:3] + [x for x in sel if x.get("kind") == "regexp"][5:7]:
            c.sample({"pattern": repr(b64(o["pat"])), "matcher": o.get("kind"), "literal": repr(b64(o.get("lit_b"))),
                      "inputs": len(o.get("inputs") or []), "regexp_matches": (o.get("re") or "").count("1")})

    npos, nneg, nextra = (4, 6, 3) if not thorough else (8, 12, 10)
    nrand, nengine = (300, 40) if not thorough else (6000, 160)
    compare(observe(nrand, nengine, c.seed), "main")

    def search():
        compare(observe(3000, 80, c.seed + 7), "search")

    c.coverage["exhaustive"] = False
    c.finish(search=search)
