"""C01 -- every matching node of a file is reported exactly once, nothing else.

P: go/ast's child-field schema, the walker's per-kind action lists, gogrep's kind->tag map, the loadSyntaxRule
   fan-out, multiMatchTags and the flag of the runRules loop are regenerated from source; Inst_Walker.v /
   Inst_Dispatch.v close the finite obligations (kind_ok for every kind, place_ok, multi table, accumulating flag)
   by vm_compute and C01.v states, for ALL trees x ALL loadable rule sets x every matcher oracle: the reports are
   the offered nodes in source order, each given to all rules in load order, first accepting rule wins
   (all accepting rules for multi-match tags).
K: (a) the Coq model walks serialised ASTs (repo, GOROOT, kitchen-sink, generated files) and is compared visit by
   visit with the engine's own walker; the same trees are checked against the generated schema (ast.Inspect order);
   (b) the Coq model of load + dispatch, fed with the oracle's matcher table, is compared with Engine.Run's reports.
O: independent Go oracle: ast.Inspect x separately compiled gogrep.Pattern.MatchNode, rules in load order,
   first accepting rule wins, multi-match tags report all -- compared report by report with Engine.Run.
"""
import glob
import json
import os
import re

import walkerlib


def run(c):
    thorough = c.tier == "thorough"
    c.rule = ("random load histories (1-4 Load calls into one engine with a GroupFilter; each file has Match groups, MatchComment "
              "groups only, both, only groups the filter disables, or imports a rule bundle from disk -- some bundles end with a "
              "file without syntax rules or have none; the last Load adds no syntax rule in about a quarter of the histories; "
              "1-5 groups per file, 1-2 Match statements with 1-3 alternatives drawn from a "
              "catalogue of ~80 pattern templates covering every bucket tag plus statement-, expression- and declaration-list "
              "patterns; filters none / Deadcode / !Deadcode / Const / a custom bytecode filter on the type of $x; reports by Report() or a Do() "
              "handler) run over a type-checked kitchen-sink file, generated "
              "nestings, repository test files and one fixed file nested ~300 levels deep in every shape generated code has (left-nested "
              "concatenations of 280 operands, an else-if chain of 280 arms, fluent call chains, parentheses, blocks, literals; three "
              "targeted sets for the leaves at the bottom and the nodes of every level; the walker hook is compared with ast.Inspect on the "
              "same file, also from non-initial contexts and with a panicking callback); every other random history has 1-2 Load calls that are rejected (a re-declared group "
              "in front of / between / behind new groups, a bundle imported twice under one prefix, a file that does not parse or "
              "type-check, a pattern gogrep rejects), anywhere in the history, sometimes followed by a file that declares the "
              "rejected file's new groups again; after its lone run every set is run as the root of a tree of runs started from Report "
              "callbacks (nil / own / pooled states, same or another goroutine, up to three levels, other targets) and as one of "
              "six concurrent runs; every engine report is one evaluation; a case is non-trivial and distinct "
              "by (node tag, pattern root tag) pairs that produced an accepted match, plus (rule set, target) runs in which "
              "several rules competed for the same node")
    c.trusted += walkerlib.TRUSTED + [
        "gogrep: Compile / MatchNode (the oracle compiles every pattern separately; whether a pattern matches a node is gogrep's decision)",
        "Section hypothesis of C01_reports_exact: MatchNode only calls back on nodes whose tag is compatible with the pattern's root tag "
        "(compat_spec, written from gogrep's MatchNode; validated by the engine-vs-oracle runs, whose oracle offers every node to every rule)",
    ]
    c.notes += ["comment rules appear with plain regexps only (first matching rule per comment, in load order, after the walk): enough to "
                "see that merging keeps them; their own semantics is C12's",
                "Field, FieldList, Comment, CommentGroup (and Bad*) nodes have no gogrep tag and are never offered",
                "filters are an oracle here (C02/C17 are about them); the oracle evaluates Deadcode, Const and the custom type filter independently"]

    c.build_theories()
    c.require_theories("Ast/*.v", "Engine/Dispatch.v", "Engine/RunState.v", "Engine/MatchEnv.v", "Engine/LoadFail.v", "Engine/Reentrant.v")
    inst_ok = False
    g1 = walkerlib.go2coq(c, "walktables", "Gen_WalkTables.v")
    g2 = walkerlib.go2coq(c, "runnerstate", "Gen_RunnerState.v")
    if g1 and g2:
        inst_ok = walkerlib.prepare(c, [], extra_gen=["Gen_WalkTables.v", "Gen_RunnerState.v"], extra_tmpl=["C01/Inst_Dispatch.v", "C01/C01.v"])

    hb = c.build_harness("walker")
    if hb is None:
        return c.finish()

    def events(nrepo, nstd, ngen, size, tag, seed):
        obs = walkerlib.run_events(c, hb, walkerlib.pick_files(c, nrepo, nstd), ngen, size, variants=1, seed=seed)
        pairs = set()
        for o in obs:
            if o.get("err"):
                continue
            c.count(len(o["events"]))
            for k in o.get("kinds") or []:
                pairs.add(k)
            if o.get("oracle"):
                c.fail("oracle", "the walker does not offer exactly the tagged nodes in source order: " + o["oracle"],
                       input={"file": o["name"], "source": o.get("src"), "start_context": o.get("init"), "panic_at": o.get("panic_at")},
                       expected="every node with a gogrep tag, once, in ast.Inspect order", observed=o["oracle"])
        for k in pairs:
            c.nontriv("offer:" + k)
        n = walkerlib.coq_compare(c, obs, tag, "C01") if inst_ok else 0
        c.coverage["model_vs_impl_walks"] = c.coverage.get("model_vs_impl_walks", 0) + n
        c.coverage["nodes_walked"] = c.coverage.get("nodes_walked", 0) + sum(o["nodes"] for o in obs if o["k"] == "file" and not o.get("err"))
        c.coverage["kind_field_pairs_with_tagged_child"] = len(pairs)

    def rules(nsets, size, tag, seed, nextra):
        rng = c.rng(23 + seed)
        extra = sorted(glob.glob(os.path.join(c.repo, "analyzer", "testdata", "src", "*", "*.go")))
        extra = [f for f in extra if os.path.getsize(f) < 6000 and "import \"C\"" not in open(f, errors="replace").read()]
        rng.shuffle(extra)
        rc, out = c.run_harness(hb, ["-mode", "rules", "-gen", str(nsets), "-size", str(size), "-seed", str(seed), "-variants", "1",
                                     "-files", ",".join(extra[:nextra]), "-tmp", os.path.join(c.work, "tmp")], timeout=900)
        sets = []
        for line in out.splitlines():
            line = line.strip()
            if not line.startswith("{"):
                continue
            o = json.loads(line)
            if o["k"] == "catalogue":
                c.coverage["usable_pattern_templates"] = o["nodes"]
                for sk in o.get("skipped") or []:
                    if "load panics" in sk:
                        # gogrep compiles the pattern, so the rule set {this rule} must load and be dispatched
                        c.fail("oracle", "Load panics on a rule whose pattern gogrep compiles: " + sk,
                               input={"rules": "m.Match(`%s`).Report(`one`)" % sk.split(": load panics")[0]},
                               expected="the rule loads and its matches are reported", observed=sk)
                if o["nodes"] < 60:
                    c.obligation("harness:pattern-catalogue", False, "only %d pattern templates load: %s" % (o["nodes"], o.get("skipped")))
                continue
            if o.get("err"):
                if o["err"].startswith("target: Load #"):
                    # a file that re-declares a loaded group (or does not parse / type-check / has a rejected pattern) loaded
                    c.fail("oracle", "a Load call that must be rejected was accepted: " + o["err"][len("target: "):],
                           input={"rules_files": o.get("files"), "load_order": o.get("order"), "loaded_via": o.get("via"),
                                  "load_calls": [(ld["name"], ld.get("fail") or "accepted") for ld in (o.get("load_calls") or [])]},
                           expected="Load returns an error and the engine keeps the rules it had", observed=o["err"])
                elif o["err"].startswith("target:"):
                    c.obligation("harness-run:rules-target", False, o["err"])
                else:
                    # every catalogue pattern loads on its own, so a rule set built from them must load
                    c.fail("oracle", "a rule set of individually loadable rules does not load: " + o["err"],
                           input={"rules_files": o.get("files"), "order": o.get("order")}, expected="loads", observed=o["err"])
                continue
            sets.append(o)
            c.count(max(len(o.get("engine") or []), 1))
            for p in o.get("pairs") or []:
                c.nontriv("match:" + p)
            if o.get("contested"):
                c.nontriv("contested:%s:%d" % (tag, o["set"]))
            if o.get("loads") and o.get("engine"):
                c.nontriv("load-history:" + "|".join(o["loads"]) + ":bundles=%d" % sum(o.get("parts") or []))
                c.nontriv("load-via:" + "|".join(o.get("via") or []))
            rejected = [ld for ld in (o.get("load_calls") or []) if ld.get("fail")]
            if rejected:
                c.coverage["histories_with_rejected_loads"] = c.coverage.get("histories_with_rejected_loads", 0) + 1
                if o.get("ghost_hits"):
                    c.coverage["histories_whose_rejected_rules_match_the_target"] = c.coverage.get("histories_whose_rejected_rules_match_the_target", 0) + 1
                    calls = o.get("load_calls") or []
                    for li, ld in enumerate(calls):
                        if ld.get("fail"):
                            c.nontriv("rejected-load:%s:%s:via-%s" % (ld["fail"], "first" if li == 0 else ("last" if li == len(calls) - 1 else "between"),
                                                                      (o.get("via") or ["?"] * len(calls))[li]))
            if o.get("nested_runs"):
                c.coverage["runs_started_from_report_callbacks"] = c.coverage.get("runs_started_from_report_callbacks", 0) + o["nested_runs"]
                re_ = o.get("reentrant") or ""
                c.nontriv("reentrant:depth=%d:goroutine=%s:same-file=%s" % (max(len(l) - len(l.lstrip()) for l in re_.splitlines()) // 4,
                                                                            "goroutine" in re_, re_.count(o["target"]) > 1))
            if o.get("parallel_runs"):
                c.coverage["runs_in_progress_at_the_same_time"] = c.coverage.get("runs_in_progress_at_the_same_time", 0) + o["parallel_runs"]
            if o.get("theme") == "imports" and o.get("engine"):
                c.coverage["sets_with_leaf_rules_matching_inside_import_declarations"] = c.coverage.get("sets_with_leaf_rules_matching_inside_import_declarations", 0) + 1
            if o.get("theme") == "deep" and len(o.get("engine") or []) >= 4:
                c.coverage["sets_run_on_the_deeply_nested_target"] = c.coverage.get("sets_run_on_the_deeply_nested_target", 0) + 1
            if o.get("last_lean"):
                c.coverage["histories_whose_last_load_adds_no_syntax_rule"] = c.coverage.get("histories_whose_last_load_adds_no_syntax_rule", 0) + 1
            if sum(o.get("parts") or []):
                c.coverage["histories_with_bundle_imports"] = c.coverage.get("histories_with_bundle_imports", 0) + 1
            if o.get("mismatch"):
                c.fail("oracle", "Engine.Run reports differ from ast.Inspect x MatchNode, first accepting rule wins: " + o["mismatch"],
                       input={"rules_files": o.get("files"), "load_order": o.get("order"), "target": o.get("src"), "seed": seed, "set": o["set"],
                              "group_filter": "groups named *_off are disabled", "bundles": "harness/fake/wb1..wb4 (imported with the prefix shown in the file)",
                              "load_history": o.get("loads"), "loaded_via": o.get("via"),
                              "load_calls": [(ld["name"], "rejected (%s): %s" % (ld["fail"], ld.get("err")) if ld.get("fail") else "accepted") for ld in (o.get("load_calls") or [])],
                              "runs_started_from_report_callbacks": o.get("reentrant"), "other_targets": o.get("others")},
                       expected=[(r["r"], r["p"], r["e"]) for r in (o.get("oracle") or [])][:40],
                       observed=[(r["r"], r["p"], r["e"]) for r in (o.get("engine") or [])][:40])
            elif len(c.samples) < 4 and o.get("engine"):
                c.sample({"target": o["target"], "rules": [(r["group"], r["src"], r["filter"]) for r in (o.get("rules") or [])][:6],
                          "reports": len(o["engine"]), "contested_nodes": o.get("contested")})
        if rc != 0 or not sets:
            c.obligation("harness-run:rules", False, out[-2000:])
        if not c.coverage.get("histories_whose_rejected_rules_match_the_target") or not c.coverage.get("runs_started_from_report_callbacks"):
            c.obligation("harness-run:rules-rejected-loads-and-reentrancy", False, "no history with a rejected Load whose rules match the target / no run "
                         "started from a Report callback: %s" % {k: v for k, v in c.coverage.items() if "rejected" in k or "callbacks" in k})
        if c.coverage.get("sets_with_leaf_rules_matching_inside_import_declarations", 0) < 4:
            c.obligation("harness-run:rules-import-leaf-sets", False, "the targeted sets of identifier / literal rules over the import declarations "
                         "(with and without declaration-rooted rules next to them) did not all run and report")
        if c.coverage.get("sets_run_on_the_deeply_nested_target", 0) < 3:
            c.obligation("harness-run:rules-deep-target-sets", False, "the targeted sets over the deeply nested target (leaves at the bottom of "
                         "the nests, level nodes) did not all run and report")
        c.coverage["rule_sets_run"] = c.coverage.get("rule_sets_run", 0) + len(sets)
        # K: the Coq model of load + dispatch on the oracle's matcher table vs. the engine's reports
        if not inst_ok:
            return
        kinds, fields = walkerlib.name_tables(c)
        kidx = {n: i for i, n in enumerate(kinds)}
        fidx = {n: i for i, n in enumerate(fields)}
        todo = [o for o in sets if o.get("tree") and not o.get("mismatch")]
        nshards = min(12, max(1, len(todo)))
        jobs, meta = [], []
        for si in range(nshards):
            sh = todo[si::nshards]
            if not sh:
                continue
            src = [walkerlib.PRE, "From RG.Engine Require Import Dispatch.\nFrom RGW Require Import Inst_Dispatch."]
            trees = {}
            names = []
            entries = []
            for gi, o in enumerate(sh):
                if o["target"] not in trees:
                    trees[o["target"]] = "T%d" % len(trees)
                    t = re.sub(r"K<(\w+)>", lambda m: str(kidx.get(m.group(1), 9999)), o["tree"])
                    t = re.sub(r"F<(\w+|\?)>", lambda m: str(fidx.get(m.group(1), 9999)), t)
                    src.append("Definition %s : node := %s." % (trees[o["target"]], t))
                # the load history: per Load call -- loader ok?, the groups it declares, the file's own (syntax rules, comment
                # rules), then each imported bundle file's; the rules of a rejected file are there too (what the model does
                # with them is decided by the merge mode read from source)
                fl = []
                calls = o.get("load_calls") or [{"groups": []} for _ in (o.get("parts") or [0])]
                gid = {}
                for ld in calls:
                    for g in ld.get("groups") or []:
                        gid.setdefault(g, len(gid))
                for li, nparts in enumerate(o.get("parts") or [0]):
                    ld = calls[li] if li < len(calls) else {"groups": []}
                    pool_ = (o.get("ghosts") or []) if ld.get("fail") else (o.get("rules") or [])
                    def part(pi):
                        rs_ = [r for r in pool_ if r.get("load", 0) == li and r.get("part", 0) == pi]
                        return ("[%s]" % "; ".join("R %d %d" % (r["idx"], r["tag"]) for r in rs_ if not r.get("comment")),
                                "[%s]" % "; ".join(str(r["idx"]) for r in rs_ if r.get("comment")))
                    own = part(0)
                    loader_ok = ld.get("fail") not in ("parse", "badpattern", "undefined")
                    fl.append("(%s, [%s], (%s, %s, [%s]))" % ("true" if loader_ok else "false", "; ".join(str(gid[g]) for g in ld.get("groups") or []),
                                                             own[0], own[1], "; ".join("(%s, %s)" % part(pi) for pi in range(1, nparts + 1))))
                rs = "; ".join(fl)
                acc = "; ".join("false" if ld.get("fail") else "true" for ld in calls[:len(o.get("parts") or [0])])
                iscomment = {r["idx"]: bool(r.get("comment")) for r in (o.get("rules") or [])}
                mt = "; ".join("(%d, %d, [%s])" % (e["n"], e["r"], "; ".join("(%d, %d, %s)" % (cb[0], cb[1], "true" if cb[2] else "false") for cb in e["c"]))
                               for e in (o.get("m") or []))
                eng = "; ".join("(%d, %d, %d)" % (r["r"], r["p"], r["e"]) for r in (o.get("engine") or []) if not iscomment.get(r["r"]))
                src.append("Definition X%d := check_run %s [%s] [%s] [%s] [%s]." % (gi, trees[o["target"]], rs, acc, mt, eng))
                names.append("X%d" % gi)
                entries.append((o, "run"))
                if o.get("schedule"):
                    src.append("Definition P%d := check_plan [%s] [%s]." % (gi, "; ".join("(%d, %d, %d)" % tuple(st) for st in o["schedule"]),
                                                                             "; ".join("(%d, %d)" % tuple(rc_) for rc_ in o.get("run_counts") or [])))
                    names.append("P%d" % gi)
                    entries.append((o, "plan"))
            src.append("Definition RES := Eval vm_compute in [%s]." % "; ".join(names))
            src.append("Print RES.")
            jobs.append(("Runs_%s_%d.v" % (tag, si), "\n".join(src)))
            meta.append(entries)     # one result per X (run) and per P (log of a tree of overlapping runs)
        nk = 0
        for (fname, _), sh, (ok, out) in zip(jobs, meta, c.coq_eval_many(jobs, timeout=900)):
            if not ok:
                c.obligation("coq-eval:" + fname, False, out[-2000:])
                continue
            m = re.search(r"RES\s*=\s*\[(.*?)\]\s*:\s", out, re.S)
            pairs = re.findall(r"\(\s*(\d+)\s*,\s*(\d+)\s*\)", m.group(1)) if m else []
            if len(pairs) != len(sh):
                c.obligation("coq-eval-parse:" + fname, False, out[-2000:])
                continue
            for (o, what), (code, idx) in zip(sh, pairs):
                nk += 1
                if what == "plan":
                    c.coverage["model_vs_impl_overlapping_run_trees"] = c.coverage.get("model_vs_impl_overlapping_run_trees", 0) + 1
                    if int(code) == 1:
                        c.obligation("harness:reentrant-schedule-exclusive:%s:%d" % (tag, o["set"]), False,
                                     "the harness used a RunnerState for two overlapping runs: " + (o.get("reentrant") or ""))
                    elif int(code) != 0:
                        c.fail("corr", "model of overlapping runs (every run delivers its own reports) and the engine differ in the number of reports per run",
                               input={"set": o["set"], "target": o["target"], "runs": o.get("reentrant")}, observed=o.get("run_counts"))
                    continue
                if int(code) != 0:
                    c.fail("corr", "model of load history + dispatch (on the oracle's matcher table) and Engine.Run differ" +
                           (" at syntax report #%s" % idx if int(code) == 2 else
                            (": the engine accepted / rejected another set of Load calls than the model, first at call #%s" % idx if int(code) == 3 else ": the model has no result")),
                           input={"set": o["set"], "target": o["target"], "rules": [(r["group"], r["line"], r["src"], r["filter"]) for r in (o.get("rules") or [])]},
                           observed=(o["engine"][int(idx)] if int(idx) < len(o.get("engine") or []) else None))
        c.coverage["model_vs_impl_runs"] = c.coverage.get("model_vs_impl_runs", 0) + nk

    if thorough:
        events(20, 40, 20, 60, "main", c.seed)
        rules(600, 25, "main", c.seed, 8)
    else:
        events(4, 6, 4, 40, "main", c.seed)
        rules(110, 14, "main", c.seed, 3)

    def search():
        events(8, 12, 8, 60, "search", c.seed + 101)
        rules(400, 20, "search", c.seed + 101, 6)

    c.coverage["exhaustive"] = False
    c.finish(search=search)
