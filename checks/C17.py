"""C17 -- Where() connectives and comparisons form the expected algebra.

P: the dispatch tables of irconv / ir_loader (token -> op, op -> token, flags, operand swap, lhs op -> closure) and
   the three combinator closures of filters.go are regenerated from /repo (go2coq filtertables); coq/tmpl/C17 re-proves
   that the closures are Go's !, &&, || with short circuit and that the tables satisfy the finite obligations under
   which the theorems of RG.Filters.FilterAlgebra hold for ALL filter trees.
K: random filter trees (depth <= 5) are loaded into the real engine; irconv's IR is compared with the model's
   `convert`, and the per-site verdicts with the model's `eval` applied to facts computed with go/types and to the
   measured verdicts of the atomic predicates (vm_compute inside coqc).
O: laws checked directly on observed report sets (complement, intersection, union, De Morgan, double negation,
   short circuit against a panicking right operand, ==/!= operand swap, x<c vs !(x>=c)) and every comparison against
   the Go operator applied to the go/types / source-text value. Shared-spelling families: several groups of one engine
   spell the same Where() text over named constants of different values; each group must mean the Go operators on ITS
   constants, and loading the groups together must equal loading each alone (a filter is a function of its expression,
   not of its source text or of what was loaded before). P also covers that: go2coq lists every irLoader field /
   package-level variable newFilter's call graph touches; nothing may be written, only configuration read.
"""
import json
import os
import re

from vlib import coq_bool
from filtlib import build_own_theories


def cz(n):
    return "(%d)%%Z" % int(n)


def cstr(s):
    for ch in s:
        if (ord(ch) < 32 and ch not in "\n\t") or ord(ch) > 126:
            raise ValueError("non printable in %r" % s)
    return '"' + s.replace('"', '""') + '"'


def copt(x, f=cz):
    return "None" if x is None else "(Some %s)" % f(x)


GO_OPS = {
    "EQL": lambda a, b: a == b, "NEQ": lambda a, b: a != b, "LSS": lambda a, b: a < b,
    "LEQ": lambda a, b: a <= b, "GTR": lambda a, b: a > b, "GEQ": lambda a, b: a >= b,
}
MIRROR = {"LSS": "GTR", "GTR": "LSS", "LEQ": "GEQ", "GEQ": "LEQ", "EQL": "EQL", "NEQ": "NEQ"}
KINDS = ["Line", "Type.Size", "Value.Int()", "Text"]
DETACHED = {"mem": "exists in memory only (no file at the path the FileSet names)",
            "stale": "the file on disk is an older, shorter version of the analysed source"}


def value_of(site, kind, var):
    """The underlying value of `kind` for capture var at a site, from the go/types facts; None = unknown."""
    if var == "$$":
        var = "m"
    if kind == 0:
        return site["line_" + var]
    if kind == 1:
        return site[var]["size"]
    if kind == 2:
        v = site[var]["int"]
        return None if v is None else int(v)
    return site["text_" + var].encode()


def run(c):
    thorough = c.tier == "thorough"
    c.go2coq_sources = ["filters.go", "filters_types.go", "filters_state.go", "filters_helpers.go"]   # private translator build: another family's generator cannot break this check
    c.rule = ("random Where() trees (depth<=5) over 12 atomic predicates (one of them a custom filter that panics) and "
              "comparisons of Line/Type.Size/Value.Int()/Text against constants (either side) and other captures, each "
              "run on 74 probe sites (42 in a file on disk, 16 non-gofmt ones in a file that exists in memory only and is analysed with 32-bit sizes, "
              "the same 16 in a file whose saved version is older and shorter); constants in every literal spelling / folded form; a case is distinct by its DSL text, non-trivial when it accepts some and "
              "rejects some site, panics, or is refused at load; law families relate 10 rules over the same operands; "
              "shared-spelling families: 6 groups in one engine (one or two rules files) whose Where() text is identical "
              "over named constants (function-local, file-level shadowed by some groups, literals in every spelling inside an equally "
              "named group-local macro, or arguments of such a macro) with different values per group -- one family per kind of constant-carrying filter "
              "(Line/Type.Size/Value.Int()/Text either side, list captures, regexps, type strings, kinds, node tags, "
              "Contains patterns) plus random trees; non-trivial when the groups' values differ")
    c.trusted += [
        "go2coq filtertables (reads the switch statements / closures by AST shape, refuses unknown shapes)",
        "go/constant.Compare, go/types (Sizeof, constant values), token.FileSet line numbers, source text of a node",
        "a rejection result carries a non-empty source text (matchFilterResult is modelled by its Matched() bit)",
        "harness/cmd/c17, harness/internal/filt (rule rendering, site attribution by position)",
        "atomic predicates other than comparisons enter the model as measured verdict vectors (their meaning is C02)",
    ]
    c.notes += ["gogrep delivers the captures; Go type checking of the rules file precedes irconv (ill-typed comparisons never reach it)"]

    build_own_theories(c, "Base/Outcome.v", "Filters/FilterIR.v", "Filters/FilterAlgebra.v", "Filters/LoaderState.v", "Filters/ValueSources.v", "Filters/FilterChains.v")
    c.require_theories("Base/Outcome.v", "Filters/FilterIR.v", "Filters/FilterAlgebra.v", "Filters/LoaderState.v", "Filters/ValueSources.v", "Filters/FilterChains.v")

    # ---- P
    gen_ok = False
    if c.go2coq("filtertables", "Gen_FilterTables.v"):
        gen_ok = c.coq_compile(["Gen_FilterTables.v"])
        if gen_ok:
            c.install_tmpl("C17/Inst_C17.v", "C17/C17.v")
            c.coq_compile(["Inst_C17.v", "C17.v"])

    hb = c.build_harness("c17")
    if hb is None:
        return c.finish()

    state = {"round": 0}

    def observe_and_compare(ntrees, nfam, seed, nshared=8):
        state["round"] += 1
        tag = "r%d" % state["round"]
        rc, out = c.run_harness(hb, ["-seed", str(seed), "-trees", str(ntrees), "-families", str(nfam), "-shared", str(nshared),
                                     "-tmp", os.path.join(c.work, "tmp")], timeout=1200)
        sites, rules, meta, files = {}, [], None, []
        for line in out.splitlines():
            if not line.startswith("{"):
                continue
            o = json.loads(line)
            if o["k"] == "file":
                files.append(o)
            elif o["k"] == "site":
                sites[(o["i"], o["j"])] = o
            elif o["k"] == "rule":
                rules.append(o)
            elif o["k"] == "meta":
                meta = o
        if rc != 0 or meta is None:
            c.obligation("harness-run:c17", False, out[-3000:])
            return
        N = meta["sites"]
        atoms = [r for r in rules if r["family"] == "atom"]
        panic_atoms = set(meta.get("panic_atoms") or [])
        partial_atoms = {int(k): v for k, v in (meta.get("partial_atoms") or {}).items()}   # defined behind a guard only
        c.coverage["sites"] = N
        c.coverage["rules_" + tag] = len(rules)

        def inp(r, extra=None):
            d = {"where": r["src"], "pattern": "p%d($x, $y, $*zs)" % r["j"], "seed": seed}
            if r.get("values"):
                d["group_locals"] = r.get("locals", "")
                d["file_level_constants"] = r.get("file_consts", "")
                d["constants"] = r["values"]
            if extra:
                d.update(extra)
            return d

        def site_desc(i, j):
            s = sites[(i, j)]
            d = {"site": i, "x": s["text_x"], "y": s["text_y"], "line_x": s["line_x"], "line_y": s["line_y"]}
            if s["target"] != "disk":
                # x / y: the captures' Text as the engine reports it in a message; the file is not (fully) readable from disk
                d.update({"file": DETACHED[s["target"]], "x_as_written": s["src_x"], "y_as_written": s["src_y"]})
            return d

        # ---------------------------------------------------------------- atoms: sanity of the measurement
        for a in atoms:
            ai = int(a["role"])
            if ai in panic_atoms:
                if not a.get("panic") or a["accept"]:
                    c.obligation("harness-sanity:panicking-atom", False, "the panicking custom filter did not panic: %r" % a)
            elif a.get("panic") or a.get("load_err"):
                c.fail("oracle", "a documented predicate panics or fails to load on its own", input=inp(a),
                       observed=a.get("panic") or a.get("load_err"), expected="a verdict for every site")

        # ---------------------------------------------------------------- O: laws on observed report sets
        def acc(r):
            return set(r["accept"])

        allsites = set(range(N))
        fams = {}
        for r in rules:
            fams.setdefault(r["family"], {})[r["role"]] = r
            c.count()
            if r.get("load_err"):
                c.nontriv(("load-error", r["src"]))
            elif r.get("panic"):
                c.nontriv(("panic", r["src"]))
            elif 0 < len(r["accept"]) < N:
                c.nontriv(("mixed-verdicts", r["src"]))

        def clean(r):
            return not r.get("load_err") and not r.get("panic")

        # ---------------------------------------------------------------- O: every generated filter against the check's own evaluator
        atom_acc_all = {int(a["role"]): set(a["accept"]) for a in atoms}

        class Boom(Exception):
            pass

        def ev_tree(t, i, j):
            """Go's meaning of the filter at site i of column j: !, && and || with short circuit over the go/types facts (comparisons)
            and the separately measured verdicts of the other predicates; a predicate that panics when consulted raises."""
            k = t["k"]
            if k == "not":
                return not ev_tree(t["x"], i, j)
            if k == "and":
                return ev_tree(t["x"], i, j) and ev_tree(t["y"], i, j)
            if k == "or":
                return ev_tree(t["x"], i, j) or ev_tree(t["y"], i, j)
            if k == "atom":
                if t["atom"] in partial_atoms:
                    defined, value = partial_atoms[t["atom"]]
                    if i not in atom_acc_all[defined]:
                        raise Boom()
                    return i in atom_acc_all[value]
                if t["atom"] in panic_atoms:
                    raise Boom()
                return i in atom_acc_all[t["atom"]]
            site = sites[(i, j)]
            if k == "cmp2":
                va, vb = value_of(site, t["kind"], t["var"]), value_of(site, t["kind2"], t["var2"])
                return va is not None and vb is not None and GO_OPS[t["tok"]](va, vb)
            const = t["int"] if t.get("int") is not None else t["str"].encode()
            if t["var"] == "zs":
                vs = [(v["size"] if t["kind"] == 1 else (None if v["int"] is None else int(v["int"]))) for v in site["rest"]]
                return all(v is not None and GO_OPS[t["tok"]](v, const) for v in vs)
            v = value_of(site, t["kind"], t["var"])
            return v is not None and GO_OPS[t["tok"]](v, const)

        def predict(r):
            """what one engine run over the sites, in order, delivers: the accepted sites before the first panic"""
            out = []
            for i in range(N):
                try:
                    if ev_tree(r["tree"], i, r["j"]):
                        out.append(i)
                except Boom:
                    return out, True, i
            return out, False, N

        def operands(t, conn):
            if t["k"] == conn:
                return operands(t["x"], conn) + operands(t["y"], conn)
            return [t]

        for r in rules:
            if not r.get("tree") or r["family"].startswith("shared") or r["role"] == "mixed":
                continue
            if r.get("load_err"):
                if r["family"] == "tree" or r["family"].startswith("chain") or r["family"].startswith("filelead"):
                    c.fail("oracle", "a filter built from documented predicates, comparisons and connectives is refused at load",
                           input=inp(r), observed=r["load_err"])
                continue
            e_acc, e_panic, e_seen = predict(r)
            if r["accept"] != e_acc or bool(r.get("panic")) != e_panic:
                bad = sorted(set(r["accept"]) ^ set(e_acc))[:3]
                what = "a filter tree does not mean Go's !, && and || (left to right, short circuit) over its comparisons and predicates"
                extra = {"sites": [site_desc(i, r["j"]) for i in bad]}
                if r["family"].startswith("chain") and r["tree"]["k"] in ("and", "or"):
                    conn = r["tree"]["k"]
                    what = ("F || G || H is not the union of what its operands accept" if conn == "or" else "F && G && H is not the intersection of what its operands accept") + \
                           " (a chain of look-alike operands over different captures)"
                    ops = operands(r["tree"], conn)
                    if bad and not e_panic:
                        try:
                            extra["operand_verdicts_at_first_site"] = [ev_tree(o, bad[0], r["j"]) for o in ops]
                        except Boom:
                            pass
                c.fail("oracle", what, input=inp(r, extra), expected={"accept": e_acc, "panic": e_panic},
                       observed={"accept": r["accept"], "panic": r.get("panic") or None})
            # the same engine run while a group is being debugged: RunContext.Debug only adds output
            for d in r.get("dbg") or []:
                if d["accept"] != r["accept"] or bool(d.get("panic")) != bool(r.get("panic")):
                    c.fail("oracle", "setting RunContext.Debug (%s) changes what a filter accepts or which operands it consults "
                           "(a right operand must not be consulted when the left one decides)" % (
                               {"own": "to the rule's own group", "other": "to another group of the engine", "none-of-the-engine": "to a group the engine does not have"}[d["debug"]]),
                           input=inp(r, {"RunContext.Debug": d["group"], "group": "g%d" % r["idx"]}),
                           expected={"accept": r["accept"], "panic": r.get("panic") or None}, observed={"accept": d["accept"], "panic": d.get("panic") or None})
                    continue
                c.coverage["debug_mode_runs"] = c.coverage.get("debug_mode_runs", 0) + 1
                if d["debug"] == "own" and d.get("panic") and r["accept"] == e_acc and e_panic:
                    # the run ends at the first match on which a panicking predicate is consulted: every match before it was
                    # accepted or explained as rejected
                    if d["rejects"] != e_seen - len(e_acc):
                        c.fail("oracle", "debugging a group: a predicate that panics when consulted is consulted on another match than Go's "
                               "left-to-right short-circuit evaluation of the filter consults it on",
                               input=inp(r, {"RunContext.Debug": d["group"], "sites": [site_desc(i, r["j"]) for i in sorted({min(d["rejects"] + len(e_acc), N - 1), min(e_seen, N - 1)})]}),
                               expected={"matches rejected before the panic": e_seen - len(e_acc)}, observed={"matches rejected before the panic": d["rejects"], "panic": d["panic"]})
                if d["debug"] == "own" and not d.get("panic"):
                    # one "rejected by <reason>" line per rejected match, and the reason is a part of the filter as written
                    if d["rejects"] != N - len(d["accept"]):
                        c.fail("oracle", "debugging a group: the number of explained rejections differs from the number of rejected matches",
                               input=inp(r, {"RunContext.Debug": d["group"]}), expected=N - len(d["accept"]), observed=d["rejects"])
                    for reason in d.get("reasons") or []:
                        if "".join(reason.split()) not in "".join(r["src"].split()):      # (the engine prints the operand with go/printer's spacing)
                            c.fail("oracle", "debugging a group: a reject reason is not a part of the filter", input=inp(r, {"RunContext.Debug": d["group"]}), observed=reason)
        c.coverage["chain_rules_" + tag] = len([r for r in rules if r["family"].startswith("chain")])
        # ---- file-level operands first (families filelead*, and whatever the random trees drew): the leftmost operand is a predicate
        # about the file / the Go version, an `||` stands above it, and some match of a file in which the operand is false must be
        # accepted -- the inputs on which "decide per file from the first operand" goes wrong
        def leftmost(t, ors=0):
            while t["k"] in ("and", "or", "not"):
                ors += t["k"] == "or"
                t = t["x"]
            return t, ors
        file_atoms = {int(a["role"]) for a in atoms if ".File()." in a["src"] or ".GoVersion()." in a["src"]}
        lead = {"filelead": 0, "tree": 0}
        lead_atoms = set()
        for r in rules:
            if not r.get("tree") or r.get("load_err") or not (r["family"].startswith("filelead") or r["family"] == "tree"):
                continue
            t, ors = leftmost(r["tree"])
            if t["k"] == "atom" and t["atom"] in file_atoms and ors and r["tree"]["k"] != "not":
                e_acc, e_panic, _ = predict(r)
                if not e_panic and any(i not in atom_acc_all[t["atom"]] for i in e_acc):
                    lead["filelead" if r["family"].startswith("filelead") else "tree"] += 1
                    lead_atoms.add(t["atom"])
        c.coverage["file_level_operand_first_under_or_" + tag] = dict(lead, atoms=len(lead_atoms), file_level_atoms=len(file_atoms))
        if lead["filelead"] < 20 or len(lead_atoms) < 4 or len(file_atoms) < 6:
            c.obligation("harness-sanity:file-level-operand-first", False,
                         "filters whose leftmost operand is a file-level predicate under `||`, false in a file that has accepted matches: %r" % (c.coverage["file_level_operand_first_under_or_" + tag],))

        for fam, m in fams.items():
            if fam.startswith("conn"):
                F, G = m["F"], m["G"]
                if not (clean(F) and clean(G)):
                    for r in (F, G):
                        if not clean(r):
                            c.fail("oracle", "a panic-free filter tree panics or is refused", input=inp(r),
                                   observed=r.get("panic") or r.get("load_err"))
                    continue
                exp = {
                    "notF": allsites - acc(F), "and": acc(F) & acc(G), "or": acc(F) | acc(G),
                    "not_and": allsites - (acc(F) & acc(G)), "or_not": (allsites - acc(F)) | (allsites - acc(G)),
                    "notnotF": acc(F),
                }
                what = {"notF": "!F does not report exactly the matches F rejects", "and": "F && G is not the intersection",
                        "or": "F || G is not the union", "not_and": "!(F && G) is not the complement of the intersection",
                        "or_not": "!F || !G differs from !(F && G)", "notnotF": "!!F differs from F"}
                for role, e in exp.items():
                    r = m[role]
                    if not clean(r) or acc(r) != e:
                        bad = sorted(acc(r) ^ e)[:3]
                        c.fail("oracle", what[role], input=inp(r, {"F": F["src"], "G": G["src"], "sites": [site_desc(i, r["j"]) for i in bad]}),
                               expected=sorted(e), observed=r.get("panic") or r.get("load_err") or sorted(acc(r)))
                # short circuit against a right operand that panics whenever it is consulted; sites are visited in order
                order = list(range(N))
                ab = m["and_boom"]
                first_acc = next((i for i in order if i in acc(F)), None)
                exp_panic = first_acc is not None
                if ab.get("load_err") or bool(ab.get("panic")) != exp_panic or ab["accept"]:
                    c.fail("oracle", "F && G consults G where F rejects, or not where F accepts (G panics when consulted)",
                           input=inp(ab, {"F": F["src"]}), expected={"panic": exp_panic, "accept": []},
                           observed={"panic": ab.get("panic"), "accept": ab["accept"], "load_err": ab.get("load_err")})
                ob = m["or_boom"]
                first_rej = next((i for i in order if i not in acc(F)), None)
                exp_acc = [i for i in order if first_rej is None or i < first_rej]
                if ob.get("load_err") or bool(ob.get("panic")) != (first_rej is not None) or ob["accept"] != exp_acc:
                    c.fail("oracle", "F || G consults G where F accepts, or not where F rejects (G panics when consulted)",
                           input=inp(ob, {"F": F["src"]}), expected={"panic": first_rej is not None, "accept": exp_acc},
                           observed={"panic": ob.get("panic"), "accept": ob["accept"], "load_err": ob.get("load_err")})
            elif fam.startswith("cmp"):
                ci = m["vEQL"]["cmp"]
                kind, var = ci["kind"], ci["var"]
                const = ci["int"] if "int" in ci and ci["int"] is not None else ci["str"].encode()
                for tok in GO_OPS:
                    r = m["v" + tok]
                    j = r["j"]
                    e = set()
                    for i in range(N):
                        v = value_of(sites[(i, j)], kind, var)
                        if v is not None and GO_OPS[tok](v, const):
                            e.add(i)
                    if not clean(r) or acc(r) != e:
                        bad = sorted(acc(r) ^ e)[:3] if clean(r) else []
                        c.fail("oracle", "comparison differs from the Go operator on the %s value" % KINDS[kind],
                               input=inp(r, {"sites": [dict(site_desc(i, j), value=repr(value_of(sites[(i, j)], kind, var))) for i in bad]}),
                               expected=sorted(e), observed=r.get("panic") or r.get("load_err") or sorted(acc(r)))
                    rw = m["w" + tok]
                    ew = set()
                    for i in range(N):
                        va, vb = value_of(sites[(i, rw["j"])], kind, "x"), value_of(sites[(i, rw["j"])], kind, "y")
                        if va is not None and vb is not None and GO_OPS[tok](va, vb):
                            ew.add(i)
                    if not clean(rw) or acc(rw) != ew:
                        bad = sorted(acc(rw) ^ ew)[:3] if clean(rw) else []
                        c.fail("oracle", "comparison of two captures differs from the Go operator on their %s values" % KINDS[kind],
                               input=inp(rw, {"sites": [site_desc(i, rw["j"]) for i in bad]}),
                               expected=sorted(ew), observed=rw.get("panic") or rw.get("load_err") or sorted(acc(rw)))
                    rc_ = m["c" + tok]
                    if tok in ("EQL", "NEQ"):
                        if not clean(rc_) or not clean(r) or acc(rc_) != acc(r):
                            c.fail("oracle", "%s depends on which side the constant is written" % ("==" if tok == "EQL" else "!="),
                                   input=inp(rc_, {"mirror": r["src"]}), expected=sorted(acc(r)),
                                   observed=rc_.get("panic") or rc_.get("load_err") or sorted(acc(rc_)))
                    else:
                        # refused at load today; if it ever loads it must mean the mirrored operator
                        if rc_.get("panic"):
                            c.fail("oracle", "constant-on-the-left ordering panics", input=inp(rc_), observed=rc_["panic"])
                        elif not rc_.get("load_err"):
                            mr = m["v" + MIRROR[tok]]
                            if acc(rc_) != acc(mr):
                                c.fail("oracle", "`c %s x` is accepted but does not mean `x %s c`" % (tok, MIRROR[tok]),
                                       input=inp(rc_), expected=sorted(acc(mr)), observed=sorted(acc(rc_)))
                # x < c  vs  !(x >= c) where the value is known; both reject where it is unknown
                for lo, neg, hi in (("LSS", "notGEQ", "GEQ"), ("GTR", "notLEQ", "LEQ"), ("NEQ", "notEQL", "EQL")):
                    a, b, pos = m["v" + lo], m[neg], m["v" + hi]
                    if not (clean(a) and clean(b) and clean(pos)):
                        continue
                    for i in range(N):
                        known = value_of(sites[(i, a["j"])], kind, var) is not None
                        ina, inb, inp_ = i in acc(a), i in acc(b), i in acc(pos)
                        if known and ina != inb:
                            c.fail("oracle", "`x %s c` disagrees with `!(x %s c)` on a known value" % (lo, hi),
                                   input=inp(a, {"negated": b["src"], "sites": [site_desc(i, a["j"])]}), expected=inb, observed=ina)
                            break
                        if not known and (ina or inp_ or not inb):
                            c.fail("oracle", "an unknown value does not reject both `x %s c` and `x %s c`" % (lo, hi),
                                   input=inp(a, {"sites": [site_desc(i, a["j"])]}), expected="both reject", observed={lo: ina, hi: inp_})
                            break
                if "mixed" in m:
                    r = m["mixed"]
                    if r.get("panic"):
                        c.fail("oracle", "comparison of two different kinds of values panics", input=inp(r), observed=r["panic"])
                    elif not r.get("load_err"):
                        j = r["j"]
                        e = set()
                        for i in range(N):
                            va = value_of(sites[(i, j)], kind, "x")
                            vb = value_of(sites[(i, j)], ci["other"], "y")
                            if va is not None and vb is not None and va == vb:
                                e.add(i)
                        if acc(r) != e:
                            bad = sorted(acc(r) ^ e)[:3]
                            c.fail("oracle", "`x.%s == y.%s` is accepted but is not the Go == on the two values" % (KINDS[kind], KINDS[ci["other"]]),
                                   input=inp(r, {"sites": [site_desc(i, j) for i in bad]}), expected=sorted(e), observed=sorted(acc(r)))
            elif fam.startswith("shared"):
                # groups of one engine whose filters are spelled identically over named constants with different values
                atom_acc = {int(a["role"]): set(a["accept"]) for a in atoms}

                def ev(t, i, j):
                    k = t["k"]
                    if k == "not":
                        return not ev(t["x"], i, j)
                    if k == "and":
                        return ev(t["x"], i, j) and ev(t["y"], i, j)
                    if k == "or":
                        return ev(t["x"], i, j) or ev(t["y"], i, j)
                    if k == "atom":
                        return i in atom_acc[t["atom"]]
                    const = t["int"] if t.get("int") is not None else t["str"].encode()
                    site = sites[(i, j)]
                    if t["var"] == "zs":
                        vs = [(v["size"] if t["kind"] == 1 else (None if v["int"] is None else int(v["int"]))) for v in site["rest"]]
                        return all(v is not None and GO_OPS[t["tok"]](v, const) for v in vs)
                    v = value_of(site, t["kind"], t["var"])
                    return v is not None and GO_OPS[t["tok"]](v, const)

                members = [m[k] for k in sorted(m, key=lambda k: int(k[1:]))]
                spell = {r["src"] for r in members}
                if len(spell) != 1 and not members[0].get("arg_macro"):
                    c.obligation("harness-sanity:shared-spelling", False, "members of %s are not spelled identically: %r" % (fam, sorted(spell)))
                if len({json.dumps(r["values"], sort_keys=True) for r in members}) > 1:
                    c.nontriv(("shared-spelling", fam, members[0]["src"]))
                others = lambda r: [{"group": "g%d" % o["idx"], "file": o["file_no"], "constants": o["values"]}
                                    for o in members if o is not r and not o.get("left_out")]
                for r in members:
                    j = r["j"]
                    al = r["alone"]
                    if r.get("left_out"):
                        # a literal of the macro body is spelled in a way the engine does not take (not a decimal number, not
                        # a plainly quoted string): refusing the group is fine, giving the literal another value is not
                        c.nontriv(("literal-spelling-refused", r["locals"]))
                        c.coverage["macro_literal_spellings_refused"] = c.coverage.get("macro_literal_spellings_refused", 0) + 1
                        continue
                    if r.get("may_refuse"):
                        c.coverage["macro_literal_spellings_loaded"] = c.coverage.get("macro_literal_spellings_loaded", 0) + 1
                    if not clean(r) or al.get("load_err") or al.get("panic"):
                        c.fail("oracle", "a panic-free filter over named constants panics or is refused", input=inp(r, {"loaded_with": others(r)}),
                               observed={"together": r.get("panic") or r.get("load_err"), "alone": al.get("panic") or al.get("load_err")})
                        continue
                    e = {i for i in range(N) if ev(r["tree"], i, j)}
                    if acc(r) != e:
                        bad = sorted(acc(r) ^ e)[:3]
                        c.fail("oracle", "a group's filter does not mean the Go operators applied to the constants the group declares "
                               "(other groups of the engine spell the same filter over other values)",
                               input=inp(r, {"loaded_with": others(r), "sites": [site_desc(i, j) for i in bad]}),
                               expected=sorted(e), observed=sorted(acc(r)))
                    if set(al["accept"]) != acc(r):
                        bad = sorted(acc(r) ^ set(al["accept"]))[:3]
                        c.fail("oracle", "loading a group together with other groups changes what its filter accepts",
                               input=inp(r, {"loaded_with": others(r), "sites": [site_desc(i, j) for i in bad]}),
                               expected={"alone": sorted(al["accept"])}, observed={"together": sorted(acc(r))})
                    elif set(al["accept"]) != e:
                        bad = sorted(set(al["accept"]) ^ e)[:3]
                        c.fail("oracle", "a group loaded alone does not mean the Go operators applied to the constants it declares",
                               input=inp(r, {"sites": [site_desc(i, j) for i in bad]}), expected=sorted(e), observed=sorted(al["accept"]))
        c.coverage["law_families_" + tag] = len([f for f in fams if f.startswith(("conn", "cmp"))])
        c.coverage["shared_spelling_families_" + tag] = len([f for f in fams if f.startswith("shared")])

        # ---------------------------------------------------------------- K: model vs implementation inside Coq
        if not gen_ok:
            return
        W = meta["w"]
        atomv = {}   # atom index -> verdict per site (None = panic)
        for a in atoms:
            ai = int(a["role"])
            if ai in partial_atoms:
                dset, vset = (set(x["accept"]) for x in (next(b for b in atoms if int(b["role"]) == k) for k in partial_atoms[ai]))
                atomv[ai] = [(i in vset) if i in dset else None for i in range(N)]
            elif ai in panic_atoms:
                atomv[ai] = [None] * N
            else:
                s = set(a["accept"])
                atomv[ai] = [i in s for i in range(N)]
        pre = ["From Coq Require Import List ZArith Bool String.",
               "From RG.Base Require Import Outcome.",
               "From RG.Filters Require Import FilterIR FilterAlgebra.",
               "From RGW Require Import Gen_FilterTables.",
               "Import ListNotations. Local Open Scope string_scope.",
               "Record sfacts := { lx : Z; ly : Z; lm : Z; sx : option Z; sy : option Z; ix : option Z; iy : option Z; tx : string; ty : string; tm : string;",
               "  rest : list (option Z * option Z) }.",
               "Definition atoms : list dexpr := [%s]." % "; ".join(a["coq"] for a in sorted(atoms, key=lambda a: int(a["role"]))),
               "Definition atom_keys : list (option lfilter) := map (compile gen_tables) atoms.",
               "Definition key_is (op : string) (v : fvalue) (args : list fexpr) (k : option lfilter) : bool :=",
               "  match k with Some (LAtom op' v' args') => fexpr_eqb (FE op v args) (FE op' v' args') | _ => false end.",
               "Fixpoint find_idx {A} (p : A -> bool) (l : list A) (n : nat) : option nat :=",
               "  match l with [] => None | a :: r => if p a then Some n else find_idx p r (S n) end.",
               "Definition one (o : option Z) : obs Z := match o with Some v => Known v | None => Unknown end.",
               "Definition env (s : sfacts) (av : list (option bool)) : menv := {|",
               "  m_int := fun k c x => match k with",
               "    | KLine => if String.eqb x \"x\" then Ok (Known (lx s)) else if String.eqb x \"y\" then Ok (Known (ly s))",
               "               else if String.eqb x \"$$\" then Ok (Known (lm s)) else Panic PFuel",
               "    | KSize => if String.eqb x \"x\" then Ok (one (sx s)) else if String.eqb x \"y\" then Ok (one (sy s))",
               "               else if c then Ok (Each (map fst (rest s))) else Panic PFuel",
               "    | KValueInt => if String.eqb x \"x\" then Ok (one (ix s)) else if String.eqb x \"y\" then Ok (one (iy s))",
               "               else if c then Ok (Each (map snd (rest s))) else Panic PFuel",
               "    | KText => Panic PFuel end;",
               "  m_str := fun c x => if String.eqb x \"x\" then Ok (Known (tx s)) else if String.eqb x \"y\" then Ok (Known (ty s))",
               "               else if String.eqb x \"$$\" then Ok (Known (tm s)) else Panic PFuel;",
               "  m_atom := fun op v args => match find_idx (key_is op v args) atom_keys 0 with",
               "    | Some n => match nth n av None with Some b => Ok b | None => Panic PExplicit end",
               "    | None => Panic PFuel end |}.",
               "(* what the model predicts one engine run over the sites, in order, delivers: accepted sites before the first panic *)",
               "Fixpoint predict (f : lfilter) (ss : list (sfacts * list (option bool))) (i : Z) : list Z * bool :=",
               "  match ss with [] => ([], false) | (s, av) :: r =>",
               "    match eval gen_combinators (env s av) f with",
               "    | Ok true => let (a, p) := predict f r (i + 1)%Z in (i :: a, p)",
               "    | Ok false => predict f r (i + 1)%Z",
               "    | Panic _ => ([], true) end end.",
               "Definition zlist_eqb (a b : list Z) : bool := (Nat.eqb (List.length a) (List.length b)) && forallb (fun p => Z.eqb (fst p) (snd p)) (combine a b).",
               "(* a case: index, dexpr, irconv's IR (None: conversion failed), site column, load error?, panicked?, accepted sites *)",
               "Definition ir_ok (d : dexpr) (ir : option fexpr) : bool :=",
               "  match convert gen_tables d, ir with Some a, Some b => fexpr_eqb a b | None, None => true | _, _ => false end.",
               "Definition verdict_ok (sites : list (list (sfacts * list (option bool)))) (d : dexpr) (j : nat) (lerr pan : bool) (acc : list Z) : bool :=",
               "  match compile gen_tables d with",
               "  | None => lerr",
               "  | Some f => negb lerr && (let (a, p) := predict f (nth j sites []) 0%Z in zlist_eqb a acc && Bool.eqb p pan)",
               "  end.",
               "Definition expected (sites : list (list (sfacts * list (option bool)))) (d : dexpr) (j : nat) : option (list Z * bool) :=",
               "  option_map (fun f => predict f (nth j sites []) 0%Z) (compile gen_tables d)."]

        def base(i):
            """everything about site i that does not depend on the probe column (all but the lines and the probe name)"""
            s = sites[(i, 0)]
            iv = lambda v: None if v["int"] is None else int(v["int"])
            rest = "[" + "; ".join("(%s, %s)" % (copt(v["size"]), copt(iv(v))) for v in s["rest"]) + "]"
            return ("Definition site_%d (a b c : Z) (pj : string) : sfacts := {| lx := a; ly := b; lm := c; sx := %s; sy := %s; ix := %s; iy := %s; "
                    "tx := %s; ty := %s; tm := pj ++ %s; rest := %s |}.") % (
                i, copt(s["x"]["size"]), copt(s["y"]["size"]), copt(iv(s["x"])), copt(iv(s["y"])),
                cstr(s["text_x"]), cstr(s["text_y"]), cstr(s["text_m"][2:]), rest)

        def sfacts(i, j):
            s, s0 = sites[(i, j)], sites[(i, 0)]
            pj = "p%d" % j
            same = all(s[k] == s0[k] for k in ("x", "y", "rest", "text_x", "text_y"))
            if not same or not s["text_m"].startswith(pj + "(") or s["text_m"][len(pj):] != s0["text_m"][2:]:
                raise ValueError("the facts of site %d differ between probe columns 0 and %d" % (i, j))
            return "site_%d %s %s %s %s" % (i, cz(s["line_x"]), cz(s["line_y"]), cz(s["line_m"]), cstr(pj))

        def avrow(i):
            return "[" + "; ".join("None" if atomv[a][i] is None else "Some " + coq_bool(atomv[a][i]) for a in sorted(atomv)) + "]"

        # the measured verdicts of the atomic predicates depend on the site shape only, not on the probe column
        texts = "\n".join(base(i) for i in range(N))
        sites_src = "\n".join(pre) + "\n" + texts + "\nDefinition site_facts : list (list sfacts) := [\n" + ";\n".join(
            "[" + ";\n ".join(sfacts(i, j) for i in range(N)) + "]" for j in range(W)) + "].\n" + \
            "Definition atom_verdicts : list (list (option bool)) := [\n" + ";\n".join(avrow(i) for i in range(N)) + "].\n" + \
            "Definition sites : list (list (sfacts * list (option bool))) := map (fun l => combine l atom_verdicts) site_facts.\n"
        ok, out = c.coq_eval("Sites_%s.v" % tag, sites_src, timeout=600)
        if not ok:
            c.obligation("coq-eval:Sites_%s.v" % tag, False, out[-2000:])
            return
        NSH = 14
        jobs = []
        for k in range(NSH):
            part = [r for r in rules if not r.get("left_out")][k::NSH]
            src = ["From Coq Require Import List ZArith Bool String.", "From RG.Base Require Import Outcome.",
                   "From RG.Filters Require Import FilterIR FilterAlgebra.", "From RGW Require Import Gen_FilterTables Sites_%s." % tag,
                   "Import ListNotations. Local Open Scope string_scope.",
                   "Definition cases : list (Z * dexpr * option fexpr * nat * bool * bool * list Z) := ["]
            src.append(";\n".join("(%s, %s, %s, %d%%nat, %s, %s, [%s])" % (
                cz(r["idx"]), r["coq"], ("(Some %s)" % r["ir"]) if r.get("ir") else "None", r["j"],
                coq_bool(bool(r.get("load_err"))), coq_bool(bool(r.get("panic"))), "; ".join(cz(i) for i in r["accept"])) for r in part))
            src.append("].")
            src.append("Definition bad_ir := map (fun c => match c with (i, d, ir, j, le, pa, acc) => i end) "
                       "(filter (fun c => match c with (i, d, ir, j, le, pa, acc) => negb (ir_ok d ir) end) cases).")
            src.append("Definition bad_verdict := map (fun c => match c with (i, d, ir, j, le, pa, acc) => (i, expected sites d j) end) "
                       "(filter (fun c => match c with (i, d, ir, j, le, pa, acc) => negb (verdict_ok sites d j le pa acc) end) cases).")
            src.append("Definition RES_IR := Eval vm_compute in bad_ir.")
            src.append("Definition RES_V := Eval vm_compute in bad_verdict.")
            src.append("Print RES_IR.")
            src.append("Print RES_V.")
            jobs.append(("Cases_%s_%d.v" % (tag, k), "\n".join(src)))
        # K: the text the engine reports for a capture is the model's node_text of (the bytes on disk, the capture's extent,
        # what go/printer makes of the node) -- column 0 of every target
        tsrc = ["From Coq Require Import List Bool String.", "From RG.Filters Require Import FilterIR FilterAlgebra ValueSources.",
                "Import ListNotations. Local Open Scope string_scope."]
        tcases, tdesc = [], []
        for f in files:
            # (a 60 KiB string literal overflows coqc's stack: the file is the concatenation of 2 KiB pieces, evaluated by the VM only)
            pieces = [f["disk"][k:k + 2048] for k in range(0, len(f["disk"]), 2048)] or [""]
            for k, piece in enumerate(pieces):
                tsrc.append("Definition disk_%s_%d : string := %s." % (f["target"], k, cstr(piece)))
            tsrc.append("Definition disk_%s : string := %s." % (f["target"], " ++ ".join("disk_%s_%d" % (f["target"], k) for k in range(len(pieces)))))
            for i in range(f["first_site"], f["first_site"] + f["sites"]):
                st = sites[(i, 0)]
                for k, v in enumerate(("x", "y", "m")):
                    tcases.append("(%d%%nat, disk_%s, {| tn_from := %d; tn_to := %d; tn_printed := %s |}, %s)" % (
                        len(tdesc), f["target"], st["ext"][2 * k], st["ext"][2 * k + 1], cstr(st["print"][k]), cstr(st["text_" + v])))
                    tdesc.append((i, v, f["target"]))
        tsrc.append("Definition cases : list (nat * string * tnode * string) := [\n" + ";\n".join(tcases) + "].")
        tsrc.append("Definition RES_T := Eval vm_compute in map (fun c => fst (fst (fst c))) (filter (fun c => match c with (i, f, n, t) => "
                    "negb (String.eqb (node_text f n) t) end) cases).")
        tsrc.append("Definition RES_P := Eval vm_compute in List.length (filter (fun c => match c with (i, f, n, t) => negb (in_file f n) end) cases).")
        tsrc.append("Print RES_T.\nPrint RES_P.")
        jobs.append(("TextSrc_%s.v" % tag, "\n".join(tsrc)))
        # K: the literals of the local macro bodies, read the way expandMacro reads them on this tree (regenerated base / size):
        # a group loads exactly when the model gives every literal a value (and no literal is of a token kind expandMacro has
        # no case for), and the value is the Go value
        mrules = [r for r in rules if r.get("lits") and all(l["kind"] != "STRING" or l["plain"] for l in r["lits"])]
        msrc = ["From Coq Require Import List ZArith Bool String.", "From RG.Filters Require Import FilterIR FilterAlgebra ValueSources.",
                "From RGW Require Import Gen_FilterTables.", "Import ListNotations. Local Open Scope string_scope.",
                "Definition lit_ok (l : string * string * Z) : bool := match l with (k, s, v) =>",
                "  if String.eqb k \"INT\" then match parse_int (Z.to_N gen_macro_int_base) (Z.to_N gen_macro_int_bits) s with Some z => Z.eqb z v | None => false end",
                "  else String.eqb k \"STRING\" end.",
                "Definition cases : list (Z * list (string * string * Z) * bool) := ["]
        msrc.append(";\n".join("(%s, [%s], %s)" % (cz(r["idx"]), "; ".join("(%s, %s, %s)" % (cstr(l["kind"]), cstr(l["lit"]), cz(l.get("int") or 0))
                                                                             for l in r["lits"]), coq_bool(not r.get("left_out"))) for r in mrules))
        msrc.append("].")
        msrc.append("Definition RES_M := Eval vm_compute in map (fun c => fst (fst c)) (filter (fun c => match c with (i, ls, loaded) => "
                    "negb (Bool.eqb (forallb lit_ok ls) loaded) end) cases).")
        msrc.append("Print RES_M.")
        if mrules:
            jobs.append(("MacroLits_%s.v" % tag, "\n".join(msrc)))
        by_idx = {r["idx"]: r for r in rules}
        ncases = 0
        for (fname, _), (ok, out) in zip(jobs, c.coq_eval_many(jobs, timeout=1500)):
            if not ok:
                c.obligation("coq-eval:" + fname, False, out[-2000:])
                return
            if fname.startswith("TextSrc_"):
                m1 = re.search(r"RES_T\s*=\s*(.*?)\s*:\s*list nat", out, re.S)
                m2 = re.search(r"RES_P\s*=\s*(\d+)", out)
                if not m1 or not m2:
                    c.obligation("coq-eval-parse:" + fname, False, out[-2000:])
                    return
                for x in re.findall(r"\d+", m1.group(1)):
                    i, v, tg = tdesc[int(x)]
                    st = sites[(i, 0)]
                    k = "xym".index(v)
                    c.fail("corr", "the text the engine reports for a capture is not the model's node_text (file bytes inside the extent, else go/printer)",
                           input={"site": i, "capture": "$$" if v == "m" else "$" + v, "file": DETACHED.get(tg, "on disk"), "extent": st["ext"][2 * k:2 * k + 2],
                                  "as_written": st["src_" + v], "go/printer": st["print"][k]}, observed=st["text_" + v])
                c.coverage["text_source_cases"] = c.coverage.get("text_source_cases", 0) + len(tdesc)
                c.coverage["text_source_cases_printed"] = c.coverage.get("text_source_cases_printed", 0) + int(m2.group(1))
                if int(m2.group(1)) < 20:
                    c.obligation("harness-sanity:detached-targets", False, "only %s captures lie outside the bytes on disk" % m2.group(1))
                continue
            if fname.startswith("MacroLits_"):
                m1 = re.search(r"RES_M\s*=\s*(.*?)\s*:\s*list Z", out, re.S)
                if not m1:
                    c.obligation("coq-eval-parse:" + fname, False, out[-2000:])
                    return
                for x in re.findall(r"-?\d+", m1.group(1).replace("%Z", "")):
                    r = by_idx[int(x)]
                    c.fail("corr", "the literals of a local macro body: the model (strconv.ParseInt with the regenerated base) and the engine disagree on whether the group loads",
                           input=inp(r, {"literals": r["lits"]}), observed={"load_err": r.get("load_err") or None})
                c.coverage["macro_literal_model_cases"] = c.coverage.get("macro_literal_model_cases", 0) + len(mrules)
                continue
            m1 = re.search(r"RES_IR\s*=\s*(.*?)\s*:\s*list Z", out, re.S)
            m2 = re.search(r"RES_V\s*=\s*(.*?)\s*:\s*list \(Z \*", out, re.S)
            if not m1 or not m2:
                c.obligation("coq-eval-parse:" + fname, False, out[-2000:])
                return
            for x in re.findall(r"-?\d+", m1.group(1)):
                r = by_idx[int(x)]
                c.fail("corr", "irconv's IR differs from the model's convert", input=inp(r), observed=r.get("ir"))
            body = re.sub(r"\s+", " ", m2.group(1))
            for mm in re.finditer(r"\((-?\d+)%?Z?, (None|Some \(\[([^\]]*)\], (true|false)\))\)", body.replace("%Z", "")):
                r = by_idx[int(mm.group(1))]
                if mm.group(2) == "None":
                    exp = "load error"
                else:
                    exp = {"accept": [int(v) for v in re.findall(r"-?\d+", mm.group(3))], "panic": mm.group(4) == "true"}
                c.fail("corr", "engine verdicts differ from the model's eval on the go/types facts", input=inp(r), expected=exp,
                       observed={"accept": r["accept"], "panic": r.get("panic"), "load_err": r.get("load_err")})
            if body.strip() not in ("[]",) and not re.search(r"\(-?\d+", body):
                c.obligation("coq-eval-parse:" + fname, False, body[:2000])
        ncases = len(rules)
        c.coverage.setdefault("model_vs_impl_cases", 0)
        c.coverage["model_vs_impl_cases"] += ncases
        for r in rules[len(atoms) + 3:len(atoms) + 5] + [r for r in rules if r["role"] == "or_boom"][:1]:
            c.sample({"where": r["src"], "accept": r["accept"], "panic": r.get("panic", "")})

    ntrees, nfam, nshared = (260, 20, 6) if not thorough else (2500, 160, 80)
    observe_and_compare(ntrees, nfam, c.seed, nshared)

    def search():
        observe_and_compare(900, 60, c.seed + 7, 40)

    c.coverage["exhaustive"] = False
    c.finish(search=search)
