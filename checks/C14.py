"""C14 -- xtypes identity / implements agree with go/types, are an equivalence, relate counterparts across universes only.

P: theorems of coq/theories/Types/XIdentical.v about the model `identical_x` / `implements_x` (props file coq/tmpl/C14/C14.v).
K: the model is evaluated (vm_compute) on every pair of the harness' type pool -- fixed catalogue + seeded random composites
   and near-miss mutants, type-checked twice independently -- and diffed with what internal/xtypes answers (verif hook),
   under GODEBUG=gotypesalias=0 and =1.
O: types.Identical / types.Implements inside one universe, and "counterpart by construction" across the two universes
   (pool entry i of universe 1 is the same source type as entry i of universe 2); the executable specification
   x_spec / go_identical is validated against the same oracle; reflexivity / symmetry / transitivity are checked
   directly on the observed relation.
"""
import json
import os
import re

FINDING_TP = "tparam-cross-universe"
F_CONSTRAINT = "constraint-interface-type-sets-ignored"
F_GENSIG = "generic-signature-type-params-by-address"
F_LOCAL = "local-named-type-cross-universe"


def coq_str_list(xs):
    return "[" + "; ".join('"%s"' % x for x in xs) + "]"


def head_kind(term):
    m = re.match(r"T \(?(H\w+)", term)
    return m.group(1) if m else "?"


def pairs(s):
    return [(int(a), int(b)) for a, b in re.findall(r"\((\d+),\s*(\d+)\)", s or "")]


def nats(s):
    return [int(x) for x in re.findall(r"\d+", s or "")]


def eval_source(o):
    """The correspondence run of one observation as several Coq files (shards evaluated in parallel): each shard holds the
    pool terms and only the observed rows / tables its definitions read. Returns [(suffix, source, names)]."""
    n = o["n"]
    head = ["From Coq Require Import List ZArith NArith Bool String.",
            "From RG.Types Require Import GType XIdentical C14Run.",
            "Import ListNotations. Local Open Scope string_scope."]
    pool = ["Definition p1 : list gtype := [\n%s\n]." % ";\n".join(o["terms1"]),
            "Definition p2 : list gtype := [\n%s\n]." % ";\n".join(o["terms2"])]

    def rows(k):
        # packed four cells per hex digit (C14Run.unhex); reading a string literal costs coqc its length
        packed = []
        for r in o[k]:
            r = r + "0" * (-len(r) % 4)
            packed.append("".join("%x" % int(r[i:i + 4], 2) for i in range(0, len(r), 4)))
        return "Definition o_%s : list string := map unhex %s." % (k, coq_str_list(packed))

    def impl_tables():
        src = ["Definition if1 : list gtype := [\n%s\n]." % ";\n".join(o["ifterms1"]),
               "Definition if2 : list gtype := [\n%s\n]." % ";\n".join(o["ifterms2"]),
               "Definition mids : list string := %s." % coq_str_list(o["method_ids"])]
        for u in ("1", "2"):
            rws = []
            for i in range(n):
                rws.append("(%s, [%s])" % ("true" if o["is_iface"][i] else "false", "; ".join(o["lookups" + u][i])))
            src.append("Definition v%s : list (bool * list lookup_res) := [\n%s\n]." % (u, ";\n".join(rws)))
        return src
    shards = [
        ("hyp", pool, [("R_wf1", "bad_indices wf p1"), ("R_wf2", "bad_indices wf p2"),
                       ("R_un1", "bad_indices (in_univ 1) p1"), ("R_un2", "bad_indices (in_univ 2) p2"),
                       ("R_tp", "bad_indices tpfree p1")]),
        ("m11", pool + [rows("x11")], [("R_m11", "mismatches identical_x p1 p1 o_x11")]),
        ("m12", pool + [rows("x12")], [("R_m12", "mismatches identical_x p1 p2 o_x12")]),
        ("m21", pool + [rows("x21")], [("R_m21", "mismatches identical_x p2 p1 o_x21")]),
        ("m22", pool + [rows("x22")], [("R_m22", "mismatches identical_x p2 p2 o_x22")]),
        ("s1", pool + [rows("g1")], [("R_s11", "mismatches go_identicalb p1 p1 o_g1"), ("R_s22", "mismatches go_identicalb p2 p2 o_g1")]),
        ("s2", pool + [rows("g1")], [("R_s12", "mismatches x_specb p1 p2 o_g1"), ("R_s21", "mismatches x_specb p2 p1 o_g1")]),
        ("i11", impl_tables() + [rows("i11")], [("R_i11", "mismatches (impl_model mids) v1 if1 o_i11")]),
        ("i12", impl_tables() + [rows("i12")], [("R_i12", "mismatches (impl_model mids) v1 if2 o_i12")]),
        ("i21", impl_tables() + [rows("i21")], [("R_i21", "mismatches (impl_model mids) v2 if1 o_i21")]),
    ]
    out = []
    for suffix, tables, defs in shards:
        src = head + tables
        for name, body in defs:
            src.append("Definition %s := Eval vm_compute in (%s).\nPrint %s." % (name, body, name))
        out.append((suffix, "\n".join(src), [d[0] for d in defs]))
    return out


def run(c):
    from vlib import parse_coq_print
    thorough = c.tier == "thorough"
    c.rule = ("all ordered pairs of a pool of Go types (fixed catalogue of every constructor, same-named types of two packages, "
              "instantiations, aliases, recursive interfaces, type parameters + seeded random composites each with a one-step "
              "near-miss mutant), within and across two independent type-checks, under gotypesalias=0 and 1; plus every "
              "(type, interface) pair for Implements. A case is non-trivial when the two types are written differently but "
              "have the same root constructor (the comparison has to descend) or are identical; distinct by "
              "(alias mode, universe pair, the two type expressions)")
    c.trusted += [
        "go2coq xnamed: translates sameTypeName, sameID, the `case *types.Named:` clause of typeIdentical (straight-line bool/string "
        "code plus the canonical loop over the type arguments) and its one-level clauses (Basic, Array, Slice, Pointer, Map, Chan, "
        "Signature: `if y, ok := y.(*types.K); ok {...}` falling through to the final `return false`) into Gallina over the facts they read",
        "go2coq xtypes: reads ifacePair.identical (==, &&, || over the four addresses) and the call sites of identity/implements "
        "relations in ruleguard, typematch and xtypes; prints the arguments of the relation calls inside the filter constructors, the "
        "dsl natives, FindType and findDependency with single-assignment locals substituted (gen_relation_args / gen_operand_sources)",
        "harness/internal/gtypes: canonical serialisation of go/types types into gtype terms (go/types accessors trusted)",
        "go/types: types.Identical / types.Implements as oracle inside one universe; LookupFieldOrMethod as the method-set "
        "oracle assumed by implements_x_is_spec (Section hypotheses lookup_mset, iface_has_no_fields)",
        "counterpart-by-construction: the same source text type-checked twice yields corresponding types at equal pool indices",
        "harness/cmd/c14 and hook ruleguard.VerifXtypesIdentical/VerifXtypesImplements (build tag verif)",
    ]
    c.notes += [
        "outside the term model, compared with go/types directly (extra pool): recursive interfaces through anonymous embedding "
        "(self, mutual, through a parameter; unrolled and diverging at depth 1..3 -- this is what exercises the ifacePair stack), "
        "constraint interfaces with type sets, generic (uninstantiated) signatures, function-local named types",
        "pointer equality `x == y` is modelled as term equality within a universe (identical_x_refl_same)",
    ]
    c.go2coq_sources = ["types.go", "c20.go", "c10.go", "c10skel.go", "c14named.go"]
    c.build_theories()
    c.require_theories("Types/GType.v", "Types/XIdentical.v", "Types/C14Run.v", "Types/GoStrings.v")
    # ---- P over regenerated code: ifacePair.identical and the call sites of the relations
    if c.go2coq("xtypes", "Gen_XTypes.v"):
        if c.coq_compile(["Gen_XTypes.v"]):
            c.install_tmpl("C14/Inst_XTypes.v", "C14/C14.v")
            c.coq_compile(["Inst_XTypes.v", "C14.v"])
    # ---- P over code TRANSLATED from xtypes.go: sameTypeName, the Named case of typeIdentical (type arguments before any answer), sameID
    if c.go2coq("xnamed", "Gen_XNamed.v"):
        if c.coq_compile(["Gen_XNamed.v"]):
            c.install_tmpl("C14/Inst_XNamed.v", "C14/C14Named.v")
            c.coq_compile(["Inst_XNamed.v", "C14Named.v"])

    hb = c.build_harness("c14")
    if hb is None:
        return c.finish()

    def observe(seed, nrand, depth):
        res = []
        for mode in ("0", "1"):
            rc, out = c.run_harness(hb, ["-seed", str(seed), "-rand", str(nrand), "-depth", str(depth),
                                         "-tmp", os.path.join(c.work, "tmp-a%s-s%d" % (mode, seed))], timeout=600,
                                    env={"GODEBUG": "gotypesalias=" + mode})
            o = None
            for line in out.splitlines():
                if line.startswith("{"):
                    try:
                        o = json.loads(line)
                    except ValueError:
                        pass
            if o is None or rc != 0 or o.get("error"):
                # a crash of the implementation (e.g. stack overflow in typeIdentical) ends the process
                detail = (o or {}).get("error") or out[-1500:]
                if o is None and ("stack overflow" in out or "panic" in out or "fatal error" in out):
                    c.fail("oracle", "internal/xtypes crashes the process on the type pool",
                           input={"seed": seed, "gotypesalias": mode, "harness": "c14 -seed %d -rand %d" % (seed, nrand)},
                           observed=out[-800:], expected="an answer for every pair of types")
                else:
                    c.obligation("harness-run:c14:seed%d:alias%s" % (seed, mode), False, detail)
                continue
            o["alias"] = mode
            o["seed"] = seed
            res.append(o)
        return res

    def compare(obs, tag):
        jobs, owner = [], []
        for k, o in enumerate(obs):
            for suffix, src, names in eval_source(o):
                jobs.append(("Cases_%s_s%d_a%s_%s.v" % (tag, o["seed"], o["alias"], suffix), src))
                owner.append((k, names))
        results = c.coq_eval_many(jobs, timeout=1200, workers=14)
        merged = []
        for k, o in enumerate(obs):
            oks, outs, names = True, [], []
            for (kk, nms), (ok, out) in zip(owner, results):
                if kk == k:
                    oks, names = oks and ok, names + nms
                    outs.append(out if ok else out[-2000:])
            merged.append(("Cases_%s_s%d_a%s" % (tag, o["seed"], o["alias"]), names, oks, "\n".join(outs)))
        for o, (fname, names, ok, out) in zip(obs, merged):
            mode, n = o["alias"], o["n"]
            ctx = {"gotypesalias": mode, "seed": o["seed"]}
            if o.get("unsupported"):
                c.obligation("pool-inside-model-fragment:" + fname, False, o["unsupported"])
            for p in o.get("panics") or []:
                c.fail("oracle", "internal/xtypes panics", input=dict(ctx, call=p), observed="panic", expected="an answer")
            if o["g1"] != o["g2"] or o["gi1"] != o["gi2"]:
                c.obligation("go-types-oracle-deterministic:" + fname, False, "types.Identical/Implements differ between the two type-checks")
            R = {}
            if not ok:
                c.obligation("coq-eval:" + fname, False, out[-2000:])
            else:
                for nm in names:
                    txt = parse_coq_print(out, nm)
                    if txt is None:
                        c.obligation("coq-eval-parse:%s:%s" % (fname, nm), False, out[-1500:])
                        R = {}
                        break
                    R[nm] = txt
            have_model = bool(R)
            tp = set(nats(R.get("R_tp"))) if have_model else {i for i in range(n) if o["has_tp"][i]}
            if have_model:
                for nm in ("R_wf1", "R_wf2", "R_un1", "R_un2"):
                    if nats(R[nm]):
                        c.obligation("pool-terms-%s:%s" % (nm, fname), False,
                                     "terms violating the theorems' hypotheses (wf / in_univ): indices %s" % nats(R[nm])[:10])
                # the executable specification against go/types (validates the Coq spec itself)
                for nm, what in (("R_s11", "go_identical (universe 1)"), ("R_s22", "go_identical (universe 2)"),
                                 ("R_s12", "x_spec across universes"), ("R_s21", "x_spec across universes (2,1)")):
                    for (i, j) in pairs(R[nm])[:5]:
                        c.fail("corr", "Coq specification %s disagrees with types.Identical" % what,
                               input=dict(ctx, a=o["exprs"][i], b=o["exprs"][j]), expected=o["g1"][i][j])
            exprs = o["exprs"]
            kinds = [head_kind(t) for t in o["terms1"]]
            # ---- identity: observed vs oracle, model vs observed
            for key, ua, ub in (("x11", 1, 1), ("x12", 1, 2), ("x21", 2, 1), ("x22", 2, 2)):
                mm = set(pairs(R.get("R_m" + key[1:]))) if have_model else set()
                rows, g = o[key], o["g1"]
                nrep = 0  # unattributed contradictions reported for this universe pair (the replay keeps 20 inputs: leave room for the other sections)
                for i in range(n):
                    ri, gi = rows[i], g[i]
                    for j in range(n):
                        c.evaluations += 1
                        if gi[j] == "1" or (kinds[i] == kinds[j] and exprs[i] != exprs[j]):
                            c.nontrivial.add((mode, ua, ub, exprs[i], exprs[j]))
                        if ri[j] != gi[j]:
                            finding = None
                            if (ua != ub and gi[j] == "1" and ri[j] == "0" and i in tp and j in tp
                                    and have_model and (i, j) not in mm):
                                finding = FINDING_TP
                            if finding is None:
                                nrep += 1
                                if nrep > 3:
                                    continue
                            c.fail("oracle", "xtypes.Identical contradicts %s" % (
                                "types.Identical" if ua == ub else "the counterpart relation across two type-checks"),
                                input=dict(ctx, a=exprs[i], a_universe=ua, b=exprs[j], b_universe=ub),
                                expected=gi[j] == "1", observed=ri[j] == "1", finding=finding)
                for (i, j) in sorted(mm):
                    if rows[i][j] == g[i][j]:
                        c.fail("corr", "model identical_x differs from internal/xtypes.Identical",
                               input=dict(ctx, a=exprs[i], a_universe=ua, b=exprs[j], b_universe=ub), observed=rows[i][j] == "1")
                if have_model:
                    c.coverage["model_vs_impl_pairs"] = c.coverage.get("model_vs_impl_pairs", 0) + n * n
            # ---- extra pool: types that have no term in the model (go/types is the only reference there)
            xn, xc = o.get("xnames") or [], o.get("xclass") or []
            for key, ua, ub in (("xx11", 1, 1), ("xx12", 1, 2), ("xx21", 2, 1)):
                for i in range(len(xn)):
                    for j in range(len(xn)):
                        c.evaluations += 1
                        ob, ex = o[key][i][j], o["xg1"][i][j]
                        if ex == "1" or xc[i] == xc[j]:
                            c.nontrivial.add((mode, "extra", ua, ub, xn[i], xn[j]))
                        if ob == ex:
                            continue
                        finding = None
                        if xc[i] == xc[j] == "constraint-interface" and ob == "1" and ex == "0":
                            finding = F_CONSTRAINT
                        elif xc[i] == xc[j] == "generic-signature" and ob == "0" and ex == "1":
                            finding = F_GENSIG
                        elif (xc[i] == xc[j] == "local-named" and ua != ub and i == j and ob == "0" and ex == "1"
                              and xn[i].startswith("local ")):
                            finding = F_LOCAL
                        c.fail("oracle", "xtypes.Identical contradicts %s (types outside the term model: %s)" % (
                            "types.Identical" if ua == ub else "the counterpart relation across two type-checks", xc[i]),
                            input=dict(ctx, a=xn[i], a_universe=ua, b=xn[j], b_universe=ub),
                            expected=ex == "1", observed=ob == "1", finding=finding)
            c.coverage["extra_pool_size"] = len(xn)
            # ---- the three laws on the observed relation (type parameters of universe 2 left out: recorded finding)
            nodes = [(1, i) for i in range(n)] + [(2, j) for j in range(n) if j not in tp]
            blk = {(1, 1): o["x11"], (1, 2): o["x12"], (2, 1): o["x21"], (2, 2): o["x22"]}

            def rel(a, b):
                return blk[(a[0], b[0])][a[1]][b[1]] == "1"

            def nm(a):
                return "%s (universe %d)" % (exprs[a[1]], a[0])
            succ = {a: [b for b in nodes if rel(a, b)] for a in nodes}
            nlaw = 0
            for a in nodes:
                if not rel(a, a) and nlaw < 4:
                    nlaw += 1
                    c.fail("oracle", "xtypes.Identical is not reflexive", input=dict(ctx, a=nm(a)), expected=True, observed=False)
                sa = set(succ[a])
                for b in succ[a]:
                    if not rel(b, a) and nlaw < 4:
                        nlaw += 1
                        c.fail("oracle", "xtypes.Identical is not symmetric", input=dict(ctx, a=nm(a), b=nm(b)),
                               expected="a~b implies b~a", observed="a~b but not b~a")
                    for cc in succ[b]:
                        if cc not in sa and nlaw < 4:
                            nlaw += 1
                            c.fail("oracle", "xtypes.Identical is not transitive", input=dict(ctx, a=nm(a), b=nm(b), c=nm(cc)),
                                   expected="a~b and b~c imply a~c", observed="a~b, b~c, not a~c")
            c.coverage["law_nodes"] = c.coverage.get("law_nodes", 0) + len(nodes)
            # ---- implements
            ifs = o["ifaces"]
            for key, ua, ub in (("i11", 1, 1), ("i12", 1, 2), ("i21", 2, 1)):
                mm = set(pairs(R.get("R_" + key))) if have_model else set()
                rows, g = o[key], o["gi1"]
                for i in range(n):
                    for j in range(len(ifs)):
                        c.evaluations += 1
                        if g[i][j] == "1" and o["ifterms1"][j] != "T (HInterface []) []":
                            c.nontrivial.add((mode, "impl", ua, ub, exprs[i], exprs[ifs[j]]))
                        if rows[i][j] != g[i][j]:
                            c.fail("oracle", "xtypes.Implements contradicts %s" % (
                                "types.Implements" if ua == ub else "types.Implements on the counterparts"),
                                input=dict(ctx, type=exprs[i], type_universe=ua, iface=exprs[ifs[j]], iface_universe=ub),
                                expected=g[i][j] == "1", observed=rows[i][j] == "1")
                for (i, j) in sorted(mm):
                    if rows[i][j] == g[i][j]:
                        c.fail("corr", "model implements_x differs from internal/xtypes.Implements",
                               input=dict(ctx, type=exprs[i], type_universe=ua, iface=exprs[ifs[j]], iface_universe=ub),
                               observed=rows[i][j] == "1")
            # ---- engine level: one engine, two independent type-checks of the same package
            eo = o.get("engine")
            if eo is not None:
                if eo.get("load_err"):
                    c.obligation("engine-section-load:" + fname, False, eo["load_err"])
                for p in eo.get("panics") or []:
                    c.fail("oracle", "Run fails on a re-used engine", input=dict(ctx, run=p), observed=p, expected="reports")
                for k, (got, exp) in enumerate(zip(eo.get("runs") or [], eo.get("oracle") or [])):
                    c.evaluations += len(exp)
                    for m_ in exp:
                        c.nontrivial.add((mode, "engine", k, m_))
                    if got != exp:
                        c.fail("oracle", "one engine over two independent type-checks of the same package: run %d reports differ from what "
                               "go/types says inside that run's universe (Implements / IdenticalTo / HasMethod / Is filters and the "
                               "dsl/types natives of custom filters; GetInterface/GetType results are cached from run 1)" % (k + 1),
                               input=dict(ctx, run=k + 1, rules="harness/cmd/c14 engRules", target="harness/cmd/c14 engTarget"),
                               expected=exp, observed=got)
                c.coverage["engine_runs"] = c.coverage.get("engine_runs", 0) + len(eo.get("runs") or [])
            # ---- engine-level sections: every relation filter x every probe of a generated target
            #   matrix     nested aliases / same-printing distinct types / interface spellings, several source orders
            #   untyped    captures whose recorded type is an untyped basic type (operands of constant expressions, conditions)
            #   lookalike  run-time / load-time lookups of `pkg.T` from packages depending on look-alike import paths
            sections = (
                ("matrix", "engine_matrix", "harness/cmd/c14 emMatrix",
                 "(nested aliases, same-printing distinct types, one engine over several type-checks / source orders)"),
                ("untyped", "engine_untyped", "harness/cmd/c14 emUntyped",
                 "(the filter must answer for the type go/types RECORDED for the capture -- an untyped constant type is identical to "
                 "itself only, never to its default type)"),
                ("lookalike", "engine_lookalike", "harness/cmd/c14 emLookalike",
                 "(a fully-qualified name stands for the package with exactly that import path, whatever look-alike paths the "
                 "analysed package depends on)"),
            )
            for skey, cov, where, why in sections:
                mx = o.get(skey)
                if mx is None:
                    continue
                if mx.get("load_err"):
                    c.obligation("%s-load:%s" % (cov.replace("_", "-"), fname), False, mx["load_err"])
                for p in mx.get("panics") or []:
                    c.fail("oracle", "Run fails on the %s target" % cov.replace("_", " "), input=dict(ctx, run=p, target=where),
                           observed=p, expected="reports")
                for s_ in mx.get("stray") or []:
                    c.obligation("%s-reports-belong-to-probes:%s" % (cov.replace("_", "-"), fname), False, s_)
                c.evaluations += mx.get("probes", 0)
                for d in (mx.get("diffs") or [])[:6]:
                    c.fail("oracle", "engine filter %s on a probe of type %s: outcome differs from go/types inside the run's own type-check %s"
                           % (d["filter"], d["type"], why),
                           input=dict(ctx, filter=d["filter"], probe_expr=d["expr"], probe_type=d["type"], function=d["scope"],
                                      declarations=d.get("decls", ""), run=d["run"], function_order=d.get("order"),
                                      target=where),
                           expected=d["expected"], observed=d["observed"])
                if mx.get("probes"):
                    c.nontrivial.add((mode, cov, mx.get("probes"), mx.get("positive")))
                c.coverage[cov + "_rules"] = mx.get("rules", 0)
                c.coverage[cov + "_probes"] = c.coverage.get(cov + "_probes", 0) + mx.get("probes", 0)
                c.coverage[cov + "_expected_reports"] = c.coverage.get(cov + "_expected_reports", 0) + mx.get("positive", 0)
                if skey == "matrix":
                    c.coverage["engine_matrix_same_printing_probes"] = mx.get("same_printing_probes", 0)
                    c.coverage["engine_matrix_nested_alias_probes"] = mx.get("nested_alias_probes", 0)
                elif skey == "untyped":
                    c.coverage["engine_untyped_probes_with_untyped_capture"] = mx.get("nested_alias_probes", 0)
            c.coverage["pool_size"] = n
            c.coverage["interfaces_in_pool"] = len(ifs)
            c.coverage["identical_pairs_per_universe"] = sum(r.count("1") for r in o["g1"])
            c.coverage["implements_pairs_per_universe"] = sum(r.count("1") for r in o["gi1"])
            k = n // 3
            c.sample({"gotypesalias": mode, "a": exprs[k], "b": exprs[k + 1], "term_a": o["terms1"][k][:300],
                      "xtypes_11": o["x11"][k][k + 1], "xtypes_12": o["x12"][k][k + 1], "go_types": o["g1"][k][k + 1]}, limit=4)

    if thorough:
        obs = []
        for s in range(8):
            obs += observe(c.seed * 100 + s, 70, 4)
        compare(obs, "main")
    else:
        compare(observe(c.seed, 30, 3), "main")

    def search():
        obs = []
        for s in range(1, 4):
            obs += observe(c.seed * 1000 + s, 60, 4)
        compare(obs, "search")

    c.coverage["exhaustive"] = False
    c.finish(search=search)
