"""C07 -- Run never crashes on type-checked code; reports are well-formed.

P: go2coq filtertotal regenerates, for every filter closure of filters.go, which partial operations it performs on a captured
   node (Pos()/End(), nodeText, gogrep.Walk, Sizeof, a method call on a types.Object) and whether each is guarded, plus
   the guards of nodeText, of the report location, of renderMessage, of libdsl's SizeOf and of findSinkType; coq/tmpl/C07
   re-proves that every closure is safe (filters_total for ALL capture shapes and go/types facts), render_total,
   truncate_total (C15's regenerated truncateText) and report_wellformed.
K: the model's prediction "closure x capture shape crashes?" is evaluated inside coqc for every (constructor, shape) of the
   sweep and compared with what the real engine did.
O: shape-coverage sweep: every filter constructor x 16 capture shapes (expression, `$*xs` of length 0..3, statement, statement
   list of length 0..2, typed-nil / non-nil result list, parameter lists, type expression, name list, and MatchComment rules:
   a named group that captures / captures nothing / no group / a block comment / a trailing comment) x RunContext settings,
   plus At() every shape, plus Do() functions asking for the text and type of the capture and of an unbound variable, plus a
   TruncateLen -3..70 render sweep, through the real engine under recover; every report is checked for a non-nil node with
   valid in-file positions, a rule group, and an in-file suggestion range. Deep sweep: every type predicate (and custom filters
   calling types.Identical / Implements / SizeOf / String) over recursive, cyclic and very large types (interface cycles through
   1..3 anonymous levels, mutually recursive interfaces, self-referential struct / func / map / slice / pointer / chan types,
   generic lists, 512 KiB arrays) runs in child processes with a 48 MiB stack cap and a time budget: a fatal stack overflow
   or a hang names the rule and the probe site.  Product sweep (harness/cmd/c07/product.go, catalogue.go): 121 pattern roots of
   every kind x every filter operation on either capture (rejecting form F && !F: every rule of an engine is evaluated on every
   match), Contains() with list sub-patterns, 76 type patterns of every arity, custom filters, At(), Do(), over a catalogue of
   alias-nested / type-parameter-nested types and function values of every shape, in child processes under gotypesalias=0 and 1.
P (second part, go2coq filtertotal2 + RG.Filters.TotalityExt): the root guard of handleMatch, the nil test of renderMessage,
   hasKnownSize's recursion (known_size_sound for all nested types), the allocations of the two matcher states
   (walk_total_distinct), the alias normalisation / descents / cases of xtypes.typeIdentical and typematch.matchIdentical
   (traverse_total), the guard of typematch's decremented index -- each with the refutation of the variant without it.
"""
import json
import os
import re

from vlib import coq_bool
from filtlib import build_own_theories

SHAPES = {
    "expr": ["ShNode"], "exprlist": ["ShList 0", "ShList 1", "ShList 2", "ShList 3"], "stmt": ["ShNode"],
    "stmtlist": ["ShList 0", "ShList 1", "ShList 2"], "results-nil": ["ShTypedNil"], "results": ["ShNode"],
    "params": ["ShList 2"], "params-unnamed": ["ShList 2"], "fields-head": ["ShList 2"], "fields-tail": ["ShList 2"], "fields-all": ["ShNode"], "type": ["ShNode"], "names": ["ShList 1"], "sinkctx": ["ShNode"],
    # comment rules: every capture (also a named group that matched nothing) is a non-nil *ast.Comment
    "comment": ["ShNode"], "comment-empty": ["ShNode"], "comment-nogroup": ["ShNode"], "comment-block": ["ShNode"], "comment-trailing": ["ShNode"],
    "comment-angle": ["ShNode"], "comment-angle-empty": ["ShNode"], "comment-nested": ["ShNode"], "comment-unnamed+named": ["ShNode"],
    "comment-flags": ["ShNode"], "comment-alternation": ["ShNode"], "comment-angle-alternation": ["ShNode"], "sinkctx-str": ["ShNode"],
    # product sweep: a capture of a generic root is any of the shapes
    "product": ["ShNode", "ShList 0", "ShList 1", "ShList 3", "ShTypedNil", "ShNilIface"],
    # the match of a range-header / range-clause pattern: a *gogrep.PartialNode
    "partial": ["ShNode"],
}
# what kind of node the `$x` capture of a shape is for go/printer (the text of a capture that cannot be sliced out of the
# file is printed): printable (expression, statement, declaration, spec), a comment, a field list, a gogrep node list of
# printable nodes resp. of fields
CLASSES = {
    "expr": ["NcPrintable"], "exprlist": ["NcSlice false"], "stmt": ["NcPrintable"], "stmtlist": ["NcSlice false"],
    "results-nil": ["NcFieldList"], "results": ["NcFieldList"], "params": ["NcSlice true"], "params-unnamed": ["NcFieldList"],
    "fields-head": ["NcSlice true"], "fields-tail": ["NcSlice true"], "fields-all": ["NcFieldList"],
    "type": ["NcPrintable"], "names": ["NcSlice false"], "sinkctx": ["NcPrintable"], "sinkctx-str": ["NcPrintable"],
    "product": ["NcPrintable", "NcComment", "NcField", "NcFieldList", "NcSlice false", "NcSlice true"],
    "partial": ["NcPartial"],
}
READABLE = {"": ["true"], "mem": ["false"], "stale": ["true", "false"]}
# (the two-variable shapes `two:*` -- one capture absent, the other present -- take part in the sweep only: the Coq model's
#  closure_run speaks about one capture at a time)


def run(c):
    thorough = c.tier == "thorough"
    c.go2coq_sources = ["filters.go", "filters_types.go", "filters_state.go", "filters_helpers.go", "filters_total2.go", "filters_walker.go", "filters_reuse.go", "filters_enums.go"]   # private translator build: another family's generator cannot break this check
    c.rule = ("one rule per (filter constructor instance | At() | Do() function, capture shape incl. comment-rule captures) with Report(`$x|$$`) and Suggest(`$x`), run under "
              "(TruncateLen, Go version, fresh/reused state) settings; evaluations count engine runs of one rule under one "
              "setting; a case is distinct by (instance, shape, setting) and non-trivial when the rule delivered reports")
    c.trusted += [
        "gogrep capture shapes (ordinary node / NodeSlice / typed nil) and the panics of Pos()/End()/Walk on them; go/types "
        "Sizeof asserting on untyped types; go/parser positions lie inside the file (Section hypothesis parser_ranges)",
        "go2coq filtertotal: textual detection of partial operations and of their guards inside each closure (fails closed on "
        "missing functions, conservative: an unrecognised guard counts as unguarded)",
        "go/types Sizeof / Alignof assert on type parameters and untyped types below arrays and struct fields; gogrep's matcher state reuses pool "
        "entry k for the k-th allocation of a MatchNode call and SliceInto slices with the caller's bounds; types.Unalias strips alias nodes at the "
        "top only (hand-stated in TotalityExt.v, validated by the product / deep sweeps only)",
        "go2coq filtertotal2: syntax-tree reading of handleMatch / renderMessage / nodeText / hasKnownSize / findSinkType / newRunnerState / "
        "newRulesRunner / typeIdentical / matchIdentical (fails closed on shapes it does not understand)",
        "harness/cmd/c07 prodClass: which dispatch bucket a pattern root is filed under (hand-assigned; a wrong entry costs coverage only)",
        "harness/cmd/c07 (per-report checks under recover)",
    ]
    c.notes += ["panics inside go/types, gogrep, typematch or quasigo beyond the mechanisms of TotalityExt.v, on inputs not covered by the sweeps, are outside the model",
                "the documented exception (GetType/GetInterface panicking in a custom filter) is not exercised here"]

    build_own_theories(c, "Base/Outcome.v", "Base/GoInt.v", "Base/GoSlice.v", "Engine/TruncateSpec.v", "Filters/FilterIR.v", "Filters/Totality.v", "Filters/TotalityExt.v")
    c.require_theories("Base/*.v", "Engine/TruncateSpec.v", "Filters/FilterIR.v", "Filters/Totality.v", "Filters/TotalityExt.v")

    gen_ok = False
    g1 = c.go2coq("filtertotal", "Gen_FilterTotal.v") and c.go2coq("filtertotal2", "Gen_FilterTotal2.v")
    g2 = c.go2coq("leaf", "Gen_Truncate.v", "-file", "ruleguard/runner.go", "-funcs", "truncateText")
    g3 = c.go2coq("c15extras", "Gen_C15Extras.v")
    # the argument names the loader accepts for the enumerated-argument predicates (Object.Is kinds, OfKind names, GoVersion
    # methods) and the names makeObjectIsFilter has a predicate for; handed to the harness, which drives every accepted name
    g4 = c.go2coq("filterenums", "Gen_FilterEnums.v")
    regen_enums = {}
    enums_path = os.path.join(c.work, "enums.json")
    if g4:
        txt = open(os.path.join(c.work, "gen", "Gen_FilterEnums.v")).read()
        m = re.search(r"Definition gen_enum_accepted.*?:=\s*\[(.*?)\n\]\.", txt, re.S)
        for name, body in re.findall(r'\("([^"]+)",\s*\[(.*?)\]\)', m.group(1) if m else ""):
            regen_enums[name] = re.findall(r'"([^"]*)"', body)
        if "Type.OfKind" in regen_enums:
            regen_enums["Type.Underlying.OfKind"] = list(regen_enums["Type.OfKind"])
        if not regen_enums.get("Object.Is"):
            c.obligation("go2coq-parse:filterenums", False, txt[:2000])
    with open(enums_path, "w") as f:
        json.dump(regen_enums, f)
    if g1:
        gen_ok = c.coq_compile(["Gen_FilterTotal.v", "Gen_FilterTotal2.v"] + (["Gen_FilterEnums.v"] if g4 else []))
    if g1 and g2 and g3 and g4 and gen_ok:
        if c.coq_compile(["Gen_Truncate.v", "Gen_C15Extras.v"]):
            c.install_tmpl("C07/Inst_C07.v", "C15/Inst_Truncate.v", "C07/C07.v")
            c.coq_compile(["Inst_C07.v", "Inst_Truncate.v", "C07.v"])

    hb = c.build_harness("c07")
    if hb is None:
        return c.finish()

    state = {"n": 0}

    def sweep(full):
        state["n"] += 1
        args = ["-tmp", os.path.join(c.work, "tmp"), "-enums", enums_path]
        if full:
            args.append("-full")
        rc, out = c.run_harness(hb, args, timeout=1500)
        rs = [json.loads(l) for l in out.splitlines() if l.startswith("{")]
        runs = [r for r in rs if r.get("k") in ("run", "render")]
        for m in [r for r in rs if r.get("k") == "prod-meta"]:
            for k in ("rules", "batches", "roots", "sites", "type_patterns", "contains_patterns", "failing_rules_isolated", "rules_in_failing_sets_not_isolated"):
                c.coverage["product_%s_alias%s" % (k, m["alias"])] = m[k]
            if m["roots"] < 100 or m["rules"] < 8000:
                c.obligation("harness-sanity:product-size", False, json.dumps(m))
        if rc != 0 or not runs:
            c.obligation("harness-run:c07", False, out[-3000:])
            return
        observed = {}
        for r in runs:
            c.count()
            inp = {"pattern": r.get("pattern"), "where": r.get("where"), "extra": r.get("extra", ""), "report": "$x|$$ ($$ only for the sinkctx shape)", "suggest": "$x",
                   "TruncateLen": r["trunc"], "GoVersion": r["gover"], "state_reused": r["reused"], "capture_shape": r["shape"]}
            if r.get("file"):
                inp["file"] = {"mem": "the analysed file exists in memory only (nothing at the path the FileSet names)",
                               "stale": "the file on disk is an older, shorter version of the analysed source (cut inside the probe sites)"}[r["file"]]
            if r.get("alias"):
                inp["GODEBUG"] = "gotypesalias=" + r["alias"]
            if r.get("debug"):
                inp["RunContext.Debug"] = r["debug"]
            if r["shape"].startswith("product"):
                inp["target"] = "harness/cmd/c07/catalogue.go (prodHeader + prodSites)"
                inp["report"], inp["suggest"] = "$x|$y|$$ ($y only when the pattern binds it)", "$x (`$y; $x` for some two-variable rules)"
                if r.get("where", "").startswith("(") and ") && !(" in r.get("where", ""):
                    inp["report"] = inp["suggest"] = "(the rule never reports: its filter has the rejecting form F && !F, so that every rule of the engine is evaluated on every match)"
            if r["shape"] == "unicode":
                inp["report"], inp["suggest"] = "`$x|$$` / `$x and $y in $$` / comment rules `$x|$$`, `$x,$y|$$`", "$x / $y"
                inp["target"] = "harness/cmd/c07/unicode.go: identifiers, string literals and comments made of 1- to 4-byte characters, every length 1..22, every width first and last"
            if r.get("site"):
                inp["site"] = r["site"]
                if r["shape"] == "deep":
                    inp["target"] = "harness/cmd/c07/deep.go:deepDecls (recursive / cyclic / very large types)"
            if r["shape"] == "enum":
                inp["report"], inp["suggest"] = "$$ (the rule never reports: rejecting form)", "(none)"
                inp["target"] = "harness/cmd/c07/enums.go:enumSource (identifiers of every object kind as callees, operands, list elements, selector parts, labels)"
            if r["shape"] == "partial":
                inp["report"], inp["suggest"] = r["inst"].split(":", 1)[-1], "`$$` for the `$x in $$` rules"
                inp["target"] = "harness/cmd/c07/enums.go:partialSrc (range statements of every form)"
            if r["shape"].startswith("two:"):
                inp["report"], inp["suggest"] = "$x|$y|$$", "$y"
            if r.get("do"):
                inp["do"] = "Do(%s) instead of Report/Suggest; %s" % (r["do"], {
                    "doText": "SetReport(ctx.Var(\"x\").Text()); SetSuggest(ctx.Var(\"x\").Text())",
                    "doType": "SetReport(ctx.Var(\"x\").Type().String() + ctx.Var(\"x\").Type().Underlying().String())",
                    "doOther": "SetSuggest(ctx.Var(\"nosuchvar\").Text() + ctx.Var(\"nosuchvar\").Type().String())"}.get(r["do"], ""))
            if r.get("reports"):
                c.nontriv((r["inst"], r["shape"], r.get("pattern") if r["shape"].startswith("product") else "", r["trunc"], r["gover"], r["reused"], r.get("alias", "")))
            if r.get("load_err"):
                c.obligation("harness-sanity:rule-loads", False, "%s / %s: %s" % (r["inst"], r["shape"], r["load_err"]))
                continue
            if r.get("panic"):
                c.fail("oracle", "Run panics", input=inp, observed=r["panic"], expected="Run returns")
            for b in r.get("bad") or []:
                fid = None
                # gogrep binds `$*x` of `if $*x { ... }` to (condition, init statement) -- not in source order: the list's
                # Pos() lies behind its End()
                if (r.get("pattern", "").startswith("if $*x ") and "At(m[\"x\"])" in r.get("extra", "") and b["what"] == "report positions outside the file"
                        and b["pos"] > b["end"] >= 0):
                    fid = "if-opt-capture-reversed"
                c.fail("oracle", "malformed report: " + b["what"], input=inp, observed=b, expected="non-nil node inside the file, group set", finding=fid)
            if r["k"] == "run" and r.get("ctor"):
                key = (r["ctor"].split("/")[0], "product" if r["shape"].startswith("product") else r["shape"], r.get("file", ""))
                observed[key] = observed.get(key, False) or bool(r.get("panic"))
        c.coverage["sweep_runs_%d" % state["n"]] = len(runs)
        # ---- enumerated-argument predicates: the names the loader accepted in the harness's probes against the regenerated sets
        em = [r for r in rs if r.get("k") == "enum-meta"]
        pm = [r for r in rs if r.get("k") == "partial-meta"]
        if not em or not pm or em[0]["units"] < 300 or pm[0]["reports"] < 300 or min(em[0]["matches"].values() or [0]) < 1:
            c.obligation("harness-sanity:enum-and-partial-sweeps", False, "the sweeps did not run or are too small: %r %r" % (em, pm))
        else:
            acc = em[0]["accepted"]
            for name, want in sorted(regen_enums.items()):
                if sorted(want) != sorted(acc.get(name, [])):
                    c.obligation("harness-sanity:enum-accepted-aligned", False,
                                 "%s: the names the loader accepts according to its source %r differ from the names Engine.Load accepted %r "
                                 "(out of %d candidates)" % (name, sorted(want), sorted(acc.get(name, [])), em[0]["candidates"].get(name, 0)))
            for name in ("Node.Is", "Node.Parent.Is"):
                if len(acc.get(name, [])) < 40:
                    c.obligation("harness-sanity:enum-accepted-aligned", False, "%s: only %d go/ast type names accepted" % (name, len(acc.get(name, []))))
            c.coverage["enum_accepted_names"] = {k: len(v) for k, v in sorted(acc.items())}
            c.coverage["enum_units_per_file"] = em[0]["units"]
            c.coverage["partial_node_runs"] = pm[0]["runs"]
        # ---- history sweep: a reusable state created at every point of an engine's history of Loads
        hist = [r for r in rs if r.get("k") == "history"]
        hmeta = [r for r in rs if r.get("k") == "history-meta"]
        if not hmeta or hmeta[0]["reports"] < 150 or hmeta[0]["trunc"] < 20 or not any(r.get("reused") and r.get("reports") for r in hist):
            c.obligation("harness-sanity:history-sweep", False, "the history sweep did not run (or ran fewer than 150 runs, fewer than 20 runs that panic in the documented way): %r" % hmeta)
        for r in hist:
            c.count()
            inp = {"history of the engine": r["inst"], "RunContext.State": r["shape"],
                   "rules_files": "harness/cmd/c07/history.go:histFiles (custom filters and Do() functions that call other functions of their file)",
                   "target": "harness/cmd/c07/history.go:histTargetSrc"}
            if r.get("reports"):
                c.nontriv(("history", r["inst"], r["shape"]))
            if r.get("load_err"):
                c.obligation("harness-sanity:history-sweep", False, "%s: %s" % (r["inst"], r["load_err"]))
                continue
            if r.get("panic"):
                c.fail("oracle", "Run panics with a reusable state that was created at another point of the engine's history of Loads" if r.get("reused")
                       else "Run panics", input=inp, observed=r["panic"], expected="Run returns")
            for b in r.get("bad") or []:
                c.fail("oracle", "malformed report: " + b["what"] if "differ" not in b["what"] else b["what"], input=inp, observed=b.get("detail") or b,
                       expected="the reports of a fresh engine / a non-nil node inside the file, group set")
        c.coverage["history_runs_%d" % state["n"]] = hmeta[0]["reports"] if hmeta else 0
        if not gen_ok:
            return
        keys = sorted(observed)
        prelude = ["From Coq Require Import List Bool String.", "From RG.Base Require Import Outcome.",
                   "From RG.Filters Require Import FilterIR Totality.", "From RGW Require Import Gen_FilterTotal.",
                   "Import ListNotations. Local Open Scope string_scope.",
                   "Definition tfs : list tfacts := [{| tf_untyped := false; tf_obj_nil := false |}; {| tf_untyped := true; tf_obj_nil := true |}].",
                   "Fixpoint starts (p s : string) : bool := match p, s with EmptyString, _ => true | String a p', String b s' => Ascii.eqb a b && starts p' s' | _, _ => false end.",
                   "Definition crashes (ctor : string) (shapes : list cshape) (classes : list nclass) (readable : list bool) : bool :=",
                   "  existsb (fun e => (String.eqb (fst e) ctor || starts (ctor ++ \"#\") (fst e)) &&",
                   "    existsb (fun s => existsb (fun tf => existsb (fun c => existsb (fun rd =>",
                   "      negb (is_ok (closure_run_on (snd e) gen_nodetext_guarded gen_text_print_handled gen_text_print_recursive rd s c tf))) readable) classes) tfs) shapes) gen_access.",
                   "Definition known (ctor : string) : bool := existsb (fun e => String.eqb (fst e) ctor) gen_access.",
                   "Definition cases : list (nat * string * list cshape * list nclass * list bool * bool) := ["]
        nshards = 8
        jobs = []
        for sh in range(nshards):
            src = list(prelude)
            src.append(";\n".join('(%d%%nat, "%s", [%s], [%s], [%s], %s)' % (
                i, k[0], "; ".join(SHAPES[k[1]]), "; ".join(CLASSES.get(k[1], ["NcComment"])), "; ".join(READABLE[k[2]]), coq_bool(observed[k]))
                for i, k in enumerate(keys) if i % nshards == sh))
            src.append("].")
            src.append("Definition RES := Eval vm_compute in map (fun x => match x with (i, _, _, _, _, _) => i end) (filter (fun x => match x with (i, ctor, sh, cl, rd, obs) => "
                       "negb (known ctor) || negb (Bool.eqb (crashes ctor sh cl rd) obs) end) cases).")
            src.append("Print RES.")
            jobs.append(("Cases_%d_%d.v" % (state["n"], sh), "\n".join(src)))
        for (fname, _), (ok, out) in zip(jobs, c.coq_eval_many(jobs, timeout=600, workers=8)):
            if not ok:
                c.obligation("coq-eval:" + fname, False, out[-2000:])
                return
            m = re.search(r"RES\s*=\s*(.*?)\s*:\s*list nat", out, re.S)
            if not m:
                c.obligation("coq-eval-parse:" + fname, False, out[-2000:])
                return
            for x in re.findall(r"\d+", m.group(1)):
                k = keys[int(x)]
                c.fail("corr", "the model's crash prediction for %s on capture shape %s differs from the engine" % k[:2],
                       input={"ctor": k[0], "shape": k[1], "file": k[2] or "on disk"}, observed={"engine_panicked": observed[k]})
        c.coverage.setdefault("model_vs_impl_cases", 0)
        c.coverage["model_vs_impl_cases"] += len(keys)
        for r in [r for r in runs if r.get("reports")][5:8]:
            c.sample({"inst": r["inst"], "shape": r["shape"], "TruncateLen": r["trunc"], "reports": r["reports"]})

    sweep(thorough)

    def search():
        sweep(True)

    c.coverage["exhaustive"] = False
    c.finish(search=search)
