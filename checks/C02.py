"""C02 -- Where() predicates mean what go/types says.

P: go2coq regenerates (filtertables) the conversion / loader dispatch tables and (filterpreds) go/types' BasicInfo table,
   stringToBasicKind, the OfKind dispatch and closure conditions, versionCompare, the case table of typeHasPointers, one
   summary per make*Filter constructor and every predicate path declared in dsl/dsl.go; coq/tmpl/C02 re-proves
   ofkind_table_correct, version_compare_spec, has_pointers_conservative/exact, wiring_ok, underlying_ok and instantiates
   eval_iff_fact (generic, RG.Filters.Predicates).
K: the hand-written part of the model (pred_eval: capture shape x list lifting x operand selector, driven by the
   regenerated constructor summaries) is executed inside coqc on the observed (constructor, shape, element facts) tuples and
   compared with the engine's verdicts.
O: for ~500 rules (predicate x argument x {single, `$*xs`, statement}) over ~290 probe sites, under both go/types alias
   representations, the engine's verdict is compared with the fact computed directly with go/types / go/ast / regexp.
"""
import json
import os
import re

from vlib import coq_bool
from filtlib import build_own_theories

FINDING_LIST = "C02-no-list-support"


def run(c):
    c.go2coq_sources = ["filters.go", "filters_types.go", "filters_state.go", "filters_helpers.go"]   # private translator build: another family's generator cannot break this check
    c.rule = ("every documented predicate x argument as a single-capture rule, a `$*xs` rule and a statement-capture rule over "
              "172 expression shapes (all type classes, constants, aliases, generics), 30 argument lists, 12 statements and 37 "
              "sink contexts; evaluations count (rule, site) pairs; a case is distinct by (predicate+argument, rule kind, site) "
              "and non-trivial when the documented fact is decided (not 'either') for it; plus the located families (type patterns with "
              "variables x parameter / result / field lists, Object.* / Type.Is on declaring identifiers, Contains() sub-patterns of every "
              "root kind): a rule per (predicate, pattern, capture), sites = the captures a rule without Where() locates")
    c.trusted += [
        "go/types (AssignableTo, ConvertibleTo, Implements, Identical, Comparable, method sets, Info.Types, Sizes), go/ast, regexp: "
        "the facts are THEIR answers, computed in harness/cmd/c02 without going through ruleguard",
        "go2coq filtertables / filterpreds (AST-shape readers, fail closed); the BasicInfo table comes from the linked go/types",
        "typematch (Type.Is patterns) and xtypes are C10/C14's subject; here only closed patterns and five variable shapes are used",
        "gogrep delivers the captures; harness/internal/filt site attribution by position",
    ]
    c.notes += [
        "weak rows of the fact table (oracle answers 'either' and makes no claim): Pure outside the whitelisted node kinds, "
        "ConstSlice of arrays/structs/named constants, HasPointers of generic/zero-length/type-parameter types, SinkType patterns "
        "with variables where there is no sink, Underlying().Is(interface{}) of a constrained type parameter",
        "statement captures are compared with the model only (the documentation speaks about expressions)",
    ]

    build_own_theories(c, "Base/Outcome.v", "Filters/FilterIR.v", "Filters/FilterAlgebra.v", "Filters/Predicates.v", "Filters/FilterEval.v", "Filters/ExprFacts.v", "Filters/FileFacts.v", "Filters/ValueSources.v", "Filters/LoaderState.v")
    c.require_theories("Base/Outcome.v", "Filters/FilterIR.v", "Filters/FilterAlgebra.v", "Filters/Predicates.v", "Filters/FilterEval.v", "Filters/ExprFacts.v", "Filters/FileFacts.v", "Filters/ValueSources.v", "Filters/LoaderState.v")

    # ---- P
    gen_ok = False
    g1 = c.go2coq("filtertables", "Gen_FilterTables.v")
    g2 = c.go2coq("filterpreds", "Gen_FilterPreds.v")
    if g1 and g2:
        gen_ok = c.coq_compile(["Gen_FilterTables.v", "Gen_FilterPreds.v"])
        if gen_ok:
            c.install_tmpl("C02/Inst_C02.v", "C02/C02.v")
            c.coq_compile(["Inst_C02.v", "C02.v"])
    lifted = {}
    if g2:
        for m in re.finditer(r'\("(make[\w/]+)", \{\| ci_list := (true|false)', open(os.path.join(c.gen, "Gen_FilterPreds.v")).read()):
            lifted[m.group(1)] = m.group(2) == "true"

    c.log("obligations done")
    hb = c.build_harness("c02")
    if hb is None:
        return c.finish()

    state = {"n": 0}
    model_in = {}
    family_cov = {}

    OBJECT_KINDS = ["Func", "Var", "Const", "TypeName", "Label", "PkgName", "Builtin", "Nil"]
    SINK_PATTERNS = ["int", "int64", "interface{}", "string"]

    def compare_helpers(rules, alias):
        """K for the syntactic helpers: is_pure / is_constant_slice / object_is / object_is_global / find_sink of
        RG.Filters.ExprFacts, executed on every probe expression and sink context, against the engine's verdicts."""
        gex, gsi = model_in.get(alias, ([], []))
        if not gen_ok or not gex or not gsi:
            return
        byname = {}
        for r in rules:
            if r["kind"] in ("single", "root") and not (r.get("load_err") or r.get("panic")):
                byname[(r["name"], r["kind"])] = r
        cols = [("Pure", "single", "is_pure"), ("ConstSlice", "single", "is_constant_slice"), ("Object.IsGlobal", "single", "object_is_global")]
        cols += [("Object.Is:" + k, "single", '(object_is "%s")' % k) for k in OBJECT_KINDS]
        scols = [("SinkType.Is:" + q, "root", '(fun s => String.eqb (find_sink s) "%s")' % q) for q in SINK_PATTERNS]
        src = ["From Coq Require Import List Bool String.", "From RG.Filters Require Import FilterIR Predicates ExprFacts.",
               "Import ListNotations. Local Open Scope string_scope.",
               "Definition exprs : list gexpr := [", ";\n".join(g["coq"] for g in gex), "].",
               "Definition sinks : list sink_parent := [", ";\n".join(g["coq"] for g in gsi), "]."]
        wanted = []
        for i, (name, kind, fn) in enumerate(cols + scols):
            r = byname.get((name, kind))
            if r is None:
                continue
            inputs = gex if kind == "single" else gsi
            if [o["site"] for o in r["obs"]] != [g["site"] for g in inputs]:
                c.obligation("harness-sanity:model-inputs-aligned", False, "%s: the probe sites of the rule and the model inputs differ" % name)
                return
            src.append("Definition RES%d := Eval vm_compute in map %s %s." % (i, fn, "exprs" if kind == "single" else "sinks"))
            src.append("Print RES%d." % i)
            wanted.append((i, name, r, inputs))
        ok, out = c.coq_eval("Helpers_%s.v" % alias, "\n".join(src), timeout=600)
        if not ok:
            c.obligation("coq-eval:Helpers_%s.v" % alias, False, out[-2000:])
            return
        for i, name, r, inputs in wanted:
            m = re.search(r"RES%d\s*=\s*\[(.*?)\]\s*:\s*list bool" % i, out, re.S)
            if not m:
                c.obligation("coq-eval-parse:Helpers_%s.v" % alias, False, out[-1500:])
                return
            pred = [x.strip() == "true" for x in m.group(1).split(";")] if m.group(1).strip() else []
            if len(pred) != len(r["obs"]):
                c.obligation("coq-eval-parse:Helpers_%s.v" % alias, False, "RES%d has %d entries for %d sites" % (i, len(pred), len(r["obs"])))
                return
            for o, pv, g in zip(r["obs"], pred, inputs):
                if o["verdict"] != pv:
                    c.fail("corr", "engine verdict of %s differs from the Coq model of the helper (RG.Filters.ExprFacts)" % name,
                           input={"where": r["src"], "pattern": r["pattern"], "gotypesalias": alias, "site": o["site"], "model_input": g["coq"]},
                           expected=pv, observed=o["verdict"])
            c.coverage["helper_model_cases"] = c.coverage.get("helper_model_cases", 0) + len(pred)

    def cstr(s):
        for ch in s:
            if ord(ch) < 32 or ord(ch) > 126:
                raise ValueError("non printable in %r" % s)
        return '"' + s.replace('"', '""') + '"'

    def compare_imports(rules, alias):
        """K for File().Imports: RG.Filters.FileFacts.file_imports over the spellings of a file's import path literals (with
        strconv.Unquote's answers as a table) against the engine's verdict, for every import-spelling file and path."""
        files = model_in.get(("impfiles", alias)) or []
        irules = [r for r in rules if r["kind"] == "imports" and not r["name"].startswith("!") and not (r.get("load_err") or r.get("panic"))]
        if not gen_ok or not files or not irules:
            return
        table = {}
        for f in files:
            for lit, val in f["specs"]:
                table[lit] = val
        src = ["From Coq Require Import List Bool String.", "From RG.Filters Require Import FilterIR FileFacts.",
               "Import ListNotations. Local Open Scope string_scope.",
               "Definition unq (s : string) : option string := assoc s [%s]." % "; ".join("(%s, %s)" % (cstr(k), cstr(v)) for k, v in sorted(table.items())),
               "Definition files : list (list string) := [%s]." % ";\n ".join("[" + "; ".join(cstr(lit) for lit, _ in f["specs"]) + "]" for f in files),
               "Definition cases : list (nat * string * list bool) := ["]
        rows = []
        for k, r in enumerate(irules):
            if len(r["obs"]) != len(files):
                c.obligation("harness-sanity:import-files-aligned", False, "%s: %d observations for %d files" % (r["name"], len(r["obs"]), len(files)))
                return
            rows.append("(%d%%nat, %s, [%s])" % (k, cstr(r["name"][len("File.Imports:"):]), "; ".join(coq_bool(o["verdict"]) for o in r["obs"])))
        src.append(";\n".join(rows) + "].")
        src.append("Definition RES := Eval vm_compute in flat_map (fun c => match c with (k, p, vs) => "
                   "map (fun x => (k, fst x)) (filter (fun x => negb (Bool.eqb (file_imports unq (fst (snd x)) p) (snd (snd x)))) "
                   "(combine (seq 0 (List.length files)) (combine files vs))) end) cases.")
        src.append("Print RES.")
        ok, out = c.coq_eval("Imports_%s.v" % alias, "\n".join(src), timeout=600)
        if not ok:
            c.obligation("coq-eval:Imports_%s.v" % alias, False, out[-2000:])
            return
        m = re.search(r"RES\s*=\s*(.*?)\s*:\s*list \(nat \* nat\)", out, re.S)
        if not m:
            c.obligation("coq-eval-parse:Imports_%s.v" % alias, False, out[-2000:])
            return
        for a, b in re.findall(r"\((\d+), (\d+)\)", m.group(1)):
            r, f = irules[int(a)], files[int(b)]
            c.fail("corr", "engine verdict of File().Imports differs from the model's file_imports over the file's import path literals",
                   input={"where": r["src"], "file": f["name"], "import_path_literals": [lit for lit, _ in f["specs"]], "gotypesalias": alias},
                   observed=r["obs"][int(b)]["verdict"])
        c.coverage["imports_model_cases"] = c.coverage.get("imports_model_cases", 0) + len(irules) * len(files)

    def cstr_nl(s):
        for ch in s:
            if (ord(ch) < 32 and ch not in "\n\t") or ord(ch) > 126:
                raise ValueError("non printable in %r" % s)
        return '"' + s.replace('"', '""') + '"'

    def compare_edge_text(rules, alias):
        """K for the Text of a capture: RG.Filters.ValueSources.node_text over the file's bytes, the capture's extent and what
        go/printer prints for it, compared with `Text == c` verdicts of the edge family (captures that end at the last byte of
        their file, files with unusual byte layouts)."""
        files = model_in.get(("edgefiles", alias)) or []
        erules = [r for r in rules if r["kind"] == "edge" and r["name"].startswith("Text:EQL") and not (r.get("load_err") or r.get("panic"))]
        if not gen_ok or not files or not erules:
            return
        usable = {f["index"] for f in files if f.get("ascii")}
        cases, seen = [], set()
        for r in erules:
            for o in r["obs"]:
                fi, a, b = o["ext"]
                key = (fi, a, b, r["const"])
                if fi not in usable or key in seen:
                    continue
                try:
                    row = "(%d%%nat, %d%%nat, %d%%nat, %s, %s, %s)" % (fi, a, b, cstr_nl(o.get("printed", "")), cstr_nl(r["const"]), coq_bool(o["verdict"]))
                except ValueError:
                    continue
                seen.add(key)
                cases.append((row, r, o))
        if not cases:
            return
        byidx = {f["index"]: f for f in files}
        n = max(byidx) + 1
        src = ["From Coq Require Import List Bool String Arith.", "From RG.Filters Require Import FilterIR ValueSources.",
               "Import ListNotations. Local Open Scope string_scope."]
        for i in range(n):
            src.append("Definition file%d : string := %s." % (i, byidx[i]["coq"] if i in usable else '""'))
        src.append("Definition files : list string := [%s]." % "; ".join("file%d" % i for i in range(n)))
        src.append("Definition cases : list (nat * nat * nat * string * string * bool) := [")
        src.append(";\n".join(row for row, _, _ in cases) + "].")
        src.append("Definition agrees (x : nat * nat * nat * string * string * bool) : bool := match x with (f, a, b, p, k, v) => "
                   "Bool.eqb (String.eqb (node_text (nth f files \"\") {| tn_from := a; tn_to := b; tn_printed := p |}) k) v end.")
        src.append("Definition RES := Eval vm_compute in map fst (filter (fun x => negb (agrees (snd x))) (combine (seq 0 (List.length cases)) cases)).")
        src.append("Print RES.")
        ok, out = c.coq_eval("EdgeText_%s.v" % alias, "\n".join(src), timeout=600)
        if not ok:
            c.obligation("coq-eval:EdgeText_%s.v" % alias, False, out[-2000:])
            return
        m = re.search(r"RES\s*=\s*(.*?)\s*:\s*list nat", out, re.S)
        if not m:
            c.obligation("coq-eval-parse:EdgeText_%s.v" % alias, False, out[-2000:])
            return
        for x in re.findall(r"\d+", m.group(1)):
            _, r, o = cases[int(x)]
            c.fail("corr", "verdict of `Text == c` differs from the model's node_text (the bytes of the capture's extent when it lies inside the readable file) compared with c",
                   input={"where": r["src"], "pattern": r["pattern"], "site": o["site"], "printed_form": o.get("printed", "")}, observed=o["verdict"])
        c.coverage["edge_text_model_cases"] = c.coverage.get("edge_text_model_cases", 0) + len(cases)

    def observe(alias, only=None):
        args = ["-tmp", os.path.join(c.work, "tmp" + alias)]
        if alias == "0":
            args += ["-edges"]     # Text on captures at the edges of files: the text of a capture does not depend on the alias mode
            args += ["-families", "defs,subpat"]   # declaring identifiers, Contains() sub-patterns of every root kind: no types involved
        else:
            args += ["-families", "tpat"]          # type patterns with variables (the catalogue has an alias among its element types)
        if only:
            args += ["-only", only]
        rc, out = c.run_harness(hb, args, timeout=1200, env={"GODEBUG": "gotypesalias=%s" % alias})
        rules = [json.loads(l) for l in out.splitlines() if l.startswith('{"k":"rule"')]
        if rc != 0 or not rules:
            c.obligation("harness-run:c02(gotypesalias=%s)" % alias, False, out[-3000:])
        model_in[alias] = ([json.loads(l) for l in out.splitlines() if l.startswith('{') and '"k":"gexpr"' in l],
                           [json.loads(l) for l in out.splitlines() if l.startswith('{') and '"k":"gsink"' in l])
        model_in[("edgefiles", alias)] = [json.loads(l) for l in out.splitlines() if l.startswith('{') and '"k":"edgefile"' in l]
        model_in[("impfiles", alias)] = [json.loads(l) for l in out.splitlines() if l.startswith('{"index"') or (l.startswith('{') and '"k":"impfile"' in l)]
        for l in out.splitlines():
            if l.startswith('{') and '-cov"' in l[:40]:
                d = json.loads(l)
                family_cov[d["k"]] = d
        return rules

    def expected(o):
        f = o["facts"]
        if o["shape"] in ("one", "root", "exprstmt"):
            return f[0] if f else 2
        if o["shape"] == "list":
            if 0 in f:
                return 0
            return 2 if 2 in f else 1
        return 2

    def list_class(facts):
        """which element decides a `for every element` verdict: the catalogue must contain, for every constructor with a list
        branch, lists where only the first / only the last / a middle element fails, and lists of >= 2 that all hold"""
        if 2 in facts or len(facts) < 2:
            return None
        if all(facts):
            return "all-hold"
        if not facts[0] and all(facts[1:]):
            return "only-first-fails"
        if not facts[-1] and all(facts[:-1]):
            return "only-last-fails"
        if len(facts) >= 3 and facts[0] and facts[-1]:
            return "only-middle-fails"
        return None

    LIST_CLASSES = ("all-hold", "only-first-fails", "only-last-fails", "only-middle-fails")
    list_cov = {}

    def compare(rules, alias):
        state["n"] += 1
        tuples = {}
        for r in rules:
            if r["kind"] in ("list", "tail") and lifted.get(r["ctor"]) and not (r.get("load_err") or r.get("panic")):
                for o in r["obs"]:
                    k = list_class(o["facts"])
                    if k:
                        list_cov.setdefault(r["ctor"], set()).add(k)
            inp = {"where": r["src"], "pattern": r["pattern"], "gotypesalias": alias}
            if r.get("refusable") and r.get("load_err") and not r.get("panic"):
                # an ordering comparison with the constant on the left: refusing it is fine, accepting it with another meaning is not
                c.count()
                c.coverage["refused_constant_on_the_left"] = c.coverage.get("refused_constant_on_the_left", 0) + 1
                continue
            if r.get("load_err") or r.get("panic"):
                c.count()
                c.fail("oracle", "a documented predicate %s" % ("is refused at load" if r.get("load_err") else "crashes the run"),
                       input=inp, observed=r.get("load_err") or r.get("panic"), expected="a verdict per probe site")
                continue
            ctor = r["ctor"]
            c.count(r.get("elided_no", 0))
            for o in r["obs"]:
                c.count()
                exp = expected(o)
                site = dict(inp, site=o["site"], shape=o["shape"])
                if o.get("gover"):
                    site["go_version"] = o["gover"]
                if r["kind"] != "stmt" and exp != 2:
                    c.nontriv((r["name"], r["kind"], o["site"], o.get("gover", "")))
                    if bool(exp) != o["verdict"]:
                        fid = None
                        if r["kind"] in ("list", "tail") and lifted.get(ctor) is False:
                            # known finding guard: a `$*xs` capture under a constructor without a list branch, and the
                            # faithful model (answer for "no expression" resp. for the slice node) reproduces the verdict
                            faithful = o["node"] if r["mode"] == "node" else o["nil"]
                            if faithful != 2 and bool(faithful) == o["verdict"]:
                                fid = FINDING_LIST
                        c.fail("oracle", "verdict of %s contradicts the documented fact%s" % (
                            r["name"], " for every element of $*xs" if o["shape"] == "list" else ""),
                            input=site, expected=bool(exp), observed=o["verdict"], finding=fid)
                if o.get("detached") is not None and o["detached"] != o["verdict"]:
                    c.fail("oracle", "verdict of %s depends on whether the file's bytes can be read back from disk (same source, same name, "
                           "analysed from memory with nothing saved at its path)" % r["name"], input=site,
                           expected={"as on the saved file": o["verdict"]}, observed={"in memory": o["detached"]})
                # K tuple
                if r["kind"] in ("list", "tail", "stmt", "single", "first", "second", "seq", "pair", "file", "imports", "dollar", "edge", "tpat", "defs", "subpat") and ctor in lifted:
                    shape = {"one": 0, "exprstmt": 1, "stmt": 2, "list": 3}.get(o["shape"])
                    if shape is None or 2 in o["facts"]:
                        continue
                    nil = o["nil"]
                    node = o["node"]
                    if r["mode"] == "node":
                        if shape in (1, 2, 3) and node in (2, -1):
                            continue
                        nil = 0
                    else:
                        node = 0
                        if nil == 2:
                            continue
                    key = (ctor, shape, tuple(o["facts"]), nil, max(node, 0), o["verdict"])
                    tuples.setdefault(key, site)
        if not gen_ok:
            return
        keys = sorted(tuples)
        src = ["From Coq Require Import List ZArith Bool String.", "From RG.Base Require Import Outcome.",
               "From RG.Filters Require Import FilterIR Predicates.", "From RGW Require Import Gen_FilterPreds.",
               "Import ListNotations. Local Open Scope string_scope.",
               "Definition shape_of (s : nat) (fs : list bool) : capture bool :=",
               "  match s with O => CapExpr (hd false fs) | 1%nat => CapExprStmt (hd false fs) | 2%nat => CapNode | _ => CapList fs end.",
               "Definition agrees (x : Z * string * nat * list bool * bool * bool * bool) : bool :=",
               "  match x with (i, ctor, s, fs, nl, nd, obs) =>",
               "    match assoc ctor gen_ctors with",
               "    | Some ci => Bool.eqb (pred_eval bool (fun b => b) nl (fun _ => nd) ci (shape_of s fs)) obs",
               "    | None => false end end.",
               "Definition cases : list (Z * string * nat * list bool * bool * bool * bool) := ["]
        src.append(";\n".join('(%d%%Z, "%s", %d%%nat, [%s], %s, %s, %s)' % (
            i, k[0], k[1], "; ".join(coq_bool(bool(b)) for b in k[2]), coq_bool(bool(k[3])), coq_bool(bool(k[4])), coq_bool(k[5]))
            for i, k in enumerate(keys)))
        src.append("].")
        src.append("Definition RES := Eval vm_compute in map (fun x => fst (fst (fst (fst (fst (fst x)))))) (filter (fun x => negb (agrees x)) cases).")
        src.append("Print RES.")
        ok, out = c.coq_eval("Cases_%d.v" % state["n"], "\n".join(src), timeout=900)
        if not ok:
            c.obligation("coq-eval:Cases_%d.v" % state["n"], False, out[-2000:])
            return
        m = re.search(r"RES\s*=\s*(.*?)\s*:\s*list Z", out, re.S)
        if not m:
            c.obligation("coq-eval-parse:Cases_%d.v" % state["n"], False, out[-2000:])
            return
        for x in re.findall(r"\d+", m.group(1)):
            k = keys[int(x)]
            c.fail("corr", "engine verdict differs from the model's pred_eval for constructor %s" % k[0], input=tuples[k],
                   expected="model on facts=%s nil=%s node=%s" % (list(k[2]), k[3], k[4]), observed=k[5])
        c.coverage.setdefault("model_vs_impl_cases", 0)
        c.coverage["model_vs_impl_cases"] += len(keys)
        for k in keys[len(keys) // 2:len(keys) // 2 + 2]:
            c.sample({"ctor": k[0], "shape": k[1], "facts": list(k[2]), "verdict": k[5], "site": tuples[k].get("site")})

    from concurrent.futures import ThreadPoolExecutor
    with ThreadPoolExecutor(2) as ex:      # the two alias modes are observed side by side (own scratch directories)
        observed = dict(zip(("0", "1"), ex.map(observe, ("0", "1"))))
    for alias in ("0", "1"):
        rules = observed[alias]
        c.log("observed %d rules (gotypesalias=%s)" % (len(rules), alias))
        compare(rules, alias)
        compare_helpers(rules, alias)
        compare_imports(rules, alias)
        compare_edge_text(rules, alias)
        c.log("compared (gotypesalias=%s)" % alias)
    missing = {k: sorted(set(LIST_CLASSES) - v) for k, v in list_cov.items() if set(LIST_CLASSES) - v}
    for k in sorted(k for k, v in lifted.items() if v and k not in list_cov):
        missing[k] = list(LIST_CLASSES)
    c.coverage["list_capture_classes"] = {k: sorted(v) for k, v in sorted(list_cov.items())}
    if missing and g2:
        c.obligation("harness-sanity:list-capture-catalogue", False,
                     "constructors with a `$*xs` branch for which the catalogue has no list of some deciding-element class: %r" % missing)
    # ---- the located families (harness/cmd/c02/{tpat,defs,subpat}.go): what their catalogues must contain
    if g2:
        tp = family_cov.get("tpat-cov", {})
        cells = tp.get("told_apart", {})
        weak = sorted(k for k, v in cells.items() if not v)
        if not cells or weak or len(cells) < 11:
            c.obligation("harness-sanity:type-pattern-catalogue", False,
                         "the type-pattern catalogue must tell the reference (all assignments of the variables) from every wrong matcher "
                         "(bindings never undone, only the shortest / longest `$*_` run) in parameter, result and field lists; "
                         "cells: %r, empty: %r" % (cells, weak))
        df = family_cov.get("defs-cov", {}).get("roles", {})
        need = ["declares " + k for k in ("Var", "Func", "Const", "TypeName", "Label")] + ["declares no object none", "refers to Var", "refers to Func", "refers to PkgName", "refers to Label"]
        miss = [k for k in need if not df.get(k)]
        if miss:
            c.obligation("harness-sanity:declaring-identifier-catalogue", False, "no captured identifier that %r (have %r)" % (miss, df))
        # Object.IsVariadicParam: uses of a variadic parameter inside function literals nested in its function (1-3 deep), of a
        # method / of a literal, names that shadow it; "the innermost function only" must be told from the reference at every depth
        vc = family_cov.get("defs-cov", {}).get("variadic", {})
        need = ["variadic parameter, %d function literals between use and function" % d for d in (0, 1, 2, 3)] + \
               ["innermost-only oracle differs at depth %d" % d for d in (1, 2, 3)] + \
               ["variadic parameter of a method", "variadic parameter of a function literal",
                "named like a variadic parameter of a function around it, denotes another object"]
        miss = [k for k in need if not vc.get(k)]
        if miss:
            c.obligation("harness-sanity:variadic-param-catalogue", False, "no captured identifier for %r (have %r)" % (miss, vc))
        c.coverage["variadic_param_uses"] = vc
        sp = family_cov.get("subpat-cov", {})
        kinds = sp.get("root_kinds", {})
        need = ["statement run", "expression run", "expression run over captured variables", "range clause", "range header", "expression", "statement", "declaration", "type expression"]
        miss = [k for k in need if not kinds.get(k)]
        onesided = sorted(k for k, v in sp.get("sites_yes_no", {}).items() if not (v[0] and v[1]))
        if miss or onesided or not sp:
            c.obligation("harness-sanity:contains-subpattern-catalogue", False,
                         "Contains() sub-patterns: root kinds without a sub-pattern %r; sub-patterns without both a capture that contains a match and one that does not %r" % (miss, onesided))
        c.coverage["type_pattern_catalogue"] = {"patterns": tp.get("patterns"), "types": tp.get("types"), "told_apart_from_wrong_matchers": cells}
        c.coverage["declaring_identifier_roles"] = df
        c.coverage["contains_subpattern_root_kinds"] = kinds
    c.coverage["gotypesalias_modes"] = 2
    c.coverage["exhaustive"] = False
    c.coverage["constructors_with_list_branch"] = sorted(k for k, v in lifted.items() if v)

    def search():
        # the catalogue is deterministic; a broken obligation is looked for with the same sweep (already done above)
        pass

    c.finish(search=search)
