"""C18 -- local helper functions and constant expressions in rules files are transparent.

P: expandMacro / localDefine / findLocalMacro / convertRuleGroup / ConvertFile / toStringValue / convertFilterExpr, the path table
   of convertFilterExprImpl, every write of the helper table conv.groupFuncs and the place of its reset are regenerated from
   /repo (go2coq macroshape); the theorems (a filter with helper calls -- nested, any table -- converts to what the hand-inlined
   expression converts to, or Load fails; every group converts as if it were alone in the file; outside helper bodies only the
   folded constant matters) are stated over the regenerated tables.
K: every generated rules file (several groups, helper definitions and rules in statement order) is also printed as a term of
   the Coq model; the model's verdict (some rule rejected / every rule equal to the conversion of its inlined form) is computed
   with vm_compute and compared with what irconv did.
O: the property itself: one abstract file rendered (a) with helpers and (b) manually inlined by the generator's own inliner; both
   converted and loaded; (a) must fail to load or have the same IR (Src/Line normalised) and the same reports on a probe
   file; every constant spelling of a string / int argument must give the IR and reports of the plain literal.
"""
import json
import os
import re


def run(c):
    thorough = c.tier == "thorough"
    c.go2coq_sources = ["load.go", "load_ops.go"]
    c.rule = ("helper cases: a rules file of 1-3 groups (matcher named m/mt/q), each with 1-3 local helpers named f/g/h (so later groups "
              "redefine the names of earlier ones with other bodies and parameter lists), 0-6 params of type dsl.Var/string/int/dsl.Matcher in any "
              "order (possibly named like a selected field or the matcher), bodies of 1-3 atoms out of 26 filter expressions (one- and two-variable, "
              "matcher-level, custom filter function) with constants in every literal spelling "
              "(decimal, hex, legacy octal 0644, 0o, 0b, underscores; raw/concat/named/parenthesised/arith/float), nested calls of earlier "
              "helpers, rules between the definitions, arguments spelled as literals, parenthesised, or as named constants -- preferably ones "
              "spelled like a parameter of the called helper --, package-level variables, group-level constants that shadow package-level ones, "
              "a package-level function named like an earlier group's helper, helpers called several times with other arguments, blank parameters in "
              "every position (one field per parameter or grouped), helper bodies that name package-level / group-level / shadowing group-level "
              "constants in every string and int argument position; higher-order helpers (a parameter of function type called in the body, spelled like nothing else / like a helper of the group / like "
              "the higher-order helper itself; the argument is another helper, defined before or after; one file in eight also has a helper that hands pa / pb on to the "
              "higher-order helper at a place where the name still means the package-level function variable -- the helper of the group is "
              "defined later --, or already means the helper); a fixed catalogue of 83 shapes with "
              "hand-written twins (incl. package-level functions / function variables handed to higher-order helpers as ARGUMENTS inside a helper, in "
              "Where(), through two higher-order helpers, as second argument, through a parameter of their own name, with the equal-named helper "
              "of the group defined later / before / in between / in the previous group; and files of 2-3 groups that spell their Where() alike over equal-named constants / helpers that mean "
              "something else in each group); const cases: a fixed catalogue -- every class of outermost node of a constant expression (literal, name, parenthesis, unary, binary, "
              "CALL: conversions, len; SELECTOR: a constant of an imported package) in every position that reads a constant (13 filter arguments "
              "and comparison operands read by the constant-first step of convertFilterExprImpl; 14 read by toStringValue / parseStringArg: variable "
              "names, Contains, File() predicates, GoVersion, Match / MatchComment patterns, Report, Suggest, At, Import; 6 int positions): call- and "
              "selector-rooted spellings in every position in every run, a third of the other pairs rotating with the seed --, then "
              "one randomly spelled argument vs its plain literal, and files of 2-3 groups with ONE Where() text "
              "over the constant names kT / kN / kV / kP to which every group gives its own values (declared in the group or left to the package "
              "level; also as arguments of an equal-named helper) vs the same file with literals; distinct "
              "by source text; non-trivial when (a) loads (equality is really compared) or the spelling is not a plain literal")
    c.trusted += [
        "go2coq macroshape (pinned statement lists, path table of convertFilterExprImpl, scan of the writes of conv.groupFuncs and of the reset position, "
        "scan of the reads of a Src field in ruleguard/*.go and ruleguard/ir/*.go)",
        "the printer of the type-checked rules file as a model term (harness/cmd/c18/model.go: types.Info.Types values as annotations) and the generator's own inliner",
        "harness/cmd/c18, hook ruleguard.VerifConvertAST",
        "model.go prints an identifier that go/types binds to a package-level function / variable, a builtin or a type under a name no helper "
        "can have (pkg.<name>): the model's lookup by name then is Go's scoping as go/types resolved it",
    ]
    c.notes += ["the conversion model is the control skeleton of convertFilterExprImpl (constant first, then structure, matcher paths by table, "
                "helper lookup / argument check / expansion with the per-group table); loader-level errors are covered by the twin oracle only",
                "[consistent] (a folded string/int constant is a literal, a parenthesised constant or a shape the converter rejects; m[...] is "
                "indexed by a string literal) and [nc]/[env_ok] (a call folded to a constant is not a helper call) are assumptions about "
                "go/types; their boolean versions (proved sound) are evaluated on the annotations go/types produced for every generated file"]

    c.build_theories()
    c.require_theories("Load/Macro.v", "Load/MacroEnv.v")
    g = c.go2coq("macroshape", "Gen_Macro.v")
    gen_ok = False
    if g:
        gen_ok = c.coq_compile(["Gen_Macro.v"])
        if gen_ok:
            c.install_tmpl("C18/Inst_Macro.v", "C18/C18.v")
            gen_ok = c.coq_compile(["Inst_Macro.v"])
            c.coq_compile(["C18.v"])

    hb = c.build_harness("c18")
    if hb is None:
        return c.finish()
    state = {"round": 0}

    def observe(seed, nh, nc, ng=30):
        state["round"] += 1
        rc, out = c.run_harness(hb, ["-seed", str(seed), "-helpers", str(nh), "-consts", str(nc), "-gconsts", str(ng),
                                     "-tmp", os.path.join(c.work, "tmp%d" % state["round"])], timeout=2400)
        cases = []
        for line in out.splitlines():
            if line.startswith("{"):
                try:
                    cases.append(json.loads(line))
                except ValueError:
                    pass
        if rc != 0 or not cases:
            c.obligation("harness-run:c18", False, out[-2000:])
        return cases

    def status(s):
        if s.get("panic"):
            return "panic"
        if s.get("conv_err"):
            return "conv_err"
        if s.get("load_err"):
            return "load_err"
        return "ok"

    def model_verdicts(cases, tag):
        ms = [x for x in cases if x.get("model") and x["kind"] == "helper"]
        cs = [x for x in cases if x.get("model") and x.get("model_b") and x["kind"] == "const"]
        if not gen_ok or not ms:
            return {}
        pre = ["From Coq Require Import List String Ascii Bool ZArith.",
               "From RG.Load Require Import Macro MacroEnv.",
               "From RGW Require Import Gen_Macro Inst_Macro.",
               "Import ListNotations. Local Open Scope string_scope.",
               "Definition verdict := file_verdict."]
        NSH = 6
        jobs = []
        for k in range(NSH):
            sh = ms[k::NSH]
            src = list(pre)
            src.append("Definition RES := Eval vm_compute in [%s]." % ";\n ".join(
                ["(%d, verdict %s)" % (x["id"], x["model"]) for x in sh] +
                ["(%d, const_verdict %s %s)" % (x["id"], x["model"], x["model_b"]) for x in cs[k::NSH]]))
            src.append("Print RES.")
            jobs.append(("Cases_%s_%d.v" % (tag, k), "\n".join(src)))
        out_v = {}
        for (fname, _), (ok, out) in zip(jobs, c.coq_eval_many(jobs, timeout=900)):
            if not ok:
                c.obligation("coq-eval:" + fname, False, out[-2500:])
                return {}
            for m in re.finditer(r"\(\s*(\d+),\s*(\d+)\s*\)", re.sub(r"\s+", " ", out)):
                out_v[int(m.group(1))] = int(m.group(2))
        if len(out_v) != len(ms) + len(cs):
            c.obligation("coq-eval-parse:" + tag, False, "got %d verdicts for %d cases" % (len(out_v), len(ms) + len(cs)))
        return out_v

    def judge(cases, tag):
        verdict = model_verdicts(cases, tag)
        nsample = 0
        for x in cases:
            c.count()
            a, b = x["a"], x["b"]
            sa, sb = status(a), status(b)
            inp = {"kind": x["kind"], "id": x["id"], "with_helpers_or_spelling": x["src_a"], "inlined_or_literal": x["src_b"]}
            if sa == "panic" or sb == "panic":
                c.fail("oracle", "Load panics on a rules file with a local helper / constant expression", input=inp, observed=a.get("panic") or b.get("panic"),
                       expected="nil or an error")
                continue
            for s_, side in (("a", a), ("b", b)):
                if side.get("run_problem"):
                    c.fail("oracle", "Run fails for an accepted rule", input=inp, observed=side["run_problem"], expected="reports")
            if x["kind"] == "helper":
                if sa == "ok":
                    c.nontriv(x["src_a"])
                    if sb != "ok" or not x["ir_equal"] or a.get("reports") != b.get("reports"):
                        c.fail("oracle", "a group with local helpers / named constants loads with a meaning different from the same group written out "
                               "(helpers inlined, constants as literals)" + (": Go's reading of it calls a package-level function and is not a loadable rule" if x.get("twin_rejected") or x.get("pkg_before") or x.get("pkg_arg") else ""), input=inp,
                               observed={"ir": a.get("ir"), "reports": a.get("reports")},
                               expected={"ir": b.get("ir"), "reports": b.get("reports"), "inlined_status": b.get("conv_err") or b.get("load_err") or "ok"})
                if x["id"] in verdict and not (sa == "conv_err" and not (a.get("conv_err") or "").startswith("irconv error")):
                    v = verdict[x["id"]]
                    conv_failed = sa == "conv_err" and (a.get("conv_err") or "").startswith("irconv error")
                    if v == 0 and not conv_failed:
                        c.fail("corr", "the Coq model rejects the helper expansion but irconv converted it", input=inp, observed=sa)
                    elif v == 1 and (conv_failed or (a.get("ir") and b.get("ir") and not x["ir_equal"])):
                        c.fail("corr", "the Coq model converts the helper expansion to the inlined IR but irconv does not", input=inp,
                               observed=a.get("conv_err") or a.get("ir"))
                    elif v == 4:
                        c.fail("corr", "a hypothesis of the theorem (consistent / nc / env_ok) does not hold for the annotations go/types produced for this file",
                               input=inp, observed=v)
                    elif v >= 2:
                        c.fail("corr", "the Coq model itself yields different conversions for the expansion and the inlined expression", input=inp, observed=v)
            else:
                plain = x.get("spelling", "")
                if not re.fullmatch(r'"[^"]*"|\d+', plain or ""):
                    c.nontriv(x["src_a"])
                if sb == "ok" and (sa != "ok" or not x["ir_equal"] or a.get("reports") != b.get("reports")):
                    c.fail("oracle", "a constant expression does not behave like the equivalent plain literal", input=inp,
                           observed={"status": a.get("conv_err") or a.get("load_err") or "ok", "ir": a.get("ir"), "reports": a.get("reports")},
                           expected={"ir": b.get("ir"), "reports": b.get("reports")})
                elif sb != "ok" and sa == "ok":
                    c.fail("oracle", "a constant expression is accepted where the equivalent plain literal is rejected", input=inp,
                           observed="ok", expected=b.get("conv_err") or b.get("load_err"))
                if x["id"] in verdict and b.get("ir") and not (sa == "conv_err" and not (a.get("conv_err") or "").startswith("irconv error")):
                    # the model's constant-first step on the annotations go/types produced for both files against the converter
                    v = verdict[x["id"]]
                    conv_failed = sa == "conv_err"
                    if v == 1 and (conv_failed or not x["ir_equal"]):
                        c.fail("corr", "the Coq model converts the spelled constant to what the plain literal converts to but irconv does not", input=inp,
                               observed=a.get("conv_err") or a.get("ir"))
                    elif v == 0 and not conv_failed:
                        c.fail("corr", "the Coq model rejects the spelled constant but irconv converted it", input=inp, observed=sa)
                    elif v == 2 and x["ir_equal"]:
                        c.fail("corr", "the Coq model converts the spelled constant and the plain literal differently but irconv converts them alike", input=inp, observed=v)
                    c.coverage["model_vs_impl_const_cases"] = c.coverage.get("model_vs_impl_const_cases", 0) + 1
            if nsample < 4 and x["kind"] == "helper" and (sa == "ok") == (nsample % 2 == 0):
                nsample += 1
                c.sample({"with_helpers": "func g0" + x["src_a"].split("func g0", 1)[1], "inlined": "func g0" + x["src_b"].split("func g0", 1)[1],
                          "status": sa, "error": a.get("conv_err") or a.get("load_err"), "reports": a.get("reports")})
        hs = [x for x in cases if x["kind"] == "helper"]
        fixed = [x for x in hs if x.get("fixed")]
        if fixed:
            # the hand-written twins of the fixed catalogue are meaningful: each loads and reports on the probe file
            dead = [x["fixed"] for x in fixed if not x.get("crash") and not x.get("twin_rejected") and (status(x["b"]) != "ok" or not x["b"].get("reports"))]
            # ... except where Go's reading of the group is not a loadable rule (a helper calls a package-level function): that twin is rejected
            dead += [x["fixed"] for x in fixed if not x.get("crash") and x.get("twin_rejected") and status(x["b"]) == "ok"]
            c.obligation("fixed-twins-meaningful:" + tag, not dead, "inlined twins that do not load or do not report (or load although they call a "
                         "package-level function): %s" % dead, count=1)
            c.coverage["fixed_twin_cases"] = c.coverage.get("fixed_twin_cases", 0) + len(fixed)
            c.coverage["fixed_twin_cases_loaded"] = c.coverage.get("fixed_twin_cases_loaded", 0) + sum(1 for x in fixed if status(x["a"]) == "ok")
        c.coverage["helper_cases"] = c.coverage.get("helper_cases", 0) + len(hs)
        c.coverage["helper_loaded_and_equal"] = c.coverage.get("helper_loaded_and_equal", 0) + sum(1 for x in hs if status(x["a"]) == "ok")
        c.coverage["helper_rejected"] = c.coverage.get("helper_rejected", 0) + sum(1 for x in hs if status(x["a"]) != "ok")
        c.coverage["unhygienic_param_cases"] = c.coverage.get("unhygienic_param_cases", 0) + sum(1 for x in hs if x.get("unhygienic"))
        c.coverage["nested_cases"] = c.coverage.get("nested_cases", 0) + sum(1 for x in hs if x.get("nested"))
        for key, fld in (("several_groups_cases", None), ("same_helper_name_in_two_groups", "same_name"), ("argument_spelled_like_a_parameter", "param_named"),
                         ("legacy_octal_in_helper_body", "octal"), ("package_func_named_like_helper", "pkg_func"),
                         ("helper_called_more_than_once", "twice"), ("helper_with_blank_param", "blank"),
                         ("helper_with_blank_param_before_named", "blank_first"), ("helper_body_names_constant", "const_body"),
                         ("helper_body_names_shadowed_constant", "shadow_body"), ("helper_calls_package_function_named_like_a_later_helper", "pkg_before"), ("higher_order_helper", "higher_order"), ("package_function_passed_to_a_higher_order_helper_named_like_a_later_helper", "pkg_arg"),
                         ("higher_order_parameter_named_like_a_helper", "higher_named")):
            for tag, pred in (("", lambda x: True), ("_loaded", lambda x: status(x["a"]) == "ok")):
                c.coverage[key + tag] = c.coverage.get(key + tag, 0) + sum(
                    1 for x in hs if pred(x) and (x.get("groups", 1) > 1 if fld is None else x.get(fld)))
        c.coverage["const_cases"] = c.coverage.get("const_cases", 0) + len(cases) - len(hs)
        cat = [x for x in cases if x.get("spell_catalogue")]
        c.coverage["spelling_catalogue_cases"] = c.coverage.get("spelling_catalogue_cases", 0) + len(cat)
        c.coverage["spelling_catalogue_call_or_selector_rooted"] = c.coverage.get("spelling_catalogue_call_or_selector_rooted", 0) + sum(
            1 for x in cat if re.search(r"conversion|len of|imported package", x["spell_catalogue"]))
        c.coverage["spelling_catalogue_loaded_and_equal"] = c.coverage.get("spelling_catalogue_loaded_and_equal", 0) + sum(
            1 for x in cat if status(x["a"]) == "ok" and x["ir_equal"])
        gcs = [x for x in cases if x.get("group_consts")]
        c.coverage["equal_named_group_constants_cases"] = c.coverage.get("equal_named_group_constants_cases", 0) + len(gcs)
        c.coverage["equal_named_group_constants_loaded"] = c.coverage.get("equal_named_group_constants_loaded", 0) + sum(1 for x in gcs if status(x["a"]) == "ok")
        c.coverage["model_vs_impl_cases"] = c.coverage.get("model_vs_impl_cases", 0) + len(verdict)
        c.coverage["outside_model_cases"] = c.coverage.get("outside_model_cases", 0) + sum(1 for x in hs if x.get("outside_model"))

    if thorough:
        for k in range(3):
            judge(observe(c.seed * 37 + k, 1000, 400, 200), "t%d" % k)
    else:
        judge(observe(c.seed, 260, 80), "main")

    def search():
        for k in range(1, 4):
            judge(observe(c.seed * 2003 + k, 900, 400, 200), "s%d" % k)
            if any(f["kind"] == "oracle" and not f.get("finding") for f in c.failures):
                break

    c.coverage["exhaustive"] = False
    c.finish(search=search)
