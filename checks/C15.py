"""C15 -- interpolated text is shortened only when it exceeds TruncateLen.

P: truncateText's body, the effective-length rule and the renderMessage call sites are regenerated from
   /repo (go2coq leaf / c15extras) and the theorems of coq/tmpl/C15 are re-proved against them.
K: the regenerated Coq function is evaluated (vm_compute) on the same (text, maxLen) cases as the real
   truncateText (hook VerifTruncateText) and the results are diffed.
O: the proven-sound executable specification `shown_oracle` is compared with the real function and with
   engine-level Report/Suggest output.
"""
import json
import os

from vlib import coq_bytes


def mk_bytes(n):
    return [i % 256 for i in range(n)]


def classify(n, L):
    if n <= L:
        return "fits"
    if L >= 5:
        return "cut"
    return "tiny" if L >= 0 else "negative"


def run(c):
    thorough = c.tier == "thorough"
    c.rule = ("direct: truncateText on texts of distinct bytes, every length 0..N x every maxLen -8..N plus random long/extreme "
              "pairs; engine: Report/Suggest of string literals of every length under 30+ TruncateLen values; a case is "
              "non-trivial and distinct by (regime fits/cut/tiny/negative, length, maxLen)")
    c.trusted += [
        "go2coq leaf translator (Go statement list -> Gallina in the outcome monad; Go int = Z with explicit wrap64)",
        "slices modelled with cap = len (every modelled caller passes such slices)",
        "harness/cmd/c15 and hook ruleguard.VerifTruncateText (build tag verif)",
    ]
    c.notes += ["go/parser, go/types and gogrep deliver the captured text (trusted)"]

    c.go2coq_sources = []   # main.go + leaf.go + c15.go only
    c.build_theories()
    c.require_theories("Base/*.v", "Engine/TruncateSpec.v")

    # ---- P: regenerate and re-prove
    g1 = c.go2coq("leaf", "Gen_Truncate.v", "-file", "ruleguard/runner.go", "-funcs", "truncateText")
    g2 = c.go2coq("c15extras", "Gen_C15Extras.v")
    gen_ok = False
    if g1 and g2:
        gen_ok = c.coq_compile(["Gen_Truncate.v", "Gen_C15Extras.v"])
        if gen_ok:
            c.install_tmpl("C15/Inst_Truncate.v", "C15/C15.v")
            c.coq_compile(["Inst_Truncate.v", "C15.v"])

    # ---- implementation observations
    hb = c.build_harness("c15")
    if hb is None:
        return c.finish()

    def observe(maxn, maxl, nrand, seed):
        rc, out = c.run_harness(hb, ["-maxn", str(maxn), "-maxl", str(maxl), "-rand", str(nrand), "-seed", str(seed),
                                     "-tmp", os.path.join(c.work, "tmp")], timeout=900)
        obs = []
        for line in out.splitlines():
            line = line.strip()
            if line.startswith("{"):
                obs.append(json.loads(line))
        if rc != 0:
            c.obligation("harness-run:c15", False, out[-2000:])
        return obs

    def compare(obs, tag):
        """Evaluate model and oracle inside Coq on the observed cases; returns number of disagreements."""
        direct = [o for o in obs if o["k"] in ("direct", "direct2")]
        engine = [o for o in obs if o["k"] in ("engine", "comment", "suggonly", "amp", "csugg", "rx", "px", "qx")]
        three = [o for o in obs if o["k"] == "three"]
        # panics are failures of the property outright
        for o in direct:
            c.count()
            c.nontriv((o["k"], classify(o["n"], o["L"]), o["n"], o["L"]))
            if o.get("panic"):
                c.fail("oracle", "truncateText panics", input={"n": o["n"], "maxLen": o["L"]}, observed=o["panic"],
                       expected="no TruncateLen value makes a run fail")
        for o in engine:
            c.count()
            if o.get("panic"):
                c.fail("oracle", "Run panics", input={"TruncateLen": o["L"]}, observed=o["panic"], expected="no panic")
            elif "text" in o and o["text"] != "":
                c.nontriv(("engine", classify(len(o["text"]), o["L"] or 60), len(o["text"]), o["L"]))
        dcases = [o for o in direct if not o.get("panic")]
        ecases = [o for o in engine if not o.get("panic") and "msg" in o and (o.get("text", "") != "" or o["k"] != "engine")]
        for o in obs:
            if o["k"] == "count":
                c.count()
                if o.get("panic"):
                    c.fail("oracle", "Run panics", input={"TruncateLen": o["L"]}, observed=o["panic"], expected="no panic")
                elif str(o["nrep"]) != o["msg"]:
                    c.fail("oracle", "a matching site produced no report (or an extra one)", input={"TruncateLen": o["L"]},
                           observed={"reports": o["nrep"]}, expected="%s reports: one per probe call and per //c15: comment" % o["msg"])
        pre = ["From Coq Require Import List ZArith Bool.",
               "From RG.Base Require Import Outcome GoInt GoSlice.",
               "From RG.Engine Require Import TruncateSpec.",
               ("From RGW Require Import Gen_Truncate Gen_C15Extras." if gen_ok else ""),
               "Import ListNotations. Local Open Scope Z_scope.",
               "Definition mk1 (n : nat) : bytes := map (fun i => Z.of_nat i mod 256) (seq 0 n).",
               "Definition unit8 : bytes := [97; 195; 169; 228; 184; 150; 240; 159; 152; 128; 98].",
               "Definition mk2 (n : nat) : bytes := map (fun i => nth (i mod 11) unit8 0) (seq 0 n).",
               "Definition mk (k : Z) (n : nat) : bytes := if k =? 2 then mk2 n else mk1 n.",
               "Definition obs_eq (a : outcome bytes) (b : bytes) : bool := match a with Ok r => bytes_eqb r b | Panic _ => false end.",
               "Definition opt_ok (a : option bytes) (b : bytes) : bool := match a with Some r => bytes_eqb r b | None => true end.",
               "Definition sho (t : bytes) (L : Z) : option bytes := Some (shown_total t L)."]

        def shard_src(dsh, esh, tsh):
            src = list(pre)
            src.append("Definition dcases : list (Z * Z * Z * bytes * Z) := [")
            src.append(";\n".join("(%d, %d, %d, %s, %d)" % (i, o["n"], o["L"], coq_bytes(bytes(o["res"])), 2 if o["k"] == "direct2" else 1) for i, o in dsh))
            src.append("].")
            # direct: the oracle is the spec applied with the *given* maxLen (eff_len only maps 0 to 60, so for
            # maxLen = 0 the direct call is outside the spec and only the model comparison applies)
            if gen_ok:
                src.append("Definition bad_model := map (fun c => fst (fst (fst (fst c)))) (filter (fun c => match c with (i, n, L, r, k) => "
                           "negb (obs_eq (truncateText (mk k (Z.to_nat n)) L) r) end) dcases).")
            else:
                src.append("Definition bad_model : list Z := [].")
            src.append("Definition bad_oracle := map (fun c => fst (fst (fst (fst c)))) (filter (fun c => match c with (i, n, L, r, k) => "
                       "if L =? 0 then false else negb (opt_ok (sho (mk k (Z.to_nat n)) L) r) end) dcases).")
            src.append("Definition ecases : list (Z * bytes * Z * bytes * bytes * Z) := [")
            # message template is V=$x;W=$$;  -> shown(x) and shown(whole match)
            src.append(";\n".join("(%d, %s, %d, %s, %s, %s)" % (i, coq_bytes(o["text"].encode()), o["L"], coq_bytes(o["msg"].encode()),
                                                                coq_bytes(o["sugg"].encode()), {"engine": "0", "comment": "1", "suggonly": "2", "amp": "3", "csugg": "2", "rx": "4", "px": "5", "qx": "6"}[o["k"]]) for i, o in esh))
            src.append("].")
            src.append("Definition whole (cm : Z) (t : bytes) : bytes := if cm =? 1 then [47;47;99;49;53;58] ++ t else [112;114;111;98;101;40] ++ t ++ [41].")
            # kind 2 = rule with Suggest() only: the message is "suggestion: " ++ shown(x); the replacement is x itself
            src.append("Definition exp_msg (cm : Z) (t : bytes) (L : Z) : option bytes := "
                       "if cm =? 4 then sho t L else "
                       "if cm =? 5 then match sho t L with Some a => Some ([115;117;103;103;101;115;116;105;111;110;58;32;80] ++ a) | None => None end else "
                       "if cm =? 6 then match sho t L with Some a => Some ([80] ++ a) | None => None end else "
                       "if cm =? 3 then "
                       "match sho t L with Some a => Some ([70;61] ++ a ++ [46;102;59]) | None => None end else if cm =? 2 then "
                       "match sho t L with Some a => Some ([115;117;103;103;101;115;116;105;111;110;58;32] ++ a) | None => None end else "
                       "match sho t L, sho (whole cm t) L with "
                       "Some a, Some b => Some ([86;61] ++ a ++ [59;87;61] ++ b ++ [59]) | _, _ => None end.")
            src.append("Definition bad_engine := map (fun c => fst (fst (fst (fst (fst c))))) (filter (fun c => match c with (i, t, L, m, s, cm) => "
                       "negb (opt_ok (exp_msg cm t L) m) || negb (bytes_eqb s (if (cm =? 3) || (cm =? 4) || (cm =? 6) then [] else if cm =? 5 then [80] ++ t else t)) end) ecases).")
            if gen_ok:
                src.append("Definition eff_bad := filter (fun L => negb (gen_effective_len L =? eff_len L)) (map (fun c => snd (fst (fst (fst c)))) ecases).")
            else:
                src.append("Definition eff_bad : list Z := [].")
            # one message with three interpolations: each variable is shortened on its own
            src.append("Definition tcases : list (Z * bytes * bytes * bytes * Z * bytes) := [")
            src.append(";\n".join("(%d, %s, %s, %s, %d, %s)" % (i, coq_bytes(a.encode()), coq_bytes(b.encode()), coq_bytes(cc.encode()), o["L"],
                                                                coq_bytes(o["msg"].encode())) for i, (o, (a, b, cc)) in tsh))
            src.append("].")
            src.append("Definition exp3 (a b c : bytes) (L : Z) : option bytes := match sho a L, sho b L, sho c L with "
                       "Some x, Some y, Some z => Some ([65;61] ++ x ++ [59;66;61] ++ y ++ [59;67;61] ++ z ++ [59]) | _, _, _ => None end.")
            src.append("Definition bad_three := map (fun c => fst (fst (fst (fst (fst c))))) (filter (fun c => match c with (i, a, b, cc, L, m) => "
                       "negb (opt_ok (exp3 a b cc L) m) end) tcases).")
            src.append("Definition RES := Eval vm_compute in (bad_model, bad_oracle, bad_engine, eff_bad, bad_three).")
            src.append("Print RES.")
            return "\n".join(src)

        import re
        NSH = 14
        di = list(enumerate(dcases))
        ei = list(enumerate(ecases))
        tparsed = []
        for o in three:
            c.count()
            if o.get("panic"):
                continue
            mm = re.fullmatch(r'("[^"]*"), ("[^"]*"), ("[^"]*")', o["text"])
            if not mm:
                c.obligation("harness-consistency:c15-three", False, "cannot split probe4 arguments: " + o["text"][:80])
                continue
            tparsed.append((o, mm.groups()))
            c.nontriv(("three",) + tuple(classify(len(x), o["L"] or 60) for x in mm.groups()) + (o["L"],))
        ti = list(enumerate(tparsed))
        jobs = [("Cases_%s_%d.v" % (tag, k), shard_src(di[k::NSH], ei[k::NSH], ti[k::NSH])) for k in range(NSH)]
        bm, bo, be, eb, bt = [], [], [], [], []

        def ints(s):
            return [int(x.replace("%Z", "").strip()) for x in s.split(";") if x.strip()]
        for (fname, _), (ok, out) in zip(jobs, c.coq_eval_many(jobs, timeout=1500)):
            if not ok:
                c.obligation("coq-eval:" + fname, False, out[-2000:])
                return
            m = re.search(r"RES\s*=\s*\((.*?)\)\s*:\s", out, re.S)
            lists = re.findall(r"\[(.*?)\]", re.sub(r"\s+", " ", m.group(1))) if m else []
            if len(lists) != 5:
                c.obligation("coq-eval-parse:" + fname, False, out[-2000:])
                return
            a, b, cc, d, e5 = [ints(x) for x in lists]
            bm += a; bo += b; be += cc; eb += d; bt += e5
        for i in bo:
            o = dcases[i]
            c.fail("oracle", "truncateText result contradicts the C15 specification",
                   input={"text": ("bytes 0..%d" % (o["n"] - 1)) if o["k"] == "direct" else "first n bytes of the repeated UTF-8 text a\u00e9\u4e16\U0001F600b", "n": o["n"], "maxLen": o["L"]}, observed=o["res"][:200],
                   expected="unchanged if n<=maxLen, else prefix+<...>+suffix of total length maxLen (the plain prefix of max(maxLen,0) bytes when maxLen<5)")
        for i in be:
            o = ecases[i]
            c.fail("oracle", "Report/Suggest text contradicts the C15 specification",
                   input={"text": o["text"], "TruncateLen": o["L"]}, observed={"msg": o["msg"], "sugg": o["sugg"]},
                   expected="message shows each text unchanged if it fits else shortened to TruncateLen; suggestion untruncated")
        for i in bt:
            o = tparsed[i][0]
            c.fail("oracle", "a message with several variables does not shorten each of them as the C15 specification says",
                   input={"args": o["text"], "TruncateLen": o["L"], "template": "A=$x;B=$y;C=$z;"}, observed={"msg": o["msg"]},
                   expected="each variable unchanged if it fits else shortened to exactly TruncateLen bytes")
        for i in bm:
            if i in bo:
                continue
            o = dcases[i]
            c.fail("corr", "regenerated Coq truncateText differs from the implementation",
                   input={"n": o["n"], "maxLen": o["L"]}, observed=o["res"][:200])
        if eb:
            c.fail("corr", "effective TruncateLen rule differs", input={"L": eb[:5]})
        c.coverage.setdefault("model_vs_impl_cases", 0)
        c.coverage["model_vs_impl_cases"] += len(dcases) if gen_ok else 0
        c.coverage.setdefault("oracle_vs_impl_cases", 0)
        c.coverage["oracle_vs_impl_cases"] += len(dcases) + len(ecases)
        for o in (dcases[len(dcases) // 2:len(dcases) // 2 + 2] + ecases[len(ecases) // 3:len(ecases) // 3 + 2]):
            s = dict(o)
            if "res" in s:
                s["res"] = s["res"][:24]
            c.sample(s)

    maxn, maxl, nrand = (30, 38, 16) if not thorough else (110, 120, 300)
    compare(observe(maxn, maxl, nrand, c.seed), "main")

    def search():
        compare(observe(90, 100, 150, c.seed + 7), "search")

    if thorough:
        c.clean_theories_build()
        if gen_ok:
            c.coqchk(["RGW.C15"])
    c.coverage["exhaustive"] = False
    c.finish(search=search)
