"""C16 -- Deadcode() is true exactly inside statically dead branches.

P: the walker's per-kind action lists (ruleguard/ast_walker.go:walk, in particular the IfStmt case with its
   save / set / flip / restore / early return), go/ast's child-field schema, gogrep's kind->tag map and the
   Deadcode() filter are regenerated from source; coq/tmpl/Walker/Inst_Walker.v closes the finite obligation
   `kind_ok` for every kind by vm_compute and coq/tmpl/C16/C16.v states, for ALL trees: the flag at every visit is
   the dead_spec of the node's position, and the flag is restored after every node.
K: the Coq model walks the serialised ASTs of generated nestings, a kitchen-sink file, repository and GOROOT files
   and is compared visit by visit with the engine's own walker (hook VerifWalkEvents), also from non-initial
   contexts and with a panicking callback.
O: independent Go oracle (ast.Inspect + a stack + Info.Types[cond].Value): Match(probe($x)).Where(m.Deadcode())
   and its negation through Engine.Run (shared and fresh RunnerState), and the hook's flag at every visit.
"""
import json
import os

import walkerlib


def run(c):
    thorough = c.tier == "thorough"
    c.rule = ("generated functions with random nestings (depth <= 8) of if / else-if chains over constant-true, constant-false "
              "and non-constant conditions, init statements, function literals, loops, switches -- among them statements that are NOT ifs "
              "but have a condition / tag / case values over the same constant and non-constant expressions (condition-only and "
              "three-clause for loops, switches with constant tags and cases, type switches, selects) and statements that follow a "
              "return / panic / break / continue / goto in the same list (early returns, the labelled tail of `goto fail`, labelled "
              "break / continue), all of which are as live as the list they stand in; every probe(n) call is one "
              "evaluation (engine verdict with shared state, with fresh state, walker flag, oracle); a case is non-trivial and "
              "distinct by its context signature = the sequence of (constant-ness of the condition, part entered) of the "
              "enclosing ifs / function literals, counted only when some enclosing if is constant; every file runs under the "
              "single-file engine and under one of eight other load histories (Deadcode rules loaded before / after / between "
              "files without them, next to imported bundles, inside a bundle whose later files have none), and in half of the "
              "cases right after a run on the same state that a panicking Report callback aborted inside a dead branch; every history "
              "but the first also loads 7-10 disturber rules -- Do() handlers, Contains() searches with sub-patterns of a concrete node "
              "kind over whole bodies, custom bytecode filters, always-rejecting filters on the probes themselves -- half of them "
              "ending in Deadcode() / !Deadcode() (every report of those is judged by the flag of its node), among them list patterns "
              "whose Where() reads no pattern variable, each loaded under both tails so that a _dead and a _live list rule meet in every "
              "block; every history but the first also loads a file of 6-9 groups that define parameterless local helper funcs "
              "of the same three names with different bodies (Deadcode(), File().Name / PkgPath / Imports, GoVersion(), negations, "
              "conjunctions, calls of other helpers) on identifier patterns: per identifier node the first group whose Where() formula holds "
              "on the oracle's flag must report it and nobody else (formula evaluated by the harness); the reports a run with a panicking callback delivers (before the panic and, should Run carry on, after it) are judged "
              "the same way; in half of the cases the "
              "file is also run with Report callbacks that start runs over this file / the previous one (nil, own, pooled states; same "
              "or another goroutine; two levels), each of which must report what it reports alone")
    c.trusted += walkerlib.TRUSTED + ["engine-level oracle: ast.Inspect + stack + types.Info.Types[cond].Value in harness/cmd/walker"]
    c.notes += ["whether a pattern matches is gogrep's decision; constant-ness of a condition is go/types' decision (both trusted)",
                "the model reads one fact from types.Info: the constant value of IfStmt.Cond"]

    c.build_theories()
    c.require_theories("Ast/*.v", "Engine/RunState.v")
    inst_ok = False
    if walkerlib.go2coq(c, "runnerstate", "Gen_RunnerState.v"):
        inst_ok = walkerlib.prepare(c, [], extra_gen=["Gen_RunnerState.v"], extra_tmpl=["C16/Inst_C16Run.v", "C16/C16.v"])

    hb = c.build_harness("walker")
    if hb is None:
        return c.finish()

    def deadcode(nfiles, size, seed):
        rc, out = c.run_harness(hb, ["-mode", "deadcode", "-gen", str(nfiles), "-size", str(size), "-seed", str(seed),
                                     "-tmp", os.path.join(c.work, "tmp")], timeout=900)
        n = 0
        hist = set()
        for line in out.splitlines():
            line = line.strip()
            if not line.startswith("{"):
                continue
            o = json.loads(line)
            if o["k"] == "catalogue":
                # the disturber rules of this run's load histories: every family must be there
                kinds = o.get("kinds") or {}
                for k, v in kinds.items():
                    c.coverage["disturber_rules:" + k] = c.coverage.get("disturber_rules:" + k, 0) + v
                missing = [k for k in ("do", "contains", "custom", "reject", "list", "do+deadcode", "contains+deadcode", "custom+deadcode", "list+deadcode") if not kinds.get(k)]
                if o["probes"] < 18 or missing:
                    c.obligation("harness:deadcode-disturbers", False, "only %d disturber templates load (%s); kinds missing from the histories: %s"
                                 % (o["probes"], o.get("mismatch"), missing))
                continue
            n += 1
            for k, v in (o.get("kinds") or {}).items():
                c.coverage["deadcode_runs:" + k] = c.coverage.get("deadcode_runs:" + k, 0) + v
            if o.get("err"):
                if o["err"].startswith("load: ") and "could not import" not in o["err"]:
                    # the Deadcode() rules load alone, so they must load next to other files / bundles
                    c.fail("oracle", "a load history with Deadcode() rules does not load: " + o["err"],
                           input={"load_history": o.get("config"), "rules_files": o.get("files"), "load_order": o.get("order")},
                           expected="loads", observed=o["err"])
                else:
                    c.obligation("harness-run:deadcode:" + o.get("name", o.get("config", "?")), False, o["err"] + "\n" + (o.get("src") or "")[:1500])
                continue
            c.count(o["probes"])
            c.coverage["runs_after_a_callback_panic_inside_a_dead_branch"] = c.coverage.get("runs_after_a_callback_panic_inside_a_dead_branch", 0) + o.get("dead_panics", 0)
            if o.get("config") and o["probes"]:
                hist.add(o["config"])
            for s in o.get("sigs") or []:
                if any(x[:1] in "TF" for x in s.split(":", 1)[1].split(".")):
                    c.nontriv(s)
            for m in o.get("mismatch") or []:
                c.fail("oracle", "Deadcode() verdict contradicts the constant-condition oracle: " + m,
                       input={"target": o.get("src"), "GODEBUG while the target was type-checked": "gotypesalias=%s" % o.get("gotypesalias"), "rules": "Match(`probe($x)`).Where(m.Deadcode()) / .Where(!m.Deadcode()) and the disturber rules of the load history (groups q<n>_*; *_dead / *_live end in Deadcode() / !Deadcode())", "seed": seed,
                              "load_history": o.get("config"), "rules_files": o.get("files"), "load_order": o.get("order"),
                              "before_on_the_shared_state": o.get("poison") or "the earlier generated files of this engine"},
                       expected="dead iff some enclosing if has a constant condition and the probe lies in its Body (false) / Else (true)",
                       observed=m)
            if o["probes"] and not o.get("mismatch"):
                c.sample({"file": o["name"], "probes": o["probes"], "dead": o["dead"], "sigs": (o.get("sigs") or [])[:4]})
        if rc != 0 or n == 0:
            c.obligation("harness-run:deadcode", False, out[-2000:])
        c.coverage["deadcode_files"] = c.coverage.get("deadcode_files", 0) + n
        c.coverage["load_histories_with_deadcode_rules"] = max(c.coverage.get("load_histories_with_deadcode_rules", 0), len(hist))
        if not c.coverage.get("deadcode_runs:reports:list-rule+deadcode") or not c.coverage.get("deadcode_runs:reports:judged-in-panicking-runs"):
            c.obligation("harness:deadcode-list-rules-and-panicking-runs-judged", False, "no report of a list rule with a Deadcode() tail was judged / no report "
                         "of a run with a panicking callback was judged: %s" % {k: v for k, v in c.coverage.items() if k.startswith("deadcode_runs:")})
        if not c.coverage.get("deadcode_runs:reports:disturber+deadcode") or not c.coverage.get("deadcode_runs:nested-runs"):
            c.obligation("harness:deadcode-disturbers-ran", False, "no disturber rule with a Deadcode() tail reported / no re-entrant run happened: %s"
                         % {k: v for k, v in c.coverage.items() if k.startswith("deadcode_runs:")})
        if c.coverage.get("deadcode_runs:reports:helper-group-decisions", 0) < 1000 or c.coverage.get("disturber_rules:helper-name-clashes", 0) < 8:
            c.obligation("harness:deadcode-local-helper-groups", False, "the groups with equal-named local helper funcs (different bodies, some reading "
                         "the dead-code flag) were not judged: %s" % {k: v for k, v in c.coverage.items() if "helper" in k})
        cov = lambda k: c.coverage.get(k, 0)
        if (not cov("deadcode_runs:files:gotypesalias=1") or not cov("deadcode_runs:files:gotypesalias=0")
                or not cov("deadcode_runs:if-conditions:constant-of-alias-type") or not cov("disturber_rules:type+deadcode")
                or cov("disturber_rules:type-templates-that-do-not-load")):
            c.obligation("harness:deadcode-alias-typed-conditions-and-type-filters", False, "the generated files must be type-checked under "
                         "GODEBUG=gotypesalias=1 and =0, have constant if conditions of an alias-of-bool type, and every load history must "
                         "carry rules with type / constant filters on the conditions (all templates loading): %s"
                         % {k: v for k, v in c.coverage.items() if "alias" in k or ":type" in k})
        if len(hist) < 6:
            c.obligation("harness:deadcode-load-histories", False, "only %d of the load histories with Deadcode() rules ran: %s" % (len(hist), sorted(hist)))

    def events(nrepo, nstd, ngen, size, tag, seed):
        obs = walkerlib.run_events(c, hb, walkerlib.pick_files(c, nrepo, nstd), ngen, size, seed=seed)
        for o in obs:
            if o.get("err"):
                continue            # file does not parse: not an input of the property
            c.count(len(o["events"]))
            if o.get("oracle_dead"):
                c.fail("oracle", "walker flag contradicts the constant-condition oracle: " + o["oracle_dead"],
                       input={"file": o["name"], "source": o.get("src"), "start_context": o.get("init"), "panic_at": o.get("panic_at")},
                       observed=o["oracle_dead"])
        n = walkerlib.coq_compare(c, obs, tag, "C16") if inst_ok else 0
        c.coverage["model_vs_impl_walks"] = c.coverage.get("model_vs_impl_walks", 0) + n
        c.coverage["nodes_walked"] = c.coverage.get("nodes_walked", 0) + sum(o["nodes"] for o in obs if o["k"] == "file" and not o.get("err"))

    if thorough:
        deadcode(400, 60, c.seed)
        events(16, 24, 40, 60, "main", c.seed)
    else:
        deadcode(60, 40, c.seed)
        events(3, 4, 8, 40, "main", c.seed)

    def search():
        deadcode(300, 60, c.seed + 101)
        events(6, 8, 16, 60, "search", c.seed + 101)

    c.coverage["exhaustive"] = False
    c.finish(search=search)
