"""C05 -- precompiled IR behaves like the source rules.

P: the struct inventory of ruleguard/ir, the FilterOp tables, the printer's special cases and printFile's literal tree
   (symbolic execution) are regenerated from /repo (go2coq irmodel), the two load bodies are diffed (go2coq loaddiff);
   coq/tmpl/C05 instantiates print_eval_roundtrip (all types, all well-formed values, structural induction) with the
   regenerated tables and re-proves the file-level round trip against the regenerated printFile tree.
K: the Coq printer is run (vm_compute) on the value tree of every case and compared with the literal tree parsed from the
   real irprint output; the Coq literal evaluator is run on the real output.
O: the real Go toolchain: a generated program embeds every printed literal, is compiled and run; reflect.DeepEqual against
   the original, and Load vs LoadFromIR (LoadedGroups + report streams on target files) for rules-file cases.
"""
import json
import os
import re

from vlib import coq_bytes
import bhlib


def read_text(path):
    try:
        return open(path, encoding="utf-8", errors="replace").read()[:4000]
    except (OSError, TypeError):
        return None


def redef_norm(e):
    if not e:
        return e
    return re.sub(r":\d+: redefinition of [\w./]+\(\), previously defined at (.*?):\d+$", r": redefinition of <a group>, previously defined at \1", e)


def cstr(s):
    return '"%s"%%string' % s.replace('"', '""')


def coq_val(t):
    tag = t[0]
    if tag == "I":
        return "(VInt (%d))" % t[1]
    if tag == "S":
        return "(VStr %s)" % coq_bytes(bytes(t[1]))
    if tag == "O":
        return "(VOp %d%%N)" % t[1]
    if tag == "N":
        return "VNil"
    if tag == "IS":
        return "(VIStr %s)" % coq_bytes(bytes(t[1]))
    if tag == "I64":
        return "(VI64 (%d))" % t[1]
    if tag == "ST":
        return "(VStruct %s [%s])" % (cstr(t[1]), "; ".join(coq_val(x) for x in t[2]))
    if tag == "SL":
        if t[1] is None:
            return "(VSlice None)"
        return "(VSlice (Some [%s]))" % "; ".join(coq_val(x) for x in t[1])
    raise ValueError("value outside the model: %r" % (t,))


def coq_lit(t):
    tag = t[0]
    if tag == "s":
        return "(LStr %s)" % coq_bytes(bytes(t[1]))
    if tag == "i":
        return "(LInt (%d))" % t[1]
    if tag == "c64":
        return "(LConv64 (%d))" % t[1]
    if tag == "op":
        return "(LOpName %s)" % cstr(t[1])
    if tag == "c":
        ty = "None" if t[1] is None else "(Some %s)" % cstr(t[1])
        elts = "; ".join("(%s, %s)" % ("(@None string)" if k is None else "(Some %s)" % cstr(k), coq_lit(v)) for k, v in t[2])
        return "(LComp %s [%s])" % (ty, elts)
    return "LBad"


def run(c):
    thorough = c.tier == "thorough"
    c.rule = ("a case = one ir.File value: random values over the whole type inventory (all FilterOps, negative/zero/extreme ints, "
              "empty/quote-laden/non-UTF-8 strings, nil vs empty slices, nesting depth <= 4, bundle imports), 4 probes outside the "
              "printer's domain, the IR of the 22 fixture rules files and of generated rules files (where-atoms over ~50 DSL "
              "predicates, helper funcs, custom filter funcs, doc pragmas, Import(), bundle imports); distinct non-trivial = distinct "
              "printed texts with at least one rule group or bundle import")
    c.trusted += [
        "go2coq irmodel/loaddiff translators (struct inventory, op tables, symbolic execution of printFile's writef/range/printReflectElem statements, special-case extraction; fail closed)",
        "hand-written model of printReflectElemNoNewline's generic part (struct / slice / default branches) -- tied by the correspondence on every case",
        "string quoting: the literal trees carry decoded strings; the decoding (Go's interpreted string literals) is modelled in Quote.v, proved to invert every quoter of the escape class and run on every distinct token of the real output; that strconv.Quote stays inside the class is observed on those tokens, not proved; gofmt layout is left to go/parser",
        "harness/cmd/c05 (value/literal tree encoders, generators) and the generated phase-B program",
        "assumption stated in C05_load_paths_agree: resolving a type through the rules package's imports (config.pkg) or through the importer denotes the same type; checked empirically by the Load vs LoadFromIR runs",
    ]
    c.notes += ["equality of IR values is reflect.DeepEqual after mapping nil CustomDecls/BundleImports to empty slices (printFile writes both with explicit loops)",
                "domain of the round-trip theorem (gen_wf): no zero-valued element inside a non-nil slice, compact FilterExpr ops carry a string Value and no Args, ops have names; every irconv output in the run is checked to be inside it"]

    c.build_theories()
    c.require_theories("Base/*.v", "IR/*.v")

    gen_ok = False
    g1 = bhlib.go2coq(c, "irmodel", "Gen_IR.v")
    g2 = bhlib.go2coq(c, "loaddiff", "Gen_LoadDiff.v")
    gen_usable = False
    if g1 and g2:
        if c.coq_compile(["Gen_IR.v", "Gen_LoadDiff.v"]):
            gen_usable = True
            c.install_tmpl("C05/Inst_IR.v", "C05/C05.v")
            gen_ok = c.coq_compile(["Inst_IR.v", "C05.v"])
            if gen_ok and thorough:
                bhlib.coqchk(c, "RGW.C05")
    elif g1:
        gen_usable = c.coq_compile(["Gen_IR.v"])
    hb = c.build_harness("c05")
    if hb is None:
        return c.finish()
    gorules = bhlib.build_gorules(c)

    tokens = []

    def check_tokens(tag):
        """K for string quoting: Coq's reading of Go interpreted string literals on every distinct token irprint wrote."""
        if not tokens:
            return
        NT = 6
        jobs = []
        for k in range(NT):
            part = tokens[k::NT]
            if not part:
                continue
            src = ["From Coq Require Import List ZArith Bool.", "From RG.Base Require Import Outcome GoSlice.",
                   "From RG.IR Require Import Quote.", "Import ListNotations. Local Open Scope Z_scope.",
                   "Definition toks : list (Z * (bytes * bytes)) := ["]
            src.append(";\n".join("  (%d, (%s, %s))" % (k + NT * j, coq_bytes(bytes(t["raw"])), coq_bytes(bytes(t["dec"]))) for j, t in enumerate(part)))
            src.append("].")
            src.append("Definition BAD := Eval vm_compute in map fst (filter (fun t => match unquote_go (fst (snd t)) with "
                       "Some d => negb (bytes_eqb d (snd (snd t))) | None => true end) toks).")
            src.append("Print BAD.")
            jobs.append(("Tokens_%s_%d.v" % (tag, k), "\n".join(src)))
        for (fname, _), (ok, out) in zip(jobs, c.coq_eval_many(jobs, timeout=900)):
            if not ok:
                c.obligation("coq-eval:" + fname, False, out[-2000:])
                continue
            m = re.search(r"BAD\s*=\s*\[(.*?)\]", out, re.S)
            if not m:
                c.obligation("coq-eval-parse:" + fname, False, out[-1500:])
                continue
            for x in re.findall(r"-?\d+", m.group(1)):
                t = tokens[int(x)]
                c.fail("corr", "the model's reading of a Go string literal (Quote.unquote_go) differs from strconv.Unquote on a token irprint wrote",
                       input={"case": t.get("case"), "token": bytes(t["raw"]).decode("utf-8", "replace"), "seed": c.seed},
                       observed={"strconv.Unquote": t["dec"]})
        c.coverage["string_tokens_decoded_by_model"] = c.coverage.get("string_tokens_decoded_by_model", 0) + len(tokens)
        c.coverage["string_tokens_with_escapes"] = c.coverage.get("string_tokens_with_escapes", 0) + sum(1 for t in tokens if 92 in t["raw"])

    def observe(n, nrules, seed, tag):
        tmp = os.path.join(c.work, "tmp-" + tag)
        gendir = os.path.join(c.work, "gen-" + tag)
        os.makedirs(tmp, exist_ok=True)
        rc, out = c.run_harness(hb, ["-n", str(n), "-nrules", str(nrules), "-nhist", str(max(24, 2 * nrules)), "-seed", str(seed),
                                     "-tmp", tmp, "-gendir", gendir, "-repo", c.repo] + (["-gorules", gorules] if gorules else []), timeout=900)
        cases = []
        del tokens[:]
        for line in out.split("\n"):
            line = line.strip()
            if line.startswith("{"):
                try:
                    obj = json.loads(line)
                except ValueError:
                    continue
                if "string_tokens" in obj:
                    tokens.extend(obj["string_tokens"] or [])
                elif "history" not in obj:
                    cases.append(obj)
        if rc != 0 or not cases:
            c.obligation("harness-run:c05", False, out[-2000:])
            return cases, None
        # phase B (the real toolchain) runs in the background while the model is evaluated on the cases
        from concurrent.futures import ThreadPoolExecutor
        ex = ThreadPoolExecutor(max_workers=1)
        fut = ex.submit(phase_b, gendir)
        ex.shutdown(wait=False)
        return cases, fut

    def phase_b(gendir):
        tmpl = open(os.path.join(c.verif, "harness", "go.mod.tmpl")).read()
        tmpl = tmpl.replace("@REPO@", c.repo).replace("module verif/harness", "module c05gen")
        tmpl = tmpl.replace("=> ./fake/", "=> " + os.path.join(c.verif, "harness", "fake") + "/")
        with open(os.path.join(gendir, "go.mod"), "w") as f:
            f.write(tmpl)
        sums = open(os.path.join(c.repo, "go.sum")).read()
        extra = os.path.join(c.verif, "harness", "go.sum.extra")
        if os.path.exists(extra):
            sums += open(extra).read()
        with open(os.path.join(gendir, "go.sum"), "w") as f:
            f.write(sums)
        rc, out = c.sh("go run . 2>run.err > run.out", cwd=gendir, timeout=1200)
        results = {}
        try:
            for line in open(os.path.join(gendir, "run.out")).read().split("\n"):
                if line.strip().startswith("{"):
                    r = json.loads(line)
                    results[r["id"]] = r
        except OSError:
            pass
        if rc != 0:
            err = ""
            try:
                err = open(os.path.join(gendir, "run.err")).read()
            except OSError:
                pass
            # a literal that passed go/types but not the compiler, or a crash of the program: nothing can be concluded
            c.obligation("toolchain-run:c05", False, (out + err)[-2500:])
        return results

    def compare(cases, results_future, tag):
        have = [cs for cs in cases if cs.get("val") is not None and cs.get("lit") is not None]
        coq = {}
        if gen_usable:
            pre = ["From Coq Require Import List ZArith Bool String.", "From RG.Base Require Import Outcome GoSlice.",
                   "From RG.IR Require Import Val Print File RoundTrip Corr.", "From RGW Require Import Gen_IR.",
                   "Import ListNotations. Local Open Scope Z_scope.",
                   "Definition zf : nat := S (List.length gen_env).",
                   "Definition gev := ev gen_env gen_op_consts zf.",
                   "Definition gwf := wf gen_env gen_op_names gen_compact_ops gen_pattern_fields gen_compact_fields.",
                   "Definition norm (f : val) : val := match f with VStruct n [p; g; d; b] => VStruct n [p; g; nil_to_empty d; nil_to_empty b] | _ => f end.",
                   "Definition chk (v : val) (l : lit) : bool * bool * bool :=",
                   "  (lit_eqb (gen_print_file v) l,",
                   "   match gev (TNamed \"File\") false l with Some r => val_eqb r (norm v) | None => false end,",
                   "   has_ty gen_env v (TNamed \"File\") && gwf (fld gen_env v \"RuleGroups\"))."]
            NSH = 14
            order = sorted(have, key=lambda cs: -len(cs["text"]))
            shards = [order[k::NSH] for k in range(NSH)]
            jobs = []
            for k, sh in enumerate(shards):
                if not sh:
                    continue
                src = list(pre)
                for cs in sh:
                    try:
                        src.append("Definition v%d : val := %s." % (cs["id"], coq_val(cs["val"])))
                        src.append("Definition l%d : lit := %s." % (cs["id"], coq_lit(cs["lit"])))
                    except ValueError as ex:
                        c.fail("corr", "value outside the model's universe", input={"case": cs["name"]}, observed=str(ex))
                        src.append("Definition v%d : val := VNil.\nDefinition l%d : lit := LBad." % (cs["id"], cs["id"]))
                src.append("Definition RES := Eval vm_compute in [%s]." % "; ".join("(%d, chk v%d l%d)" % (cs["id"], cs["id"], cs["id"]) for cs in sh))
                src.append("Print RES.")
                jobs.append(("Cases_%s_%d.v" % (tag, k), "\n".join(src)))
            for (fname, _), (ok, out) in zip(jobs, c.coq_eval_many(jobs, timeout=1200)):
                if not ok:
                    c.obligation("coq-eval:" + fname, False, out[-2500:])
                    continue
                body = re.sub(r"\s+", " ", out)
                for mm in re.finditer(r"\(\s*(\d+),\s*\(\s*(true|false),\s*(true|false),\s*(true|false)\s*\)\s*\)", body):
                    coq[int(mm.group(1))] = tuple(x == "true" for x in mm.groups()[1:])
                if not re.search(r"RES\s*=", out):
                    c.obligation("coq-eval-parse:" + fname, False, out[-1500:])
        results = results_future.result() if results_future is not None else {}
        # load histories (several files into one engine, every step from source or from the shared precompiled value,
        # optional GroupFilter): ids < 0; the reference is the engine that loads everything from source
        byid = {cs["id"]: cs for cs in cases}
        nsens = nmixed = 0
        for rid, res in sorted(results.items()):
            if rid >= 0:
                continue
            c.count()
            ids = [i for i in res.get("pair") or [] if i in byid]
            names = ["%s:%s" % (mode, byid[i]["name"]) for i, mode in zip(ids, res.get("modes") or [])]
            inp = {"load_history": names, "rules_paths": [byid[i].get("rules_path") for i in ids],
                   "rules_sources": {byid[i]["name"]: read_text(byid[i].get("rules_path")) for i in ids if byid[i]["kind"] != "fixture"},
                   "group_filter": "len(name) even" if res.get("filtered") else None, "seed": c.seed}
            # mergeRuleSets names the first redefined group it meets while ranging over a Go map: which one is not determined
            ea, eb = redef_norm(res.get("load_err_a")), redef_norm(res.get("load_err_b"))
            nsens += bool(res.get("order_sensitive"))   # measured on all-source engines only (forward vs reverse order)
            nmixed += bool(res.get("mixed_modes"))
            if res.get("mutated"):
                c.fail("oracle", "LoadFromIR changed the *ir.File value it was given (a precompiled value is a package-level variable, every later load reads it)",
                       input=inp, observed=res["mutated"], expected="the value is left as the compiler built it")
            if (ea is None) != (eb is None) or (ea and eb and ea != eb):
                c.fail("oracle", "loading several rules files into one engine: the all-source history and the history with precompiled files disagree on the outcome",
                       input=inp, observed={"all from source": ea, "history": eb}, expected="same outcome")
            elif not ea and not (res["groups_equal"] and res["reports_equal"]):
                c.fail("oracle", "engine built by a load history with precompiled files differs from the engine that loaded the same files from source",
                       input=inp, observed=res.get("load_diff"), expected="same LoadedGroups and same reports")
            else:
                c.coverage["load_histories_compared"] = c.coverage.get("load_histories_compared", 0) + 1
                if ea:
                    c.coverage["load_histories_rejected_alike"] = c.coverage.get("load_histories_rejected_alike", 0) + 1
                c.nontriv(("history", tuple(names), bool(res.get("filtered"))))
        c.coverage["load_histories_order_sensitive"] = c.coverage.get("load_histories_order_sensitive", 0) + nsens
        c.coverage["load_histories_mixed_source_ir"] = c.coverage.get("load_histories_mixed_source_ir", 0) + nmixed
        if any(r < 0 for r in results) and nsens < 3:
            c.obligation("histories-order-sensitive:" + tag, False,
                         "only %d load histories in which the order of the merged rules is observable (need >= 3)" % nsens)
        ops_seen = set()
        other_pkg_custom = []
        decl_only = []
        off_line = []
        for cs in cases:
            c.count()
            inp = {"case": cs["name"], "kind": cs["kind"], "seed": c.seed, "rules_path": cs.get("rules_path"),
                   "printed": (cs.get("text") or "")[:1500]}
            if cs.get("conv_err"):
                if cs["kind"] == "fixture":
                    c.obligation("fixture-converts:" + cs["name"], False, cs["conv_err"])
                else:
                    c.fail("corr", "generated rules file is not valid (harness generator)", input=inp, observed=cs["conv_err"])
                continue
            for o in cs.get("ops") or []:
                ops_seen.add(o)
            outside = cs["kind"] == "outside"
            if cs.get("rules_path") and cs["kind"] != "fixture":
                inp["rules_source"] = read_text(cs["rules_path"])
            if cs.get("from_tool"):
                c.coverage["gorules_precompile_runs"] = c.coverage.get("gorules_precompile_runs", 0) + 1
            if cs.get("tool_err"):
                c.fail("oracle", "`gorules precompile` fails on a rules file that Load accepts the conversion of", input=inp,
                       observed=cs["tool_err"][:1500], expected="the printed IR")
            if cs.get("tool_differs"):
                # no verdict of its own: the text of the real tool is what everything below checks
                c.fail("corr", "`gorules precompile` prints another literal than irprint.File(irconv.ConvertFile(..)) run in the harness on the same rules file",
                       input=inp, observed=cs["tool_differs"])
            if cs.get("engine_conv_differs"):
                c.fail("oracle", "the IR that Load converts a rules file to (convertAST) is not the IR the precompiler converts it to", input=inp,
                       observed=cs["engine_conv_differs"], expected="equal IR values (reflect.DeepEqual)")
            res = results.get(cs["id"])
            m = coq.get(cs["id"])
            # ---- O: the real toolchain
            if cs.get("print_err") or cs.get("parse_err"):
                c.fail("oracle", "irprint.File fails on this IR value", input=inp, observed=cs.get("print_err") or cs.get("parse_err"),
                       expected="a Go composite literal")
                continue
            if cs.get("type_err"):
                if not outside:
                    c.fail("oracle", "the printed IR literal does not compile", input=inp, observed=cs["type_err"],
                           expected="a composite literal of type ir.File equal to the printed value")
                continue
            if res is None:
                if results:
                    c.fail("corr", "no phase-B result for a literal that type-checks", input=inp)
                continue
            from_rules = cs["kind"] in ("fixture", "generated")
            if from_rules:
                c.coverage["converted_files_checked_for_zero_valued_list_elements"] = c.coverage.get("converted_files_checked_for_zero_valued_list_elements", 0) + 1
                if cs.get("zero_elem"):
                    # the printer writes nothing for a zero value, list elements included: the round-trip theorem's domain
                    # leaves such values out BECAUSE no rules file converts to one -- that is a fact to be checked
                    c.fail("oracle", "the IR a rules file converts to has a zero-valued list element (irprint writes nothing for it: the precompiled form "
                           "is another value)", input=inp, observed={"first_zero_element": cs["zero_elem"]},
                           expected="no zero-valued element in any list of the converted IR")
            in_domain = m[2] if m is not None else not outside
            if not res["deep_equal_norm"] and (in_domain or from_rules) and not outside:
                c.fail("oracle", "evaluating the printed literal does not give back the IR value (reflect.DeepEqual)",
                       input=inp, observed=(res.get("diff") or "")[:1500], expected="equal values")
            if cs.get("rules_path"):
                ea, eb = res.get("load_err_a"), res.get("load_err_b")
                if res.get("mutated"):
                    c.fail("oracle", "LoadFromIR changed the *ir.File value it was given (a precompiled value is a package-level variable, every later load reads it)",
                           input=inp, observed=res["mutated"], expected="the value is left as the compiler built it")
                if (ea is None) != (eb is None) or (ea and eb and ea != eb):
                    c.fail("oracle", "Load and LoadFromIR disagree on accepting the rules", input=inp,
                           observed={"Load": ea, "LoadFromIR": eb}, expected="same outcome on every load of the same precompiled value")
                elif ea and cs.get("may_reject"):
                    # a construct the loader is free to reject -- both forms are rejected with the same message
                    c.coverage["load_rejections_agree"] = c.coverage.get("load_rejections_agree", 0) + 1
                elif ea:
                    c.fail("corr", "rules file does not load (harness generator)", input=inp, observed=ea)
                elif not (res["groups_equal"] and res["reports_equal"]):
                    c.fail("oracle", "engine loaded from the printed IR differs from the engine loaded from source",
                           input=inp, observed=res.get("load_diff"), expected="same LoadedGroups and same reports on every target file")
                else:
                    c.coverage.setdefault("load_pairs_compared", 0)
                    c.coverage["load_pairs_compared"] += 1
                    c.coverage["loads_of_a_shared_ir_value"] = c.coverage.get("loads_of_a_shared_ir_value", 0) + (res.get("reloads") or 0)
                    c.coverage.setdefault("reports_compared", 0)
                    c.coverage["reports_compared"] += res["nreports"]
                    # rules files that declare another package than the one Load checks them under, with reports that
                    # went through custom functions (Filter(fn) / Do(fn)) on both paths
                    if cs.get("func_decls") == 0 and res.get("ndecl"):
                        decl_only.append((cs["name"], res["ndecl"]))
                        c.coverage["reports_naming_own_declarations_of_files_without_functions"] = \
                            c.coverage.get("reports_naming_own_declarations_of_files_without_functions", 0) + res["ndecl"]
                    if cs.get("off_line_plain") and res.get("nlayout"):
                        off_line.append((cs["name"], cs["off_line_plain"], cs.get("off_line"), res["nlayout"]))
                        c.coverage["reports_of_rules_with_patterns_on_other_lines"] = \
                            c.coverage.get("reports_of_rules_with_patterns_on_other_lines", 0) + res["nlayout"]
                    mpk = re.search(r"^package (\w+)", read_text(cs["rules_path"]) or "", re.M)
                    if mpk and mpk.group(1) != "gorules" and res.get("ncustom"):
                        other_pkg_custom.append((cs["name"], mpk.group(1), res["ncustom"]))
                        c.coverage["custom_function_reports_of_files_declaring_another_package"] = \
                            c.coverage.get("custom_function_reports_of_files_declaring_another_package", 0) + res["ncustom"]
            # ---- K: model vs implementation
            if m is not None:
                printed_same, eval_ok, dom = m
                if not printed_same:
                    c.fail("corr", "Coq printer and irprint write different literal trees", input=inp)
                if eval_ok != res["deep_equal_norm"]:
                    c.fail("corr", "Coq literal evaluator and the Go compiler disagree on the printed literal", input=inp,
                           observed={"model_roundtrip": eval_ok, "toolchain_roundtrip": res["deep_equal_norm"]})
                if cs["kind"] in ("fixture", "generated") and not dom:
                    c.fail("corr", "irconv produced an IR value outside the domain of the round-trip theorem", input=inp)
                if outside and (dom or eval_ok):
                    c.fail("corr", "a probe meant to be outside the printer's domain round-trips in the model", input=inp)
            if cs.get("ngroups") or "BundleImports: []ir.BundleImport{\n\t\t{" in (cs.get("text") or ""):
                c.nontriv(cs["kind"] + ":" + str(hash(cs["text"])))
            if cs["kind"] != "random" or len(c.samples) < 2:
                c.sample({"case": cs["name"], "kind": cs["kind"], "ops": cs.get("ops"), "printed_bytes": len(cs.get("text") or ""),
                          "deep_equal": res["deep_equal"], "deep_equal_norm": res["deep_equal_norm"], "loaded": res.get("loaded"),
                          "reports": res.get("nreports")})
        if results:
            nshaped = sum(1 for cs in cases if cs["kind"] == "random" and cs.get("off_line_plain"))
            c.coverage["random_ir_values_with_a_plain_rule_off_its_pattern_line"] = \
                c.coverage.get("random_ir_values_with_a_plain_rule_off_its_pattern_line", 0) + nshaped
            c.obligation("generator:pattern-layouts:" + tag, len(off_line) >= 5 and nshaped >= 3,
                         "rules files with rules that are one pattern + a message whose pattern is written on another line than the rule starts on "
                         "(multi-line argument lists, alternatives on separate lines, a chain broken before Match), reporting through Load and "
                         "LoadFromIR with RuleInfo.Line compared: %d files %r (need >= 5); random IR values with such a rule: %d (need >= 3)" % (
                             len(off_line), off_line[:4], nshaped))
        if results:
            c.obligation("generator:package-clauses:" + tag, len(other_pkg_custom) >= 3,
                         "rules files declaring a package other than gorules whose custom-function rules reported through Load and LoadFromIR: %r (need >= 3)" % (other_pkg_custom,))
        if results:
            c.obligation("generator:declarations-without-functions:" + tag, len(decl_only) >= 3,
                         "rules files whose custom declarations hold types / constants / variables and NO function, with rules naming those "
                         "declarations that reported through Load and LoadFromIR: %r (need >= 3)" % (decl_only,))
            tagsets = set()
            for cs in cases:
                if cs["kind"] == "generated" and cs.get("rules_path"):
                    for mm in re.finditer(r"^//doc:tags(.*)$", read_text(cs["rules_path"]) or "", re.M):
                        tagsets.add(mm.group(1))
            c.coverage["doc_tags_spellings"] = max(c.coverage.get("doc_tags_spellings", 0), len(tagsets))
            c.obligation("generator:doc-pragmas:" + tag, len(tagsets) >= 8 and "" in tagsets and any("  " in t.strip() for t in tagsets),
                         "%d spellings of the //doc:tags line in the generated rules files (need >= 8, an empty one and one with runs of spaces between tags)" % len(tagsets))
        c.coverage.setdefault("cases", 0)
        c.coverage["cases"] += len(cases)
        c.coverage.setdefault("model_vs_impl_cases", 0)
        c.coverage["model_vs_impl_cases"] += len(coq)
        if gen_usable and len(coq) < len(have):
            c.obligation("coq-eval-complete:" + tag, False, "model results for %d of %d cases" % (len(coq), len(have)))
        c.coverage.setdefault("toolchain_roundtrips", 0)
        c.coverage["toolchain_roundtrips"] += len(results)
        prev = set(c.coverage.get("filter_ops_seen", []))
        c.coverage["filter_ops_seen"] = sorted(prev | ops_seen)

    n, nrules = (120, 12) if not thorough else (1500, 120)
    cases, results = observe(n, nrules, c.seed, "main")
    check_tokens("main")
    compare(cases, results, "main")

    def search():
        cs, rs = observe(200, 20, c.seed + 31, "search")
        check_tokens("search")
        compare(cs, rs, "search")

    c.coverage["exhaustive"] = False
    c.finish(search=search)
