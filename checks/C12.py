"""C12 -- comment rules report the matched span and its named groups precisely; the first accepting comment rule wins.

P: RG.Engine.CommentSpec models runCommentRules + handleCommentMatch with the regexp engine as an oracle (submatch
   indices, group names) and proves, for all comments at all offsets, all rule lists and all index vectors: the first
   rule (load order) that matches and accepts is the one that reports; the reported span is offset-of-comment + match
   indices, lies inside the comment, the bytes there are the matched text, Suggest replaces exactly that span; a named
   group is bound by regexp group index to its submatch text ("" when it did not participate). The theorems are
   instantiated with nodeText's in-range test regenerated from /repo (shared with C03) on every run, and runCommentRules
   itself is translated from runner.go statement by statement (go2coq c12loop) and proved on every run to BE that model
   (C12_translated_loop_is_model), for every base of the file in the FileSet; handleCommentMatch is translated too (go2coq
   c12handler: the REUSED report record is part of the world it transforms) and proved to deliver the model's report to the
   callback whatever the record held before (C12_translated_handler_is_model, C12_report_independent_of_reused_record). The LOADER of comment rules (loadCommentRule +
   the tail of loadRule that ranges over rule.CommentPatterns) is translated too (go2coq c12load) and proved to be the
   model loader: a MatchComment call with k regexps is k comment rules in the written order, each with its own regexp's
   names / flag / line (C12_alternatives_are_rules_in_written_order, C12_k_alternatives_are_k_rules), and running the
   loaded list is "call by call, alternative by alternative in the written order" (C12_loaded_run_is_call_by_call,
   C12_report_is_first_accepting_alternative).
K: the Coq model (the translated runCommentRules) is executed on every generated comment with the indices Go's regexp returned on comment.Text and
   compared with the observed ReportData (byte ranges, message, suggestion, line).
   The rules the model runs are LOADED inside Coq by the translated loader from the calls as written and compared with the
   engine's own rule list (hook VerifCommentRules).
O: expected reports are computed independently from the comment's SOURCE bytes (regexp.FindSubmatchIndex on the file
   bytes at the comment's offset known by construction, independent of comment.Text) and compared with the observation; the
   engine's loaded rule list must be the written regexps one by one, calls in source order, rules files in load order.
"""
import base64
import json
import os
import re as pyre

from vlib import coq_bytes
from textlib import PACK_PRELUDE, coq_pk

FINDING = "C12-crlf-comment"


def b64(x):
    return base64.b64decode(x) if x else b""


def run(c):
    c.go2coq_sources = ["c03.go", "textmatch.go", "c12.go", "c03loop.go", "c12loop.go", "c12load.go", "c12handler.go", "c03src.go"]   # private translator build: another family's generator cannot break this check
    thorough = c.tier == "thorough"
    c.rule = ("fixed MatchComment rules (named groups in both spellings, unnamed-in-front, optional, nested, alternative (non-participating) "
              "groups, no groups = fast path, multi-byte, (?s) multi-line, Where filters on Text / Line / Node, At(), Suggest), rule families "
              "that match the same comments and mostly reject, MatchComment calls with 2..4 regexps that bind the same names at different "
              "group indices (8 fixed + seeded random ones; comments hit by every single alternative and by every ordered pair of "
              "alternatives), 15 regexps with assertions (^ $ \\A \\z \\b \\B (?m); every core text alone, behind / in front of other text, in a block "
              "comment, on a line of its own, twice), 16 regexps with loose ends (greedy / lazy .* .+ \\s*, (?s) (?U) (?i), first-written alternative; "
              "with and without groups), seeded random rules at random load positions, three rules files; comments: line and block, after code and "
              "after multi-byte strings, adjacent, multi-line, empty, at EOF, with CRLF inside block comments; ten target files in one FileSet (versions of one path, a file not on disk, //line directives, a byte order mark, CRLF line endings) run "
              "as a history of one RunnerState: four versions of one path (longer; rewritten with the same byte length and modification time; the "
              "first bytes again) adjacent in one pass and interleaved with other paths in the other, a file that is not on disk, a file whose "
              "//line directives name an existing file; TruncateLen 0 and 15; non-trivial = a report was "
              "expected or produced (distinct by comment bytes, offset, file, TruncateLen), a pattern with named groups, a call with several regexps")
    c.trusted += [
        "Go regexp as an oracle: leftmost match and submatch indices (FindStringSubmatchIndex), SubexpNames -- inputs of the model",
        "go/parser + go/scanner deliver comment.Text and positions (the scanner strips \\r: see the known finding)",
        "go2coq c12loop: the statement-level Go->Gallina translator of runCommentRules (its reading of Go: let for :=, nested range loops "
        "with break/continue over explicit loop states, partial indexing/slicing in the outcome monad, token.File.Pos/Offset as base + "
        "offset, the composite literals as abstract constructors) and c12handler, the translator of handleCommentMatch (the reused record "
        "rr.reportData as one cell per field of ReportData, rr.filterParams.match, the Report callback seeing a snapshot of the record; the "
        "filter call, renderMessage, m.Node / CapturedByName, node.Pos / End as abstract operations; rr.reject is read as debug output only)",
        "go2coq c12load: the statement-level translator of loadCommentRule and the comment-pattern tail of loadRule (functions returning error "
        "as option E * state, the rule slice as the only state, regexp.Compile / checkBoundVars / errorf / the goCommentRule literal as abstract "
        "operations); the part of loadRule in front of that tail (the goRule prototype, the filter) and LoadFile's walk over groups are modelled "
        "by hand (CommentLoad.load_rules / load_files) and tied by the comparison with the engine's rule list on every run",
        "go2coq c03src: the statement-level translator of rulesRunner.fileBytes (the world is the cell rr.src, os.ReadFile a parameter) and its syntactic "
        "facts about newRulesRunner / run / the package's mentions of rr.src; os.ReadFile returns the bytes the file has at the time of the call",
        "go2coq c03extras (nodeText in-range test), c12facts; harness/cmd/c12 and hooks VerifRegexpHasCaptureGroups, VerifCommentRules (build tag verif)",
    ]
    c.notes += ["filters in the correspondence: Text ==/!= literal or another variable's Text, Text.Matches, Line against a variable's Line or a constant, Node.Is, !, &&, ||",
                "regexpHasCaptureGroups itself is verified in C11 (has_capture_correct); here only its use (path choice) is modelled"]

    c.sh([os.path.join(c.verif, "coq", "build.sh")], timeout=3400)
    c.require_theories("Base/*.v", "Regex/Utf8.v", "Regex/Regex.v", "Regex/Capture.v", "Engine/TruncateSpec.v", "Engine/RenderSpec.v",
                       "Engine/CommentSpec.v", "Engine/CommentLoop.v", "Engine/CommentLoad.v", "Engine/CommentHandler.v", "Engine/FileBytes.v")

    gen_ok = False
    gen12_ok = False
    if c.go2coq("c03extras", "Gen_C03.v"):
        if c.coq_compile(["Gen_C03.v"]):
            gen_ok = True
    if c.go2coq("c12facts", "Gen_C12.v"):
        if c.coq_compile(["Gen_C12.v"]):
            gen12_ok = True
    # handleCommentMatch, translated statement by statement (the reused report record is part of the world it transforms)
    handler_ok = False
    if c.go2coq("c12handler", "Gen_C12Handler.v"):
        if c.coq_compile(["Gen_C12Handler.v"]):
            c.install_tmpl("C12/Def_CommentHandler.v")
            handler_ok = c.coq_compile(["Def_CommentHandler.v"])    # definitions only: the executed handler
    # runCommentRules, translated statement by statement, calling the translated handler; the executed model uses it when both translate
    loop_ok = False
    if c.go2coq("c12loop", "Gen_C12Loop.v"):
        if c.coq_compile(["Gen_C12Loop.v"]) and handler_ok:
            c.install_tmpl("C12/Def_CommentLoop.v")
            loop_ok = c.coq_compile(["Def_CommentLoop.v"])    # definitions only: the executed model
    # loadCommentRule + the tail of loadRule that ranges over rule.CommentPatterns, translated statement by statement; the
    # executed model loads its rules with the translated loader when it translates
    load_ok = False
    if c.go2coq("c12load", "Gen_C12Load.v"):
        if c.coq_compile(["Gen_C12Load.v"]):
            c.install_tmpl("C12/Def_CommentLoad.v")
            load_ok = c.coq_compile(["Def_CommentLoad.v"])    # definitions only: the executed loader
    # rulesRunner.fileBytes (the bytes `$$` / `$name` / Where() texts are sliced from), translated; the life of rr.src across the
    # runs of one reused RunnerState (shared with C03)
    src_ok = False
    if c.go2coq("c03src", "Gen_C03Src.v"):
        if c.coq_compile(["Gen_C03Src.v"]):
            src_ok = True
    if gen_ok and gen12_ok:
        c.install_tmpl("C03/Inst_Render.v", "C03/Inst_FileBytes.v", "C12/Inst_Comment.v", "C12/Inst_CommentHandler.v", "C12/Inst_CommentLoop.v", "C12/Inst_CommentLoad.v", "C12/C12.v")
        c.coq_compile(["Inst_Render.v", "Inst_Comment.v"])
        if src_ok:
            src_ok = c.coq_compile(["Inst_FileBytes.v"])
        else:
            c.obligation("coq:Inst_FileBytes.v", False, "not compiled: fileBytes did not translate")
        if handler_ok:
            handler_proved = c.coq_compile(["Inst_CommentHandler.v"])
        else:
            handler_proved = False
            c.obligation("coq:Inst_CommentHandler.v", False, "not compiled: handleCommentMatch did not translate")
        if loop_ok and handler_proved:
            c.coq_compile(["Inst_CommentLoop.v"])
        else:
            c.obligation("coq:Inst_CommentLoop.v", False, "not compiled: runCommentRules / handleCommentMatch did not translate or the handler proof broke")
        if load_ok:
            c.coq_compile(["Inst_CommentLoad.v"])
        else:
            c.obligation("coq:Inst_CommentLoad.v", False, "not compiled: the loader of comment rules did not translate")
        if loop_ok and load_ok and src_ok:
            c.coq_compile(["C12.v"])
        else:
            c.obligation("coq:C12.v", False, "not compiled: a file it depends on failed")
    # the executed model declares the loop's match data where the source does (read off by go2coq); without a readable
    # source it falls back to the specified behaviour
    fresh = "gen_c12_match_data_fresh" if gen12_ok else "true"

    hb = c.build_harness("c12")
    if hb is None:
        return c.finish()

    def observe(nrand, ncomments, seed):
        tmp = os.path.join(c.work, "tmp")
        os.makedirs(tmp, exist_ok=True)
        rc, out = c.run_harness(hb, ["-seed", str(seed), "-rand", str(nrand), "-comments", str(ncomments), "-tmp", tmp], timeout=900)
        obs = []
        for line in out.splitlines():
            line = line.strip()
            if line.startswith("{"):
                try:
                    obs.append(json.loads(line))
                except ValueError:
                    pass
        if rc != 0:
            c.obligation("harness-run:c12", False, out[-2000:])
        return obs

    def compare(obs, tag):
        rules = next((o["rules"] for o in obs if o["k"] == "rules"), None)
        finfo = next((o for o in obs if o["k"] == "file"), None)
        comments = [o for o in obs if o["k"] == "comment"]
        if rules is None or finfo is None:
            c.obligation("harness-output:c12", False, "no rules/file record")
            return
        if finfo["parser_comments"] != finfo["built_comments"]:
            c.obligation("harness-consistency:c12", False, "the parser found %d comments, %d were generated" % (
                finfo["parser_comments"], finfo["built_comments"]))
        srcs = [b64(x) for x in finfo["srcs"]]
        path_of = finfo.get("path_of") or []
        in_memory = finfo.get("in_memory", -1)
        pending = []
        irules = next((o["irules"] for o in obs if o["k"] == "irules"), None)
        loaded = next((o["loaded"] for o in obs if o["k"] == "loaded"), None)
        if irules is None or loaded is None:
            c.obligation("harness-output:c12", False, "no irules/loaded record")
            return
        loaded = loaded or []
        # ---- O (loader): every regexp of every MatchComment call is a comment rule of its own, in the written order: the
        # engine's rule list is the list of the written regexps (pattern source to the byte, group names of THAT regexp, its
        # line, its group), the calls in source order, the rules files in load order
        first_of_group = {}
        for k, r in enumerate(rules):
            first_of_group.setdefault(r["group"], k)
        call_of = {ir["group"]: ir for ir in irules}

        def call_text(group):
            ir = call_of.get(group)
            if ir is None:
                return None
            return "m.MatchComment(%s)%s.Report(`%s`)" % (", ".join("`%s`" % a["pat"] for a in ir["alts"]),
                                                          (".Where(..)" if ir["filter"] else "") + (".At(m[%r])" % ir["at"] if ir["at"] else ""), ir["msg"])
        c.count(len(irules))
        for ir in irules:
            if len(ir["alts"]) > 1:
                c.nontriv(("call", ir["group"], tuple(a["pat"] for a in ir["alts"])))
        load_bad = False
        by_group = {}
        for lr in loaded:
            by_group.setdefault(lr["Group"], []).append(lr)
        for ir in irules:
            got = by_group.get(ir["group"], [])
            want = [(a["pat"], a["line"]) for a in ir["alts"]]
            have = [(lr["Pattern"], lr["Line"]) for lr in got]
            if want != have:
                load_bad = True
                c.fail("oracle", "a MatchComment call is not loaded as one comment rule per regexp, in the written order (pattern source, line)",
                       input={"call": call_text(ir["group"]), "group": ir["group"], "rules_file": ir["file"]},
                       expected=[{"pattern": p_, "line": l_} for p_, l_ in want], observed=[{"pattern": p_, "line": l_} for p_, l_ in have])
        if not load_bad:
            if [lr["Group"] for lr in loaded] != [r["group"] for r in rules]:
                load_bad = True
                c.fail("oracle", "the loaded comment rules do not stand in load order (rules files in the order they were loaded, calls in source order)",
                       input={"rules_files": 3, "calls": len(irules)}, expected=[r["group"] for r in rules][:40], observed=[lr["Group"] for lr in loaded][:40])
        if not load_bad:
            for r, lr in zip(rules, loaded):
                exp = {"names": r["names"], "capture_groups": r["numsub"] > 0, "msg": r["msg"], "sugg": r["sugg"], "at": r["at"]}
                got = {"names": lr["SubexpNames"], "capture_groups": lr["CaptureGroups"], "msg": lr["Msg"], "sugg": lr["Suggestion"], "at": lr["Location"]}
                if exp != got:
                    c.fail("oracle", "a loaded comment rule does not carry its own regexp's group names / capture flag / the call's templates",
                           input={"call": call_text(r["group"]), "alternative": r["pat"]}, expected=exp, observed=got)
        c.coverage["matchcomment_calls"] = len(irules)
        c.coverage["calls_with_several_regexps"] = sum(1 for ir in irules if len(ir["alts"]) > 1)
        # the flag that sends a rule down the no-submatch path must not be false for a pattern that names a group
        for r in rules:
            c.count()
            named_groups = [n for n in r["names"] if n]
            if named_groups:
                c.nontriv(("pattern", r["pat"]))
            if named_groups and not r["groups"]:
                c.fail("oracle", "regexpHasCaptureGroups is false for a pattern with named groups: the rule takes the no-submatch path and "
                       "its groups are never bound", input={"pattern": r["pat"], "SubexpNames": r["names"]}, expected=True, observed=False)
        # every report of a comment rule sits in a comment of the analysed file
        for o in obs:
            if o["k"] == "stray":
                c.fail("oracle", "a comment rule reported a node that lies in no comment of the analysed file",
                       input={"file": o["file"], "TruncateLen": o["L"], "group": o["group"], "rule_line": o["line"]}, expected="a node inside a comment",
                       observed={"node_file": o["node_file"], "nil_node": o["nil_node"], "pos": o["pos"], "end": o["end"], "message": repr(b64(o["msg"]))})

        def rep_tuple(r):
            return (r["pos"], r["end"], b64(r["msg"]), bool(r["has_sugg"]), r["sugg_from"] if r["has_sugg"] else 0,
                    r["sugg_to"] if r["has_sugg"] else 0, b64(r["sugg"]) if r["has_sugg"] else b"", r["line"])

        # ---- O
        for i, o in enumerate(comments):
            c.count()
            inp = {"comment": repr(b64(o.get("src"))), "file": o.get("file"), "offset": o.get("off"), "TruncateLen": o["L"]}
            # the history of the runner state this run belongs to (only told when it is not the plain case: first run / a file of its own on disk)
            fi_, pv = o.get("file"), o.get("prev", -1)
            if fi_ is not None and path_of and (fi_ == in_memory or path_of[fi_] != fi_ or (pv is not None and pv >= 0 and path_of[pv] == path_of[fi_])):
                inp["history"] = {"run_of_the_state": o.get("step"), "file_on_disk": fi_ != in_memory,
                                  "version_of_the_path_of_file": path_of[fi_],
                                  "run_just_before": None if pv is None or pv < 0 else {
                                      "file": pv, "same_path": path_of[pv] == path_of[fi_], "same_byte_length": len(srcs[pv]) == len(srcs[fi_])}}
            if o.get("panic"):
                c.fail("oracle", "run over the comment file failed", input=inp, observed=o["panic"], expected="reports")
                continue
            ob = o.get("obs") or []
            w = o.get("want")
            if w is not None or ob:
                c.nontriv((o["src"], o["file"], o["off"], o["L"]))
            guard = FINDING if o["has_cr"] else None

            def ofail(what, exp, got):
                earlier = [rules[k]["pat"] for k in range(w["rule"] if w else len(rules)) if o["idx_src"][k] is not None]
                f = dict(what=what, input=dict(inp, rule=(rules[w["rule"]]["pat"] if w else None), filter=(rules[w["rule"]]["filter"] if w else None),
                                               earlier_rules_that_matched_and_rejected=earlier[:8]), expected=exp, observed=got)
                if guard:
                    pending.append((i, f))
                else:
                    c.fail("oracle", **f)
            if len(ob) > 1:
                ofail("more than one comment rule reported for one comment (the first accepting rule must win)", 1,
                      [(r["group"], r["line"]) for r in ob])
                continue
            if (w is None) != (not ob):
                ofail("a report was expected / not expected for this comment",
                      None if w is None else {"group": w["group"], "pos": w["pos"], "end": w["end"], "message": repr(b64(w["msg"]))},
                      None if not ob else {"group": ob[0]["group"], "pos": ob[0]["pos"], "end": ob[0]["end"], "message": repr(b64(ob[0]["msg"]))})
                continue
            if w is None:
                continue
            r = ob[0]
            if r["group"] != w["group"] or r["line"] != w["line"]:
                ofail("a different comment rule / alternative reported than the first accepting one", {"group": w["group"], "line": w["line"]},
                      {"group": r["group"], "line": r["line"]})
                continue
            if (r["pos"], r["end"]) != (w["pos"], w["end"]):
                ofail("the reported node does not cover exactly the bytes of the regexp match inside the comment", [w["pos"], w["end"]],
                      [r["pos"], r["end"]])
            if b64(r["msg"]) != b64(w["msg"]):
                ofail("$$ / named groups do not interpolate to the submatch texts", repr(b64(w["msg"])), repr(b64(r["msg"])))
            if bool(r["has_sugg"]) != bool(w["has_sugg"]):
                ofail("suggestion presence differs", w["has_sugg"], r["has_sugg"])
            elif r["has_sugg"]:
                if (r["sugg_from"], r["sugg_to"]) != (w["sugg_from"], w["sugg_to"]):
                    ofail("Suggest does not replace exactly the matched span", [w["sugg_from"], w["sugg_to"]], [r["sugg_from"], r["sugg_to"]])
                if b64(r["sugg"]) != b64(w["sugg"]):
                    ofail("suggestion text differs", repr(b64(w["sugg"])), repr(b64(r["sugg"])))
            if not (o["off"] <= r["pos"] <= r["end"] <= o["off"] + len(b64(o["src"]))) and not o["has_cr"]:
                ofail("the reported node does not lie inside the comment", [o["off"], o["off"] + len(b64(o["src"]))], [r["pos"], r["end"]])
        # the classes a call with several regexps is about must be reached (measured): a later-written alternative reports;
        # the reporting alternative stands BEFORE another alternative of its call that matches further to the left
        non_first = beats_leftmost = after_rejected_alt = 0
        for o in comments:
            w = o.get("want")
            if not w or o.get("has_cr"):
                continue
            k0 = first_of_group[w["group"]]
            j = w["rule"] - k0
            if j > 0:
                non_first += 1
                if any(o["idx_src"][k] is not None for k in range(k0, w["rule"])):
                    after_rejected_alt += 1
            mine = o["idx_src"][w["rule"]]
            k = w["rule"] + 1
            while k < len(rules) and rules[k]["group"] == w["group"]:
                if o["idx_src"][k] is not None and mine is not None and o["idx_src"][k][0] < mine[0]:
                    beats_leftmost += 1
                    break
                k += 1
        for key, v in (("reports_by_a_later_written_alternative", non_first), ("reports_where_a_later_written_alternative_matches_further_left", beats_leftmost),
                       ("reports_after_an_earlier_alternative_of_the_call_matched_and_rejected", after_rejected_alt)):
            c.coverage[key] = c.coverage.get(key, 0) + v
        if not any(o.get("panic") for o in comments):       # a run that died has no expectations to count
            c.obligation("generator:%s reaches the alternative classes" % tag, non_first >= 8 and beats_leftmost >= 4 and after_rejected_alt >= 4,
                         "later-written alternative reports: %d, written order beats leftmost: %d, after a rejected earlier alternative: %d" % (
                             non_first, beats_leftmost, after_rejected_alt))
        # the classes the whole-text / whole-span / current-bytes clauses are about must be reached (measured)
        cut_l = sum(1 for o in comments if o["L"] == 0 and o.get("cut_l"))
        cut_r = sum(1 for o in comments if o["L"] == 0 and o.get("cut_r"))
        cut_l_noreport = sum(1 for o in comments if o["L"] == 0 and o.get("cut_l") and not o.get("want"))
        loose_fast = loose_grouped = 0
        for o in comments:
            w = o.get("want")
            if w and not o.get("has_cr") and rules[w["rule"]].get("anyends"):
                if rules[w["rule"]]["numsub"] == 0:
                    loose_fast += 1
                else:
                    loose_grouped += 1

        def want_key(o):
            w = o.get("want")
            return None if not w else (w["group"], w["line"], w["pos"], w["end"], w["msg"], w.get("sugg"))
        by_version = {}
        for o in comments:
            if not o.get("panic"):
                by_version[(o["file"], o["off"], o["L"])] = o
        same_len_pairs = [(a, b) for a in range(len(srcs)) for b in range(len(srcs)) if a != b and path_of and path_of[a] == path_of[b]
                          and len(srcs[a]) == len(srcs[b]) and srcs[a] != srcs[b]]
        adjacent = set()
        for L_, order in (finfo.get("orders") or {}).items():
            for x, y in zip(order, order[1:]):
                adjacent.add((x, y))
        same_len_diff = same_len_adjacent = 0
        for a, b in same_len_pairs:
            n = sum(1 for (f, off, L_), o in by_version.items() if f == b and (a, off, L_) in by_version and want_key(by_version[(a, off, L_)]) != want_key(o))
            same_len_diff += n
            if (a, b) in adjacent:
                same_len_adjacent += n
        in_mem_reports = sum(1 for o in comments if o.get("file") == in_memory and o.get("want"))
        for key, v in (("comments_where_a_later_start_would_satisfy_an_assertion", cut_l), ("comments_where_an_earlier_end_would_satisfy_an_assertion", cut_r),
                       ("reports_of_groupless_regexps_with_a_loose_end", loose_fast), ("reports_of_regexps_with_groups_and_a_loose_end", loose_grouped),
                       ("comments_whose_expected_report_differs_between_same_length_versions_of_a_path", same_len_diff),
                       ("reports_expected_in_a_file_that_is_not_on_disk", in_mem_reports)):
            c.coverage[key] = c.coverage.get(key, 0) + v
        if not any(o.get("panic") for o in comments):
            c.obligation("generator:%s reaches the assertion classes" % tag, cut_l >= 40 and cut_r >= 10 and cut_l_noreport >= 10,
                         "a later start would match: %d comments (%d of them must not be reported at all), an earlier end would match: %d" % (cut_l, cut_l_noreport, cut_r))
            c.obligation("generator:%s reaches the whole-span classes" % tag, loose_fast >= 40 and loose_grouped >= 8,
                         "reports of regexps that begin / end with a repetition of anything: %d without groups, %d with groups" % (loose_fast, loose_grouped))
            c.obligation("generator:%s reaches the rewritten-file classes" % tag, same_len_diff >= 16 and same_len_adjacent >= 8 and in_mem_reports >= 8,
                         "expected report differs between two same-length versions of one path: %d comments (%d of them in runs that follow each other "
                         "directly), reports in the file that is not on disk: %d" % (same_len_diff, same_len_adjacent, in_mem_reports))
        c.coverage["oracle_vs_impl_cases"] = c.coverage.get("oracle_vs_impl_cases", 0) + len(comments)
        c.coverage["comments_with_CR"] = c.coverage.get("comments_with_CR", 0) + sum(1 for o in comments if o.get("has_cr"))
        c.coverage["comment_rules"] = len(rules)
        c.coverage["rules_with_short_named_group_syntax"] = sum(1 for r in rules if "(?<" in r["pat"])
        c.coverage["target_files_in_one_fileset"] = len(srcs)
        c.coverage["comments_where_an_earlier_rule_matched_and_rejected"] = c.coverage.get("comments_where_an_earlier_rule_matched_and_rejected", 0) + sum(
            1 for o in comments if o.get("want") and any(o["idx_src"][k] is not None for k in range(o["want"]["rule"])))

        # ---- K: the Coq model with Go's regexp as the index oracle
        def coq_filter(f):
            if not f:
                return "FTrue"
            op = f["op"]
            v, lit = coq_bytes(f.get("var", "").encode()), coq_bytes(f.get("lit", "").encode())
            if op in ("eq", "ne", "eqvar", "nevar", "matches"):
                return "(%s %s %s)" % ({"eq": "FTextEq", "ne": "FTextNe", "eqvar": "FTextEqVar", "nevar": "FTextNeVar", "matches": "FTextMatches"}[op], v, lit)
            if op in ("lineeq", "linene", "linelt"):
                return "(%s %s %s)" % ({"lineeq": "FLineEq", "linene": "FLineNe", "linelt": "FLineLt"}[op], v, lit)
            if op == "linegt":
                return "(FLineGtC %s %d)" % (v, f.get("n", 0))
            if op == "nodeis":
                return "(FNodeIs %s %s)" % (v, lit)
            if op == "not":
                return "(FNot %s)" % coq_filter(f["a"])
            return "(%s %s %s)" % ({"and": "FAnd", "or": "FOr"}[op], coq_filter(f["a"]), coq_filter(f["b"]))

        def coq_rule(r):
            return ("{| c_names := [%s]; c_groups := %s; c_filter := %s; c_rule := {| r_msg := %s; r_sugg := %s; r_loc := %s; r_line := %d |} |}" % (
                ";".join(coq_bytes(n.encode()) for n in r["names"]), "true" if r["groups"] else "false", coq_filter(r.get("filter")), coq_bytes(r["msg"].encode()),
                coq_bytes(r["sugg"].encode()), ("(Some %s)" % coq_bytes(r["at"].encode())) if r["at"] else "None", r["line"]))

        def coq_irule(ir):
            return "{| i_alts := [%s]; i_filter := %s; i_msg := %s; i_sugg := %s; i_loc := %s |}" % (
                "; ".join("{| a_pat := %s; a_line := %d |}" % (coq_bytes(a["pat"].encode()), a["line"]) for a in ir["alts"]),
                coq_filter(ir.get("filter")), coq_bytes(ir["msg"].encode()), coq_bytes(ir["sugg"].encode()),
                ("(Some %s)" % coq_bytes(ir["at"].encode())) if ir["at"] else "None")
        nfiles = 1 + max(ir["file"] for ir in irules)
        pat_names, pat_groups = {}, {}
        for r in rules:
            pat_names[r["pat"]] = r["names"]
            pat_groups[r["pat"]] = r["groups"]

        def coq_idxs(idxs):
            # one entry per rule, mostly "no match": written sparsely (rule index, index vector) and expanded inside the evaluation
            return "(tl_expand %d%%nat 0 [%s])" % (len(idxs), ";".join("(%d, [%s])" % (k, ";".join("%d" % x for x in ix))
                                                                      for k, ix in enumerate(idxs) if ix is not None))

        def coq_mt(mt):
            return "[%s]" % ";".join("(%s, %s, %s)" % (coq_pk(b64(x["pat"])), coq_pk(b64(x["text"])), "true" if x["ok"] else "false") for x in (mt or []))

        def coq_obs(ob):
            if not ob:
                return "None"
            t = rep_tuple(ob[0])
            return "(Some (%d, %d, %s, %s, %d, %d, %s, %d))" % (t[0], t[1], coq_pk(t[2]), "true" if t[3] else "false", t[4], t[5], coq_pk(t[6]), t[7])
        pre = "\n".join([
            "From Coq Require Import List ZArith Bool Arith.",
            "From RG.Base Require Import Outcome GoInt GoSlice.",
            "From RG.Engine Require Import TruncateSpec RenderSpec CommentSpec.",
            ("From RGW Require Import Gen_C12." if gen12_ok else ""),
            ("From RG.Engine Require Import RenderLoop CommentLoop CommentHandler.\nFrom RGW Require Import Gen_C12Loop Gen_C12Handler Def_CommentHandler Def_CommentLoop." if loop_ok else ""),
            "From RGW Require Import Gen_C03." if gen_ok else
            "Definition nodeTextInRange (from to : Z) (src : bytes) : outcome bool := Ok ((0 <=? from)%Z && (from <? len src)%Z && ((from <=? to)%Z && (to <=? len src)%Z)).",
            "Import ListNotations. Local Open Scope Z_scope.",
            PACK_PRELUDE,
            # big list literals overflow coqc's parser stack: the files are given in chunks
            "\n".join("Definition src_%d_%d : bytes := %s." % (fi, k // 4000, coq_pk(x[k:k + 4000])) for fi, x in enumerate(srcs)
                      for k in range(0, max(len(x), 1), 4000)),
            "Definition srcs : list bytes := [%s]." % ";\n".join(
                "(" + " ++ ".join("src_%d_%d" % (fi, k // 4000) for k in range(0, max(len(x), 1), 4000)) + ")" for fi, x in enumerate(srcs)),
            "Definition bases : list Z := [%s]." % ";".join(str(b) for b in finfo["bases"]),
            # the rules are LOADED inside Coq from the calls as written: by the loader translated from ir_loader.go when it
            # translates, else by the model loader; the regexp compiler's answers (SubexpNames, has-capture flag) are tables
            "From RG.Engine Require Import CommentLoad.",
            ("From RGW Require Import Gen_C12Load Def_CommentLoad." if load_ok else ""),
            "Definition irules : list (list irule) := [%s]." % ";\n".join(
                "[" + ";\n".join(coq_irule(ir) for ir in irules if ir["file"] == fi) + "]" for fi in range(nfiles)),
            "Definition names_tbl : list (bytes * list bytes) := [%s]." % ";\n".join(
                "(%s, [%s])" % (coq_bytes(p_.encode()), ";".join(coq_bytes(n.encode()) for n in ns)) for p_, ns in sorted(pat_names.items())),
            "Definition groups_tbl : list (bytes * bool) := [%s]." % ";".join(
                "(%s, %s)" % (coq_bytes(p_.encode()), "true" if g else "false") for p_, g in sorted(pat_groups.items())),
            "Definition compile_tbl (p : bytes) : option (list bytes) := option_map snd (find (fun x => bytes_eqb (fst x) p) names_tbl).",
            "Definition groups_of (p : bytes) : bool := match find (fun x => bytes_eqb (fst x) p) groups_tbl with Some x => snd x | None => false end.",
            "Definition loaded_rules : option (list crule) := Eval vm_compute in (%s compile_tbl groups_of irules [])." % (
                "gen_load_files" if load_ok else "load_files"),
            "Definition rules : list crule := match loaded_rules with Some rs => rs | None => [] end.",
            # what the engine loaded (hook dump): names, flag, line, templates, location -- must be what the model loads
            "Definition dump : list (list bytes * bool * Z * bytes * bytes * bytes) := [%s]." % ";\n".join(
                "([%s], %s, %d, %s, %s, %s)" % (";".join(coq_bytes(n.encode()) for n in lr["SubexpNames"]), "true" if lr["CaptureGroups"] else "false", lr["Line"],
                                                coq_bytes(lr["Msg"].encode()), coq_bytes(lr["Suggestion"].encode()), coq_bytes(lr["Location"].encode())) for lr in loaded),
            "Fixpoint all2 {A B} (f : A -> B -> bool) (xs : list A) (ys : list B) : bool := match xs, ys with [], [] => true | x :: xt, y :: yt => f x y && all2 f xt yt | _, _ => false end.",
            "Definition same_rule (r : crule) (o : list bytes * bool * Z * bytes * bytes * bytes) : bool := match o with (names, g, ln, msg, sg, loc) =>",
            "  all2 bytes_eqb (c_names r) names && Bool.eqb (c_groups r) g && (r_line (c_rule r) =? ln) && bytes_eqb (r_msg (c_rule r)) msg &&",
            "  bytes_eqb (r_sugg (c_rule r)) sg && bytes_eqb (match r_loc (c_rule r) with Some v => v | None => [] end) loc end.",
            "Definition LOADED_OK : bool := Eval vm_compute in (match loaded_rules with Some rs => all2 same_rule rs dump | None => false end).",
            "Definition rep_eqb (m : option mreport) (o : option (Z * Z * bytes * bool * Z * Z * bytes * Z)) : bool :=",
            "  match m, o with None, None => true | Some r, Some (pos, en, msg, hs, sf, st, sg, ln) =>",
            "    (rep_pos r =? pos) && (rep_end r =? en) && bytes_eqb (rep_msg r) msg && (rep_line r =? ln) &&",
            "    match rep_sugg r with None => negb hs | Some (f, t, s) => hs && (f =? sf) && (t =? st) && bytes_eqb s sg end | _, _ => false end.",
        ])
        good = [(i, o) for i, o in enumerate(comments) if not o.get("panic") and len(o.get("obs") or []) <= 1]

        # the preamble (file contents, the rules loaded inside Coq, the engine's dump) is compiled ONCE per run; the shards import it
        pre_mod = "Pre_%s" % tag
        okp, outp = c.coq_eval(pre_mod + ".v", pre, timeout=900)
        if not okp:
            c.obligation("coq-eval:" + pre_mod + ".v", False, outp[-2000:])
            return
        pre_imports = "\n".join([
            "From Coq Require Import List ZArith Bool Arith Uint63.",
            "From RG.Base Require Import Outcome GoInt GoSlice.",
            "From RG.Engine Require Import TruncateSpec RenderSpec CommentSpec CommentLoad.",
            ("From RG.Engine Require Import RenderLoop CommentLoop CommentHandler.\nFrom RGW Require Import Gen_C12Loop Gen_C12Handler Def_CommentHandler Def_CommentLoop." if loop_ok else ""),
            ("From RGW Require Import Gen_C12." if gen12_ok else ""),
            ("From RGW Require Import Gen_C03." if gen_ok else ""),
            "From RGW Require Import %s." % pre_mod,
            "Import ListNotations. Local Open Scope Z_scope.",
        ])

        def shard(items):
            s = [pre_imports, "Definition cases : list (Z * Z * nat * Z * bytes * list (option (list Z)) * list (bytes * bytes * bool) * "
                 "option (Z * Z * bytes * bool * Z * Z * bytes * Z)) := ["]
            s.append(";\n".join("(%d, %d, %d%%nat, %d, %s, %s, %s, %s)" % (i, o["L"], o["file"], o["off"], coq_pk(b64(o["text"])),
                                                                        coq_idxs(o["idx"]), coq_mt(o.get("mt")),
                                                                        coq_obs(o.get("obs"))) for i, o in items))
            s.append("].")
            # the executed model: runCommentRules as translated from the source (file base from the FileSet), else the hand model
            # with the declaration site of the match data read off the source
            if loop_ok:
                # the reused report record starts out full of what an earlier report may have left (stale_world): none of it may show
                model = ("match gen_run_comment_rules nodeTextInRange (table_oracle mt) l (nth f srcs []) off text (nth f bases 0) (combine rules idxs) stale_world with "
                         "Ok w' => match reports_of w' with [] => negb (rep_eqb None ob) | [Some r] => negb (rep_eqb (Some r) ob) | _ => true end | Panic _ => true end")
            else:
                model = ("match run_loop nodeTextInRange (table_oracle mt) l (nth f srcs []) off text %s md_zero (combine rules idxs) with "
                         "Ok r => negb (rep_eqb r ob) | Panic _ => true end" % fresh)
            s.append("Definition bad := map (fun c => match c with (i, _, _, _, _, _, _, _) => i end) (filter (fun c => match c with (i, l, f, off, text, idxs, mt, ob) => "
                     "%s end) cases)." % model)
            s.append("Definition RES := Eval vm_compute in (bad, List.length cases, LOADED_OK).")
            s.append("Print RES.")
            return "\n".join(s)
        NSH = 8
        load_mismatch = []
        jobs = [("Cases_%s_%d.v" % (tag, k), shard(good[k::NSH])) for k in range(NSH)]
        bad = []
        for (fname, _), (ok, out) in zip(jobs, c.coq_eval_many(jobs, timeout=1500)):
            if not ok:
                c.obligation("coq-eval:" + fname, False, out[-2000:])
                return
            m = pyre.search(r"RES\s*=\s*\(\s*\[(.*?)\]\s*,", out, pyre.S)
            if not m:
                c.obligation("coq-eval-parse:" + fname, False, out[-2000:])
                return
            mm = pyre.search(r",\s*(true|false)\s*\)\s*(?::|$)", out[m.end():], pyre.S)
            if mm is None or mm.group(1) != "true":
                if not load_mismatch:
                    load_mismatch.append(fname)
            bad += [int(x.replace("%Z", "").strip()) for x in m.group(1).split(";") if x.strip()]
        if load_mismatch:
            c.fail("corr", "the rule list the Coq loader (%s) builds from the calls as written differs from what the engine loaded" % (
                "translated from ir_loader.go" if load_ok else "model"), input={"calls": len(irules), "rules_files": nfiles},
                observed=[(lr["Group"], lr["Pattern"], lr["Line"]) for lr in loaded][:30])
        badset = set(bad)
        for i, f in pending:
            c.fail("oracle", finding=(FINDING if i not in badset else None), **f)
        for i in bad:
            o = comments[i]
            c.fail("corr", "Coq comment-rule model differs from the observed report", input={"comment": repr(b64(o["src"])), "offset": o["off"],
                   "TruncateLen": o["L"]}, observed=[(r["group"], r["pos"], r["end"], repr(b64(r["msg"]))) for r in (o.get("obs") or [])])
        c.coverage["model_vs_impl_cases"] = c.coverage.get("model_vs_impl_cases", 0) + len(good)
        for o in comments[2:6]:
            if o.get("obs"):
                r = o["obs"][0]
                c.sample({"comment": repr(b64(o["src"])), "offset": o["off"], "group": r["group"], "pos": r["pos"], "end": r["end"],
                          "message": repr(b64(r["msg"]))[:90]})

    nrand, ncomments = (6, 400) if not thorough else (10, 1500)
    compare(observe(nrand, ncomments, c.seed), "main")
    compare(observe(nrand, ncomments, c.seed + 50), "second")
    if thorough:
        for k in range(1, 6):
            compare(observe(nrand, ncomments, c.seed + 100 * k), "t%d" % k)

    def search():
        compare(observe(8, 600, c.seed + 7), "search")

    c.coverage["exhaustive"] = False
    c.finish(search=search)
