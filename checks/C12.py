"""C12 -- comment rules report the matched span and its named groups precisely; the first accepting comment rule wins.

P: RG.Engine.CommentSpec models runCommentRules + handleCommentMatch with the regexp engine as an oracle (submatch
   indices, group names) and proves, for all comments at all offsets, all rule lists and all index vectors: the first
   rule (load order) that matches and accepts is the one that reports; the reported span is offset-of-comment + match
   indices, lies inside the comment, the bytes there are the matched text, Suggest replaces exactly that span; a named
   group is bound by regexp group index to its submatch text ("" when it did not participate). The theorems are
   instantiated with nodeText's in-range test regenerated from /repo (shared with C03) on every run, and runCommentRules
   itself is translated from runner.go statement by statement (go2coq c12loop) and proved on every run to BE that model
   (C12_translated_loop_is_model), for every base of the file in the FileSet.
K: the Coq model (the translated runCommentRules) is executed on every generated comment with the indices Go's regexp returned on comment.Text and
   compared with the observed ReportData (byte ranges, message, suggestion, line).
O: expected reports are computed independently from the comment's SOURCE bytes (regexp.FindSubmatchIndex on the file
   bytes at the comment's offset known by construction, independent of comment.Text) and compared with the observation.
"""
import base64
import json
import os
import re as pyre

from vlib import coq_bytes

FINDING = "C12-crlf-comment"


def b64(x):
    return base64.b64decode(x) if x else b""


def run(c):
    c.go2coq_sources = ["c03.go", "textmatch.go", "c12.go", "c03loop.go", "c12loop.go"]   # private translator build: another family's generator cannot break this check
    thorough = c.tier == "thorough"
    c.rule = ("14 fixed MatchComment rules (named, unnamed-in-front, optional, nested, alternative (non-participating) groups, no groups "
              "= fast path, multi-byte, (?s) multi-line, Where filters, At(), Suggest, two alternatives) plus seeded random rules inserted at "
              "random load positions; comments: line and block, after code and after multi-byte strings, adjacent, multi-line, empty, at "
              "EOF, with CRLF inside block comments, plus seeded random comments; TruncateLen 0 and 15; non-trivial = a report was "
              "expected or produced; distinct by (comment bytes, offset, TruncateLen)")
    c.trusted += [
        "Go regexp as an oracle: leftmost match and submatch indices (FindStringSubmatchIndex), SubexpNames -- inputs of the model",
        "go/parser + go/scanner deliver comment.Text and positions (the scanner strips \\r: see the known finding)",
        "go2coq c12loop: the statement-level Go->Gallina translator of runCommentRules (its reading of Go: let for :=, nested range loops "
        "with break/continue over explicit loop states, partial indexing/slicing in the outcome monad, token.File.Pos/Offset as base + "
        "offset, the composite literals as abstract constructors); handleCommentMatch is modelled by hand (CommentSpec.handle / "
        "mk_creport) -- tied by correspondence on every run and by the statement facts regenerated for C03 and C12",
        "go2coq c03extras (nodeText in-range test), c12facts; harness/cmd/c12 and hook VerifRegexpHasCaptureGroups (build tag verif)",
    ]
    c.notes += ["filters in the correspondence are of the form m[name].Text == literal; other predicates on comment captures go through nodeText the same way",
                "regexpHasCaptureGroups itself is verified in C11 (has_capture_correct); here only its use (path choice) is modelled"]

    c.sh([os.path.join(c.verif, "coq", "build.sh")], timeout=3400)
    c.require_theories("Base/*.v", "Regex/Utf8.v", "Regex/Regex.v", "Regex/Capture.v", "Engine/TruncateSpec.v", "Engine/RenderSpec.v",
                       "Engine/CommentSpec.v")

    gen_ok = False
    gen12_ok = False
    if c.go2coq("c03extras", "Gen_C03.v"):
        if c.coq_compile(["Gen_C03.v"]):
            gen_ok = True
    if c.go2coq("c12facts", "Gen_C12.v"):
        if c.coq_compile(["Gen_C12.v"]):
            gen12_ok = True
    # runCommentRules, translated statement by statement; the executed model uses it when it translates
    loop_ok = False
    if c.go2coq("c12loop", "Gen_C12Loop.v"):
        if c.coq_compile(["Gen_C12Loop.v"]):
            c.install_tmpl("C12/Def_CommentLoop.v")
            loop_ok = c.coq_compile(["Def_CommentLoop.v"])    # definitions only: the executed model
    if gen_ok and gen12_ok:
        c.install_tmpl("C03/Inst_Render.v", "C12/Inst_Comment.v", "C12/Inst_CommentLoop.v", "C12/C12.v")
        c.coq_compile(["Inst_Render.v", "Inst_Comment.v"])
        if loop_ok:
            c.coq_compile(["Inst_CommentLoop.v", "C12.v"])
        else:
            c.obligation("coq:Inst_CommentLoop.v", False, "not compiled: runCommentRules did not translate")
            c.obligation("coq:C12.v", False, "not compiled: a file it depends on failed")
    # the executed model declares the loop's match data where the source does (read off by go2coq); without a readable
    # source it falls back to the specified behaviour
    fresh = "gen_c12_match_data_fresh" if gen12_ok else "true"

    hb = c.build_harness("c12")
    if hb is None:
        return c.finish()

    def observe(nrand, ncomments, seed):
        tmp = os.path.join(c.work, "tmp")
        os.makedirs(tmp, exist_ok=True)
        rc, out = c.run_harness(hb, ["-seed", str(seed), "-rand", str(nrand), "-comments", str(ncomments), "-tmp", tmp], timeout=900)
        obs = []
        for line in out.splitlines():
            line = line.strip()
            if line.startswith("{"):
                try:
                    obs.append(json.loads(line))
                except ValueError:
                    pass
        if rc != 0:
            c.obligation("harness-run:c12", False, out[-2000:])
        return obs

    def compare(obs, tag):
        rules = next((o["rules"] for o in obs if o["k"] == "rules"), None)
        finfo = next((o for o in obs if o["k"] == "file"), None)
        comments = [o for o in obs if o["k"] == "comment"]
        if rules is None or finfo is None:
            c.obligation("harness-output:c12", False, "no rules/file record")
            return
        if finfo["parser_comments"] != finfo["built_comments"]:
            c.obligation("harness-consistency:c12", False, "the parser found %d comments, %d were generated" % (
                finfo["parser_comments"], finfo["built_comments"]))
        srcs = [b64(x) for x in finfo["srcs"]]
        pending = []
        # the flag that sends a rule down the no-submatch path must not be false for a pattern that names a group
        for r in rules:
            c.count()
            named_groups = [n for n in r["names"] if n]
            if named_groups:
                c.nontriv(("pattern", r["pat"]))
            if named_groups and not r["groups"]:
                c.fail("oracle", "regexpHasCaptureGroups is false for a pattern with named groups: the rule takes the no-submatch path and "
                       "its groups are never bound", input={"pattern": r["pat"], "SubexpNames": r["names"]}, expected=True, observed=False)
        # every report of a comment rule sits in a comment of the analysed file
        for o in obs:
            if o["k"] == "stray":
                c.fail("oracle", "a comment rule reported a node that lies in no comment of the analysed file",
                       input={"file": o["file"], "TruncateLen": o["L"], "group": o["group"], "rule_line": o["line"]}, expected="a node inside a comment",
                       observed={"node_file": o["node_file"], "nil_node": o["nil_node"], "pos": o["pos"], "end": o["end"], "message": repr(b64(o["msg"]))})

        def rep_tuple(r):
            return (r["pos"], r["end"], b64(r["msg"]), bool(r["has_sugg"]), r["sugg_from"] if r["has_sugg"] else 0,
                    r["sugg_to"] if r["has_sugg"] else 0, b64(r["sugg"]) if r["has_sugg"] else b"", r["line"])

        # ---- O
        for i, o in enumerate(comments):
            c.count()
            inp = {"comment": repr(b64(o.get("src"))), "file": o.get("file"), "offset": o.get("off"), "TruncateLen": o["L"]}
            if o.get("panic"):
                c.fail("oracle", "run over the comment file failed", input=inp, observed=o["panic"], expected="reports")
                continue
            ob = o.get("obs") or []
            w = o.get("want")
            if w is not None or ob:
                c.nontriv((o["src"], o["file"], o["off"], o["L"]))
            guard = FINDING if o["has_cr"] else None

            def ofail(what, exp, got):
                earlier = [rules[k]["pat"] for k in range(w["rule"] if w else len(rules)) if o["idx_src"][k] is not None]
                f = dict(what=what, input=dict(inp, rule=(rules[w["rule"]]["pat"] if w else None), filter=(rules[w["rule"]]["filter"] if w else None),
                                               earlier_rules_that_matched_and_rejected=earlier[:8]), expected=exp, observed=got)
                if guard:
                    pending.append((i, f))
                else:
                    c.fail("oracle", **f)
            if len(ob) > 1:
                ofail("more than one comment rule reported for one comment (the first accepting rule must win)", 1,
                      [(r["group"], r["line"]) for r in ob])
                continue
            if (w is None) != (not ob):
                ofail("a report was expected / not expected for this comment",
                      None if w is None else {"group": w["group"], "pos": w["pos"], "end": w["end"], "message": repr(b64(w["msg"]))},
                      None if not ob else {"group": ob[0]["group"], "pos": ob[0]["pos"], "end": ob[0]["end"], "message": repr(b64(ob[0]["msg"]))})
                continue
            if w is None:
                continue
            r = ob[0]
            if r["group"] != w["group"] or r["line"] != w["line"]:
                ofail("a different comment rule / alternative reported than the first accepting one", {"group": w["group"], "line": w["line"]},
                      {"group": r["group"], "line": r["line"]})
                continue
            if (r["pos"], r["end"]) != (w["pos"], w["end"]):
                ofail("the reported node does not cover exactly the bytes of the regexp match inside the comment", [w["pos"], w["end"]],
                      [r["pos"], r["end"]])
            if b64(r["msg"]) != b64(w["msg"]):
                ofail("$$ / named groups do not interpolate to the submatch texts", repr(b64(w["msg"])), repr(b64(r["msg"])))
            if bool(r["has_sugg"]) != bool(w["has_sugg"]):
                ofail("suggestion presence differs", w["has_sugg"], r["has_sugg"])
            elif r["has_sugg"]:
                if (r["sugg_from"], r["sugg_to"]) != (w["sugg_from"], w["sugg_to"]):
                    ofail("Suggest does not replace exactly the matched span", [w["sugg_from"], w["sugg_to"]], [r["sugg_from"], r["sugg_to"]])
                if b64(r["sugg"]) != b64(w["sugg"]):
                    ofail("suggestion text differs", repr(b64(w["sugg"])), repr(b64(r["sugg"])))
            if not (o["off"] <= r["pos"] <= r["end"] <= o["off"] + len(b64(o["src"]))) and not o["has_cr"]:
                ofail("the reported node does not lie inside the comment", [o["off"], o["off"] + len(b64(o["src"]))], [r["pos"], r["end"]])
        c.coverage["oracle_vs_impl_cases"] = c.coverage.get("oracle_vs_impl_cases", 0) + len(comments)
        c.coverage["comments_with_CR"] = c.coverage.get("comments_with_CR", 0) + sum(1 for o in comments if o.get("has_cr"))
        c.coverage["comment_rules"] = len(rules)
        c.coverage["rules_with_short_named_group_syntax"] = sum(1 for r in rules if "(?<" in r["pat"])
        c.coverage["target_files_in_one_fileset"] = len(srcs)
        c.coverage["comments_where_an_earlier_rule_matched_and_rejected"] = c.coverage.get("comments_where_an_earlier_rule_matched_and_rejected", 0) + sum(
            1 for o in comments if o.get("want") and any(o["idx_src"][k] is not None for k in range(o["want"]["rule"])))

        # ---- K: the Coq model with Go's regexp as the index oracle
        def coq_filter(f):
            if not f:
                return "FTrue"
            op = f["op"]
            v, lit = coq_bytes(f.get("var", "").encode()), coq_bytes(f.get("lit", "").encode())
            if op in ("eq", "ne", "eqvar", "nevar", "matches"):
                return "(%s %s %s)" % ({"eq": "FTextEq", "ne": "FTextNe", "eqvar": "FTextEqVar", "nevar": "FTextNeVar", "matches": "FTextMatches"}[op], v, lit)
            if op == "not":
                return "(FNot %s)" % coq_filter(f["a"])
            return "(%s %s %s)" % ({"and": "FAnd", "or": "FOr"}[op], coq_filter(f["a"]), coq_filter(f["b"]))

        def coq_rule(r):
            return ("{| c_names := [%s]; c_groups := %s; c_filter := %s; c_rule := {| r_msg := %s; r_sugg := %s; r_loc := %s; r_line := %d |} |}" % (
                ";".join(coq_bytes(n.encode()) for n in r["names"]), "true" if r["groups"] else "false", coq_filter(r.get("filter")), coq_bytes(r["msg"].encode()),
                coq_bytes(r["sugg"].encode()), ("(Some %s)" % coq_bytes(r["at"].encode())) if r["at"] else "None", r["line"]))

        def coq_idx(ix):
            if ix is None:
                return "None"
            return "(Some [%s])" % ";".join("%d" % x for x in ix)

        def coq_mt(mt):
            return "[%s]" % ";".join("(%s, %s, %s)" % (coq_bytes(b64(x["pat"])), coq_bytes(b64(x["text"])), "true" if x["ok"] else "false") for x in (mt or []))

        def coq_obs(ob):
            if not ob:
                return "None"
            t = rep_tuple(ob[0])
            return "(Some (%d, %d, %s, %s, %d, %d, %s, %d))" % (t[0], t[1], coq_bytes(t[2]), "true" if t[3] else "false", t[4], t[5], coq_bytes(t[6]), t[7])
        pre = "\n".join([
            "From Coq Require Import List ZArith Bool Arith.",
            "From RG.Base Require Import Outcome GoInt GoSlice.",
            "From RG.Engine Require Import TruncateSpec RenderSpec CommentSpec.",
            ("From RGW Require Import Gen_C12." if gen12_ok else ""),
            ("From RG.Engine Require Import RenderLoop CommentLoop.\nFrom RGW Require Import Gen_C12Loop Def_CommentLoop." if loop_ok else ""),
            "From RGW Require Import Gen_C03." if gen_ok else
            "Definition nodeTextInRange (from to : Z) (src : bytes) : outcome bool := Ok ((0 <=? from)%Z && (from <? len src)%Z && ((0 <=? to)%Z && (to <=? len src)%Z)).",
            "Import ListNotations. Local Open Scope Z_scope.",
            # big list literals overflow coqc's parser stack: the files are given in chunks
            "\n".join("Definition src_%d_%d : bytes := %s." % (fi, k // 4000, coq_bytes(x[k:k + 4000])) for fi, x in enumerate(srcs)
                      for k in range(0, max(len(x), 1), 4000)),
            "Definition srcs : list bytes := [%s]." % ";\n".join(
                "(" + " ++ ".join("src_%d_%d" % (fi, k // 4000) for k in range(0, max(len(x), 1), 4000)) + ")" for fi, x in enumerate(srcs)),
            "Definition bases : list Z := [%s]." % ";".join(str(b) for b in finfo["bases"]),
            "Definition rules : list crule := [%s]." % ";\n".join(coq_rule(r) for r in rules),
            "Definition rep_eqb (m : option mreport) (o : option (Z * Z * bytes * bool * Z * Z * bytes * Z)) : bool :=",
            "  match m, o with None, None => true | Some r, Some (pos, en, msg, hs, sf, st, sg, ln) =>",
            "    (rep_pos r =? pos) && (rep_end r =? en) && bytes_eqb (rep_msg r) msg && (rep_line r =? ln) &&",
            "    match rep_sugg r with None => negb hs | Some (f, t, s) => hs && (f =? sf) && (t =? st) && bytes_eqb s sg end | _, _ => false end.",
        ])
        good = [(i, o) for i, o in enumerate(comments) if not o.get("panic") and len(o.get("obs") or []) <= 1]

        def shard(items):
            s = [pre, "Definition cases : list (Z * Z * nat * Z * bytes * list (option (list Z)) * list (bytes * bytes * bool) * "
                 "option (Z * Z * bytes * bool * Z * Z * bytes * Z)) := ["]
            s.append(";\n".join("(%d, %d, %d%%nat, %d, %s, [%s], %s, %s)" % (i, o["L"], o["file"], o["off"], coq_bytes(b64(o["text"])),
                                                                          ";".join(coq_idx(ix) for ix in o["idx"]), coq_mt(o.get("mt")),
                                                                          coq_obs(o.get("obs"))) for i, o in items))
            s.append("].")
            # the executed model: runCommentRules as translated from the source (file base from the FileSet), else the hand model
            # with the declaration site of the match data read off the source
            if loop_ok:
                model = ("match gen_run_comment_rules nodeTextInRange (table_oracle mt) l (nth f srcs []) off text (nth f bases 0) (combine rules idxs) [] with "
                         "Ok [] => negb (rep_eqb None ob) | Ok [r] => negb (rep_eqb (Some r) ob) | Ok _ => true | Panic _ => true end")
            else:
                model = ("match run_loop nodeTextInRange (table_oracle mt) l (nth f srcs []) off text %s md_zero (combine rules idxs) with "
                         "Ok r => negb (rep_eqb r ob) | Panic _ => true end" % fresh)
            s.append("Definition bad := map (fun c => match c with (i, _, _, _, _, _, _, _) => i end) (filter (fun c => match c with (i, l, f, off, text, idxs, mt, ob) => "
                     "%s end) cases)." % model)
            s.append("Definition RES := Eval vm_compute in (bad, List.length cases).")
            s.append("Print RES.")
            return "\n".join(s)
        NSH = 8
        jobs = [("Cases_%s_%d.v" % (tag, k), shard(good[k::NSH])) for k in range(NSH)]
        bad = []
        for (fname, _), (ok, out) in zip(jobs, c.coq_eval_many(jobs, timeout=1500)):
            if not ok:
                c.obligation("coq-eval:" + fname, False, out[-2000:])
                return
            m = pyre.search(r"RES\s*=\s*\(\s*\[(.*?)\]\s*,", out, pyre.S)
            if not m:
                c.obligation("coq-eval-parse:" + fname, False, out[-2000:])
                return
            bad += [int(x.replace("%Z", "").strip()) for x in m.group(1).split(";") if x.strip()]
        badset = set(bad)
        for i, f in pending:
            c.fail("oracle", finding=(FINDING if i not in badset else None), **f)
        for i in bad:
            o = comments[i]
            c.fail("corr", "Coq comment-rule model differs from the observed report", input={"comment": repr(b64(o["src"])), "offset": o["off"],
                   "TruncateLen": o["L"]}, observed=[(r["group"], r["pos"], r["end"], repr(b64(r["msg"]))) for r in (o.get("obs") or [])])
        c.coverage["model_vs_impl_cases"] = c.coverage.get("model_vs_impl_cases", 0) + len(good)
        for o in comments[2:6]:
            if o.get("obs"):
                r = o["obs"][0]
                c.sample({"comment": repr(b64(o["src"])), "offset": o["off"], "group": r["group"], "pos": r["pos"], "end": r["end"],
                          "message": repr(b64(r["msg"]))[:90]})

    nrand, ncomments = (6, 400) if not thorough else (10, 1500)
    compare(observe(nrand, ncomments, c.seed), "main")
    compare(observe(nrand, ncomments, c.seed + 50), "second")
    if thorough:
        for k in range(1, 6):
            compare(observe(nrand, ncomments, c.seed + 100 * k), "t%d" % k)

    def search():
        compare(observe(8, 600, c.seed + 7), "search")

    c.coverage["exhaustive"] = False
    c.finish(search=search)
