"""C19 -- the go/analysis adapter relays the engine faithfully.

P: the Report callback, the -enable/-disable loops, the GroupFilter closure, prepareEngine (as a statement tree),
   the head of runAnalyzer and the lock-site table of the adapter's globals are regenerated from
   /repo/analyzer/*.go (go2coq adapter); coq/tmpl/C19 re-proves against them: one diagnostic per report = the
   specified image (relay_one_per_report), the filter selects exactly the named groups for ALL flag strings,
   newEngine runs exactly once over ANY history of passes, a load failure is returned exactly once, every access
   to the globals is under globalEngineMu (or a post-publication read).
K: the regenerated Coq functions are evaluated (vm_compute) on the histories the harness drove through the real
   analyzer.Analyzer.Run (sequential passes + a 16-goroutine burst, rules rewritten on disk between passes) and
   the outputs/states are diffed.
O: independent oracle: the same rules loaded into a plain ruleguard.Engine (no GroupFilter) and run directly; its
   reports are mapped by the *specification* functions (diag_of_report, filter_specb, prepare_spec_fn).
"""
import json
import os
import re

from vlib import coq_bytes
import bhlib


def B(s):
    return coq_bytes(s.encode("utf8", "surrogateescape") if isinstance(s, str) else s)


def coq_report(r):
    sugg = "None"
    if r["has_sugg"]:
        sugg = "(Some {| s_from := %d; s_to := %d; s_replacement := %s |})" % (r["from"], r["to"], B(r["text"]))
    return ("{| rd_rule_info := {| ri_line := %d; ri_group := {| g_name := %s; g_filename := %s |} |}; "
            "rd_node_pos := %d; rd_message := %s; rd_suggestion := %s |}" % (
                r["line"], B(r["group"]), B(r["gfile"]), r["pos"], B(r["msg"]), sugg))


def coq_diag(d):
    fixes = []
    for f in d["fixes"] or []:
        edits = ["{| te_pos := %d; te_end := %d; te_new_text := %s |}" % (e["pos"], e["end"], B(e["text"])) for e in f["edits"] or []]
        fixes.append("{| sf_message := %s; sf_text_edits := [%s] |}" % (B(f["msg"]), "; ".join(edits)))
    end = 0 if d["end"] == -1 else d["end"]
    return "{| dg_pos := %d; dg_end := %d; dg_category := %s; dg_message := %s; dg_suggested_fixes := [%s] |}" % (
        d["pos"], end, B(d["cat"]), B(d["msg"]), "; ".join(fixes))


GOVER = "parse Go version"


def norm_epos(s):
    """-e: the frame around the text is specified up to white space, so line:column of the synthesized file `e` are not"""
    return re.sub(r"\be:\d+(:\d+)?", "e:_", s) if s else s


def coq_output(st):
    if st.get("panic"):
        return "PModelFail"
    if st["err"]:
        e = st["err"]
        if e.startswith(GOVER):
            e = GOVER
        return "(PErr %s)" % B(e)
    return "(PDiags [%s])" % "; ".join(coq_diag(d) for d in st["diags"])


PKGS = {"pa": 0, "pb": 1, "pc": 2, "pd": 3, "pe": 4, "pf": 5, "p0": 6}  # p0: the package without files (emptypass.go)


def load_error_text(sc, version):
    """what newEngine() returns as an error for this scenario when the rules on disk are at `version` (None: it loads)"""
    mode = sc["mode"]
    if mode == "none":
        return "both -e and -rules flags are empty"
    derr = sc["direct_err"].get(str(version))
    if mode in ("rules", "rules+e"):
        if derr is not None:
            return "parse rules file: " + derr
        if sc["missing_file"]:
            return None  # filled from the observation (an os error text); class checked separately
        return None
    if derr is not None:
        return derr
    return None


def scenario_coq(sc, idx, use_gen):
    """Coq source evaluating one scenario; defines sc<idx>_bad : (list Z * list Z * bool)"""
    fl = sc["flags"]
    n = "sc%d" % idx
    src = []
    # direct reports: version -> pkg -> list
    cases = []
    for v in ("1", "2"):
        for pk, pki in PKGS.items():
            reps = (sc["direct"].get(v) or {}).get(pk) or []
            cases.append("    | %s%%N, %d%%N => [%s]" % (v, pki, ";\n        ".join(coq_report(r) for r in reps)))
    src.append("Definition %s_direct (v pk : N) : list report_data :=\n  match v, pk with\n%s\n    | _, _ => []\n  end." % (n, "\n".join(cases)))
    src.append("Definition %s_enable : bytes := %s.\nDefinition %s_disable : bytes := %s.\nDefinition %s_e : bytes := %s." % (
        n, B(fl["enable"]), n, B(fl["disable"]), n, B(fl["e"])))
    passes = []
    for st in sc["steps"]:
        lerr = st["_lerr"]
        load = "LoadErr %s" % B(lerr) if lerr is not None else "LoadOk %d%%N" % st["version"]
        passes.append("(%s, %d%%N)" % (load, PKGS[st["pkg"]]))
    src.append("Definition %s_steps : list (load_outcome * N) := [%s]." % (n, "; ".join(passes)))
    src.append("Definition %s_observed : list pass_output := [\n  %s]." % (n, ";\n  ".join(coq_output(st) for st in sc["steps"])))
    obs_states = []
    for st in sc["steps"]:
        obs_states.append("(%s, %s, %s)" % ("true" if st["has_engine"] else "false", "true" if st["errored"] else "false",
                                            "true" if st["pool"] else "false"))
    src.append("Definition %s_obs_states : list (bool * bool * bool) := [%s]." % (n, "; ".join(obs_states)))
    go_ok = "true" if sc["go_ok"] else "false"
    v0 = sc.get("_loaded_version")
    allg = sc["all_groups"].get(str(v0)) if v0 else None
    loaded = sc["loaded_groups"].get(str(v0)) if v0 else None
    src.append("Definition %s_all_groups : list bytes := [%s]%%list." % (n, "; ".join(B(g) for g in (allg or []))))
    src.append("Definition %s_loaded : list bytes := [%s]%%list." % (n, "; ".join(B(g) for g in (loaded or []))))

    # newEngine's tail, regenerated: which error (or which loads) it produces for these flags with the rules on disk at
    # version v -- file system: the scenario's rules files exist (content token = the name), everything else does not;
    # engine: the direct engine's load error, for the file it belongs to
    if use_gen:
        files = sc.get("rule_files") or []
        src.append("Definition %s_rules : bytes := %s.\nDefinition %s_files : list bytes := [%s]%%list." % (
            n, B(fl["rules"]), n, "; ".join(B(f) for f in files)))
        arms = []
        for v in ("0", "1", "2"):
            derr, dfile = sc["direct_err"].get(v), (sc.get("direct_err_file") or {}).get(v)
            if derr is not None and dfile is not None:
                arms.append("    | %s%%N => if bytes_eqb f %s then Some %s else None" % (v, B(dfile), B(derr)))
        src.append("Definition %s_lerr (v : N) (f : bytes) : option bytes :=\n  match v with\n%s\n    | _ => None\n  end." % (n, "\n".join(arms)))
        src.append("Definition %s_ne (v : N) : outcome ne_result := gen_new_engine_tail %s_rules %s_e "
                   "(fun f => if mem_b f %s_files then inl f else inr (%s ++ f ++ %s)) (fun _ f _ => %s_lerr v f)." % (
                       n, n, n, n, B("open "), B(": no such file or directory"), n))
        exp = []
        for st in sc["steps"]:
            exp.append("(%d%%N, %s)" % (st["version"], "Some %s" % B(st["_lerr"]) if st["_lerr"] is not None else "None"))
        want_names = "[%s]%%list" % "; ".join(B(f) for f in files) if sc["mode"] in ("rules", "rules+e") else "[[101]]%list"
        src.append("Definition %s_ne_bad : list Z * bool :=\n"
                   "  (mismatches (fun (x _ : N * option bytes) => match %s_ne (fst x), snd x with\n"
                   "      | Ok (NEFail _ m), Some w => bytes_eqb m w | Ok (NEDone _), None => true | _, _ => false end)\n"
                   "     [%s] [%s],\n"
                   "   forallb (fun x : N * option bytes => match %s_ne (fst x) with Ok (NEDone l) => list_eqb bytes_eqb (map fst l) %s"
                   " && forallb (fun p : bytes * bytes => bytes_eqb (fst p) (snd p) || bytes_eqb (fst p) [101]) l | _ => true end) [%s])." % (
                       n, n, "; ".join(exp), "; ".join(exp), n, want_names, "; ".join(exp)))
    else:
        src.append("Definition %s_ne_bad : list Z * bool := ([], true)." % n)

    def variant(tag, filt, cb, prep, pl):
        out = []
        out.append("Definition %s_%s_inputs : list pass_input := map (fun s : load_outcome * N => let '(lo, pk) := s in "
                   "{| pi_load := lo; pi_reports := fun e => filter (fun r => %s %s_enable %s_disable (ri_group (rd_rule_info r))) (%s_direct e pk); "
                   "pi_go_ok := %s |}) %s_steps." % (n, tag, filt, n, n, n, go_ok, n))
        if fl.get("force"):
            # ForceNewEngine: the cache is bypassed and left untouched, every pass is a first pass
            out.append("Definition %s_%s_run := map (fun p => (snd (run_pass %s %s (%s %s_e) g_init p), g_init)) %s_%s_inputs." % (
                n, tag, prep, cb, pl, n, n, tag))
        else:
            out.append("Definition %s_%s_run := run_passes_st %s %s (%s %s_e) g_init %s_%s_inputs." % (n, tag, prep, cb, pl, n, n, tag))
        out.append("Definition %s_%s_bad := (mismatches output_eqb (map fst %s_%s_run) %s_observed, "
                   "mismatches (fun (a o : bool * bool * bool) => let '(a1, a2, a3) := a in let '(he, er, po) := o in "
                   "Bool.eqb a1 he && Bool.eqb a2 er && Bool.eqb a3 po) "
                   "(map (fun x : pass_output * gstate => let g := snd x in (match gs_engine g with Some _ => true | None => false end, gs_errored g, gs_pool g)) %s_%s_run) %s_obs_states, "
                   "%s)." % (n, tag, n, tag, n, n, tag, n,
                             ("list_eqb bytes_eqb (filter (fun g => %s %s_enable %s_disable {| g_name := g; g_filename := [] |}) %s_all_groups) %s_loaded"
                              % (filt, n, n, n, n)) if loaded is not None else "true"))
        return out
    src += variant("spec", "(fun en di g => filter_specb en di (g_name g))", "spec_cb", "prepare_spec_fn", "(fun e => bytes_eqb e [])")
    if use_gen:
        src += variant("gen", "gen_filter", "gen_report_cb", "gen_prep", "gen_print_rule_location")
    else:
        src.append("Definition %s_gen_bad : list Z * list Z * bool := ([], [], true)." % n)
    return "\n".join(src)


def run(c):
    thorough = c.tier == "thorough"
    c.rule = ("a scenario = one flag combination (-rules with 1-2 files / -e / both / neither, -enable/-disable lists with spaces, "
              "empty entries, unknown names, Unicode space runes, -go, -debug-enable-disable) x a history of 2-5 sequential passes "
              "(rules files rewritten on disk between passes) and a burst of 16 concurrent passes, cold or warm; distinct non-trivial = "
              "distinct (mode, enable shape, disable shape, load outcome, burst position, delivered-diagnostics?, fixes?, subset-selected?) "
              "signatures among scenarios in which diagnostics were delivered or a load failure was accounted for")
    c.trusted += [
        "go2coq adapter translator (Report closure / flag loops / GroupFilter closure -> Gallina; prepareEngine -> statement tree; lock-site scan by identifier name, shadowing rejected)",
        "Str.v models of strings.Split, strings.TrimSpace (all unicode.IsSpace runes as UTF-8 byte patterns), filepath.Base (unix), strconv.Itoa and the %s/%d/%v fragment of fmt.Sprintf (validated only through the correspondence runs)",
        "engine contract assumed, checked empirically against a direct Engine: Run calls RunContext.Report once per report in order; loading with a GroupFilter f yields exactly the reports of the groups accepted by f",
        "harness/cmd/c19 and hooks analyzer.VerifResetGlobals / VerifGlobals (build tag verif)",
        "Alias.v: memory model of []byte values (buffers, references, in-place overwrite); the classification of the engine's Replacement sites is syntactic ([]byte(E) with E a string literal / a call of a package function declared to return string / a local declared `var x string`), sync.Pool may hand any state to any pass",
        "x/tools singlechecker flag parsing and -fix application are outside the model",
    ]
    c.notes += ["concurrent passes: race freedom / linearizability / loaded-once are proved for all schedules of an interleaving semantics of the regenerated prepareEngine tree (Conc.v); the Go memory model and sync.Mutex/sync.Pool are trusted; real schedules of the 16-goroutine burst are explored in addition",
                "ForceNewEngine=true (testing switch) is only shown to bypass and not touch the cache"]

    c.build_theories()
    c.require_theories("Base/*.v", "Adapter/*.v")

    gen_ok = False
    if bhlib.go2coq(c, "adapter", "Gen_Adapter.v"):
        if c.coq_compile(["Gen_Adapter.v"]):
            c.install_tmpl("C19/Inst_Adapter.v", "C19/C19.v")
            gen_ok = c.coq_compile(["Inst_Adapter.v"])
            if gen_ok:
                if c.coq_compile(["C19.v"]) and thorough:
                    bhlib.coqchk(c, "RGW.C19")
            else:
                # is the regenerated code at least usable as an executable model?
                pass
    gen_usable = os.path.exists(os.path.join(c.gen, "Gen_Adapter.vo"))
    if gen_usable and not gen_ok:
        # evaluate the regenerated definitions without the (broken) proofs: a stub Inst file providing gen_filter / gen_prep
        stub = ("From Coq Require Import List ZArith Bool.\nFrom RG.Base Require Import Outcome GoSlice.\n"
                "From RG.Adapter Require Import Str Model NewEngine.\nFrom RGW Require Import Gen_Adapter.\nImport ListNotations.\n"
                "Definition gen_filter (enable disable : bytes) (g : group_info) : bool := let '(en, dis) := gen_group_maps enable disable in gen_group_filter enable en dis g.\n"
                "Definition gen_prep (g : gstate) (lo : load_outcome) : gstate * prep_result * nat := let o := run_tree gen_prepare_tree false g lo in (po_state o, po_res o, count_loads (po_trace o)).\n")
        ok, out = c.coq_eval("Inst_Stub.v", stub)
        gen_usable = ok

    adapter_keeps = None
    try:
        m_keep = re.search(r"gen_adapter_keeps : keep_kind := (\w+)\.", open(os.path.join(c.gen, "Gen_Adapter.v")).read())
        adapter_keeps = m_keep.group(1) if m_keep else None
    except OSError:
        pass
    c.coverage["adapter_keeps"] = adapter_keeps or "unknown (translator failed): treated as the slice it was handed"

    hb = c.build_harness("c19")
    if hb is None:
        return c.finish()

    # the real cmd/ruleguard binary, for the end-to-end scenarios
    rgbin = os.path.join(c.work, "ruleguard-bin")

    def build_cli():
        rc, log = c.sh(["go", "build", "-modfile=" + c.harness_modfile(), "-o", rgbin, "github.com/quasilyte/go-ruleguard/cmd/ruleguard"],
                       cwd=os.path.join(c.verif, "harness"), timeout=900)
        return rc, log
    rc_cli, log_cli = c._locked_build("harness", build_cli)
    if rc_cli != 0:
        c.obligation("build:cmd/ruleguard", False, log_cli[-2000:])
        rgbin = None
    e2e_results = []

    def observe(n, seed, first=0, noreset=False, tag="main", e2e=0, extra=()):
        tmp = os.path.join(c.work, "tmp-%s-%d-%d" % (tag, seed, first))
        os.makedirs(tmp, exist_ok=True)
        args = ["-n", str(n), "-seed", str(seed), "-first", str(first), "-tmp", tmp] + list(extra)
        if e2e and rgbin:
            args += ["-e2e", rgbin, "-e2en", str(e2e), "-fakedir", os.path.join(c.verif, "harness", "fake"),
                     "-reposum", os.path.join(c.repo, "go.sum")]
            n_expected_extra = e2e
        else:
            n_expected_extra = 0
        if noreset:
            args.append("-noreset")
        rc, out = c.run_harness(hb, args, timeout=900)
        scs = []
        for line in out.split("\n"):
            line = line.strip()
            if line.startswith("{"):
                try:
                    o = json.loads(line)
                except ValueError:
                    continue
                if o.get("kind") == "e2e":
                    e2e_results.append(o)
                else:
                    scs.append(o)
        if rc != 0 or len(scs) != n:
            c.obligation("harness-run:c19", False, out[-2000:])
        return scs

    def prepare(sc):
        """Python-side bookkeeping: which error newEngine returns at each step, ordering of a cold failing burst."""
        steps = sc["steps"]
        if sc["mode"] == "e":
            sc["direct_err"] = {k: norm_epos(v) for k, v in sc["direct_err"].items()}
            for st in steps:
                st["err_raw"], st["err"] = st["err"], norm_epos(st["err"])
        # cold burst: the goroutine that performed the (failing) load comes first
        if steps and steps[0]["kind"] == "par":
            npar = 0
            while npar < len(steps) and steps[npar]["kind"] == "par":
                npar += 1
            burst = steps[:npar]
            burst.sort(key=lambda st: 0 if st["err"] and not st["err"].startswith(GOVER) else 1)
            sc["steps"] = burst + steps[npar:]
        sc["_loaded_version"] = None
        for st in sc["steps"]:
            lerr = load_error_text(sc, st["version"])
            if lerr is None and sc["missing_file"]:
                # os.ReadFile's error for a file that does not exist (the missing file is the last, undecorated entry of -rules)
                lerr = "read rules file: open %s: no such file or directory" % sc["flags"]["rules"].rsplit(",", 1)[-1]
            st["_lerr"] = lerr
        for st in sc["steps"]:
            if st["_lerr"] is None:
                sc["_loaded_version"] = st["version"]
            break
        # by the specification only the first pass's load outcome matters
        return sc

    def enable_shape(s):
        if s == "<all>":
            return "all"
        if s.strip() == "":
            return "blank"
        if "<all>" in s:
            return "all-ish"
        return "list%s%s" % ("+sp" if re.search(r"\s", s) else "", "+empty" if ",," in s or s.startswith(",") or s.endswith(",") else "")

    def compare(scs, tag):
        scs = [prepare(sc) for sc in scs]
        NSH = 12
        jobs = []
        pre = ["From Coq Require Import List ZArith Bool.", "From RG.Base Require Import Outcome GoSlice.",
               "From RG.Adapter Require Import Str Model NewEngine Corr.",
               ("From RGW Require Import Gen_Adapter Inst_Adapter." if gen_ok else
                ("From RGW Require Import Gen_Adapter Inst_Stub." if gen_usable else "")),
               "Import ListNotations. Local Open Scope Z_scope."]
        shards = [list(range(k, len(scs), NSH)) for k in range(NSH)]
        shards = [s for s in shards if s]
        for k, idxs in enumerate(shards):
            src = list(pre)
            for i in idxs:
                src.append(scenario_coq(scs[i], i, gen_ok or gen_usable))
            src.append("Definition RES := Eval vm_compute in [%s]." % "; ".join(
                "(%d, sc%d_spec_bad, sc%d_gen_bad, sc%d_ne_bad)" % (i, i, i, i) for i in idxs))
            src.append("Print RES.")
            jobs.append(("Cases_%s_%d.v" % (tag, k), "\n".join(src)))
        results = {}
        for (fname, _), (ok, out) in zip(jobs, c.coq_eval_many(jobs, timeout=900)):
            if not ok:
                c.obligation("coq-eval:" + fname, False, out[-2500:])
                continue
            m = re.search(r"RES\s*=\s*(.*?)\s*:\s*list", out, re.S)
            if not m:
                c.obligation("coq-eval-parse:" + fname, False, out[-2000:])
                continue
            body = re.sub(r"\s+", " ", m.group(1)).replace("%Z", "")
            for mm in re.finditer(r"\((\d+), \(\[([^\]]*)\], \[([^\]]*)\], (true|false)\), \(\[([^\]]*)\], \[([^\]]*)\], (true|false)\), \(\[([^\]]*)\], (true|false)\)\)", body):
                i = int(mm.group(1))

                def ints(s):
                    return [int(x) for x in s.split(";") if x.strip()]
                results[i] = {"spec": (ints(mm.group(2)), ints(mm.group(3)), mm.group(4) == "true"),
                              "gen": (ints(mm.group(5)), ints(mm.group(6)), mm.group(7) == "true"),
                              "ne": (ints(mm.group(8)), mm.group(9) == "true")}
        for i, sc in enumerate(scs):
            c.count(len(sc["steps"]))
            fl = sc["flags"]
            inp = {"scenario": sc["id"], "flags": fl, "mode": sc["mode"], "seed": c.seed}
            r = results.get(i)
            if r is None:
                continue
            s_out, s_st, s_groups = r["spec"]
            g_out, g_st, g_groups = r["gen"]
            steps = sc["steps"]

            def stepinfo(j):
                if j >= len(steps):
                    return {"step": j}
                st = steps[j]
                return {"step": j, "kind": st["kind"], "pkg": st["pkg"], "rules_version_on_disk": st["version"],
                        "err": st.get("err_raw", st["err"]), "diags": st["diags"][:6], "state": [st["has_engine"], st["errored"], st["pool"]]}
            def expected_of(j):
                what = "one diagnostic per report of the enabled groups of the FIRST loaded rule set (decorated unless -e); a load error once"
                if j >= len(steps):
                    return what
                if steps[0]["_lerr"] is not None:
                    return {"rule": what, "load_error_on_the_first_pass": steps[0]["_lerr"]}
                reps = (sc["direct"].get(str(sc["_loaded_version"])) or {}).get(steps[j]["pkg"]) or []
                return {"rule": what, "reports_of_the_direct_engine_before_enable_disable": [[r["group"], r["pos"], r["msg"]] for r in reps][:8]}
            for j in s_out[:3]:
                c.fail("oracle", "pass output differs from the direct engine's reports mapped by the specification",
                       input=dict(inp, **stepinfo(j)), expected=expected_of(j), observed=stepinfo(j))
            for j in s_st[:3]:
                c.fail("oracle", "engine cache state after the pass differs from the specification", input=dict(inp, **stepinfo(j)),
                       expected="engine set after first successful load / sticky failure flag", observed=stepinfo(j))
            if not s_groups:
                c.fail("oracle", "-enable/-disable did not select exactly the named groups",
                       input=inp, expected="groups g with (enable=<all> or g in enable list) and g not in disable list",
                       observed={"loaded": sc["loaded_groups"], "all": sc["all_groups"]})
            if not (s_out or s_st) and s_groups:
                for j in g_out[:2] + g_st[:2]:
                    c.fail("corr", "regenerated Coq model disagrees with the implementation", input=dict(inp, **stepinfo(j)))
                if not g_groups:
                    c.fail("corr", "regenerated group filter disagrees with the implementation", input=inp)
            ne_steps, ne_names = r["ne"]
            if not (s_out or s_st):
                for j in ne_steps[:2]:
                    c.fail("corr", "regenerated newEngine tail predicts another load outcome (error text / success) than the adapter showed",
                           input=dict(inp, **stepinfo(j)), expected=steps[j]["_lerr"] if j < len(steps) else None)
                if not ne_names:
                    c.fail("corr", "regenerated newEngine tail loads other files (names / order / contents) than the flags name",
                           input=inp, expected=sc.get("rule_files"))
            c.coverage["new_engine_tail_evaluations"] = c.coverage.get("new_engine_tail_evaluations", 0) + len(steps)
            # load accounting that does not go through the model
            v0 = sc["_loaded_version"]
            first_ok = [st for st in steps if st["has_engine"]]
            if v0 and first_ok and not fl.get("force") and any(not st["same_engine"] for st in steps if st["has_engine"]):
                c.fail("oracle", "the global engine object changed after the first load", input=inp,
                       expected="one engine per process", observed=[st["same_engine"] for st in steps])
            force = bool(fl.get("force"))
            if fl["debug"] and v0 and not force:
                want = len(sc["all_groups"].get(str(v0)) or [])
                if sc["debug_lines"] != want:
                    c.fail("oracle", "GroupFilter ran %d times for %d groups: the rule set was not loaded exactly once" % (sc["debug_lines"], want),
                           input=inp, expected=want, observed=sc["debug_lines"])
            nerr = sum(1 for st in steps if st["err"] and not st["err"].startswith(GOVER))
            if nerr > 1 and not force:
                c.fail("oracle", "a load failure was reported %d times" % nerr, input=inp, expected="at most once per process", observed=nerr)
            # []byte values are references: the diagnostics above were read after every pass of the scenario had run;
            # what pass.Report saw at the time of the call must be the same thing
            for j, st in enumerate(steps):
                for d in st["diags"]:
                    if d.get("at_report") is not None:
                        c.fail("oracle", "a diagnostic read after the passes differs from what was handed to pass.Report (a text edit still "
                               "points into memory the engine wrote again for a later file / pass on the pooled runner state)",
                               input=dict(inp, **{"step": j, "kind": st["kind"], "pkg": st["pkg"], "force_new_engine": bool(fl.get("force"))}),
                               expected={"as_reported": d["at_report"]}, observed={"read_after_the_passes": {k: v for k, v in d.items() if k != "at_report"}})
                        break
            # the engine's side matters to this property only while the adapter keeps the slices it is handed
            for f in (sc.get("engine_alias") or [])[:2] if adapter_keeps != "KeepCopy" else []:
                what = {"changed": "a Suggestion.Replacement handed to Report no longer holds the text it held then (the engine wrote its memory again; one RunnerState for all files)",
                        "overlap": "two Suggestion.Replacement slices handed to Report share memory",
                        "state-changes-reports": "a directly driven engine reports differently when it is given a RunnerState"}.get(f["kind"], f["kind"])
                c.fail("oracle", what, input=dict(inp, rules_version=f["version"], pkg=f["pkg"], report=f["a"]),
                       expected={"text_at_report": f["a"].get("text")}, observed=f)
            c.coverage["suggestion_slices_examined_for_aliasing"] = c.coverage.get("suggestion_slices_examined_for_aliasing", 0) + sc.get("engine_slices", 0)
            if sc.get("files_on_state", 0) > 0 and not fl.get("force"):
                c.coverage["scenarios_with_files_run_after_a_kept_fix"] = c.coverage.get("scenarios_with_files_run_after_a_kept_fix", 0) + 1
                c.coverage["files_run_after_a_kept_fix"] = c.coverage.get("files_run_after_a_kept_fix", 0) + sc["files_on_state"]
            # the ends of files: suggestions of the direct engine that end at the end-of-file position, and delivered fixes
            # whose edit ends there (measured for the generator obligation; the comparison above judges them)
            if v0:
                eofs = {}
                for pk, reps in (sc["direct"].get(str(v0)) or {}).items():
                    eofs[pk] = {r["to"] for r in reps or [] if r.get("to_eof")}
                for st in steps:
                    ends = eofs.get(st["pkg"]) or set()
                    ne = sum(1 for d in st["diags"] for fx in d["fixes"] or [] for e in fx["edits"] or [] if e["end"] in ends)
                    if ne:
                        c.coverage["delivered_fixes_ending_at_eof"] = c.coverage.get("delivered_fixes_ending_at_eof", 0) + ne
                        eof_files.update((st["pkg"], e["end"]) for d in st["diags"] for fx in d["fixes"] or [] for e in fx["edits"] or [] if e["end"] in ends)
            if any(st.get("panic") for st in steps):
                c.fail("oracle", "analyzer run panicked", input=inp, observed=[st.get("panic") for st in steps if st.get("panic")][:2])
            for d in (d for st in steps for d in st["diags"]):
                if d["nrel"] != 0:
                    c.fail("oracle", "diagnostic carries related information", input=inp, observed=d)
            ndiag = sum(len(st["diags"]) for st in steps)
            nfix = sum(len(d["fixes"] or []) for st in steps for d in st["diags"])
            allg = sc["all_groups"].get(str(v0)) if v0 else None
            lg = sc["loaded_groups"].get(str(v0)) if v0 else None
            subset = bool(allg and lg is not None and 0 < len(lg) < len(allg))
            if ndiag > 0 or nerr > 0:
                c.nontriv((sc["mode"], enable_shape(fl["enable"]), enable_shape(fl["disable"]) if fl["disable"] else "none",
                           "ok" if v0 else ("missing" if sc["missing_file"] else "broken"),
                           steps[0]["kind"], ndiag > 0, nfix > 0, subset, fl["go"] != "", sc["go_ok"]))
            if i < 3:
                c.sample({"flags": fl, "mode": sc["mode"], "steps": len(steps), "diagnostics": ndiag, "fixes": nfix,
                          "loaded_groups": lg, "all_groups": allg,
                          "first_diag": next((d for st in steps for d in st["diags"]), None)})
        c.coverage.setdefault("scenarios", 0)
        c.coverage["scenarios"] += len(scs)
        c.coverage.setdefault("passes_compared", 0)
        c.coverage["passes_compared"] += sum(len(sc["steps"]) for sc in scs)
        c.coverage.setdefault("diagnostics_compared", 0)
        c.coverage["diagnostics_compared"] += sum(len(st["diags"]) for sc in scs for st in sc["steps"])
        c.coverage["model_vs_impl"] = "regenerated" if (gen_ok or gen_usable) else "specification only (regenerated model unavailable)"

    eof_files = set()

    def check_e2e():
        for r in e2e_results:
            c.count()
            inp = {"e2e": r["id"], "flags": r["flags"], "args": r["args"], "seed": c.seed}
            if r.get("err"):
                c.fail("corr", "end-to-end scenario could not be run", input=inp, observed=r["err"])
                continue
            if r["expected"] != r["observed"]:
                missing = [x for x in r["expected"] if x not in r["observed"]][:5]
                extra = [x for x in r["observed"] if x not in r["expected"]][:5]
                c.fail("oracle", "the cmd/ruleguard binary prints other diagnostics than the analyzer produces under the same flags",
                       input=inp, expected={"missing_from_cli_output": missing}, observed={"only_in_cli_output": extra, "stderr": r["stderr"][:500]})
            elif r["expected"]:
                c.nontriv(("e2e", len(r["expected"]), enable_shape(r["flags"]["enable"])))
        c.coverage["e2e_cli_runs"] = c.coverage.get("e2e_cli_runs", 0) + len(e2e_results)
        c.coverage["e2e_cli_diagnostics"] = c.coverage.get("e2e_cli_diagnostics", 0) + sum(len(r["observed"]) for r in e2e_results)
        del e2e_results[:]

    n_main = 60 if not thorough else 900
    scs = observe(n_main, c.seed, e2e=(4 if not thorough else 40))
    # pristine processes: the very first pass of a process, no reset hook involved
    for k in range(4 if not thorough else 24):
        scs += observe(1, c.seed, first=1000 + k, noreset=True, tag="fresh")
    compare(scs, "main")
    check_e2e()
    nkept = c.coverage.get("scenarios_with_files_run_after_a_kept_fix", 0)
    c.obligation("generator:pooled-state", nkept >= 5,
                 "%d scenarios (cached engine) ran further files / passes on the pooled runner state after a diagnostic with a fix had been kept "
                 "(%d files); %d suggestion slices of the direct engine examined for aliasing" % (
                     nkept, c.coverage.get("files_run_after_a_kept_fix", 0), c.coverage.get("suggestion_slices_examined_for_aliasing", 0)))

    c.obligation("generator:eof-suggestions", len(eof_files) >= 5 and c.coverage.get("delivered_fixes_ending_at_eof", 0) >= 40,
                 "%d delivered fixes whose text edit ends at the end-of-file position of its file (a file without a trailing newline whose "
                 "last token belongs to the replaced node), %d distinct files" % (c.coverage.get("delivered_fixes_ending_at_eof", 0), len(eof_files)))

    # every -e text of the pool once (the rule given on the command line has to be the rule that is loaded)
    def e_sweep(seed, tag):
        rc, out = c.run_harness(hb, ["-esweeplen", "1"], timeout=120)
        try:
            npool = int(out.strip().split("\n")[-1])
        except ValueError:
            c.obligation("harness-run:c19-esweeplen", False, out[-500:])
            return
        es = observe(npool, seed, first=5000, tag=tag, extra=["-esweep", "-par", "3"])
        compare(es, tag)
        ok_gen = True
        npct = nrep = 0
        for sc in es:
            loads = "1" in sc["direct"]
            if loads == bool(sc["e_broken"]):
                ok_gen = False
                c.obligation("generator:e-pool[%d]" % sc["esweep"], False,
                             "the direct engine %s the -e text %r" % ("loads" if loads else "rejects: %r" % sc["direct_err"], sc["flags"]["e"]))
            nd = sum(len(v or []) for v in (sc["direct"].get("1") or {}).values())
            if loads and nd == 0:
                ok_gen = False
                c.obligation("generator:e-pool[%d]" % sc["esweep"], False, "the -e text %r matches nothing in the targets" % sc["flags"]["e"])
            if "%" in sc["flags"]["e"] and any(st["diags"] for st in sc["steps"]):
                npct += 1
            if any(st["diags"] for st in sc["steps"]):
                nrep += 1
        c.coverage["e_texts"] = c.coverage.get("e_texts", 0) + len(es)
        c.coverage["e_texts_with_percent_delivering_diagnostics"] = c.coverage.get("e_texts_with_percent_delivering_diagnostics", 0) + npct
        c.coverage["e_texts_delivering_diagnostics"] = c.coverage.get("e_texts_delivering_diagnostics", 0) + nrep
        if ok_gen:
            c.obligation("generator:e-pool", True, "%d texts: every one loads / is rejected by the direct engine as the pool says; the loading ones match target nodes" % len(es))
    e_sweep(c.seed, "esweep")

    def search():
        compare(observe(240, c.seed + 17, tag="search", e2e=20), "search")
        check_e2e()
        # an unlocked access does not change any output: ask the Go race detector for a witness schedule
        hr = c.build_harness("c19", race=True)
        if hr is None:
            return
        tmp = os.path.join(c.work, "tmp-race")
        os.makedirs(tmp, exist_ok=True)
        rc, out = c.run_harness(hr, ["-n", "60", "-seed", str(c.seed + 5), "-tmp", tmp, "-par", "16"], timeout=900,
                                env={"GORACE": "halt_on_error=0"})
        if "WARNING: DATA RACE" in out:
            i = out.index("WARNING: DATA RACE")
            log = out[i:i + 3000]
            tops = re.findall(r"(?:Read|Write|Previous read|Previous write) at [^\n]*\n\s+(\S+)", log)
            if any(t.startswith("github.com/quasilyte/go-ruleguard/analyzer.") for t in tops):
                c.fail("oracle", "data race on the adapter's globals reported by the Go race detector",
                       input={"harness": "c19 -race", "args": ["-n", "60", "-seed", c.seed + 5, "-par", 16]},
                       expected="passes running in parallel do not race", observed=log)

    c.coverage["exhaustive"] = False
    c.finish(search=search)
