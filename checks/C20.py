"""C20 -- qualified type names resolve through the documented import table; no leakage between groups; unresolvable = load error.

P: coq/theories/Types/ImportsTab.v: scope_balanced, imports_do_not_leak, resolution_is_documented (+ group level),
   unresolvable_is_load_error over the model of ImportsTab / loadRuleGroup / the three resolvers (props: coq/tmpl/C20/C20.v).
K: the model (`run_file`, vm_compute) is run on every generated rules file (1..3 groups with their own Import() sets, groups
   skipped by GroupFilter, qualified names in Type.Is / Underlying().Is / Implements / HasMethod) and compared with what the
   real engine did: load error or not, and -- through the verdict table -- what each rule resolved to.
O: Go-side oracle independent of the engine: documented precedence (Import() of the group, last call wins > stdlib default >
   as written) and then go/types on the target universe (stdlib, colliding third-party packages, a vendored copy) decides
   which probes each rule must report.
All files are loaded into ONE engine, so leaks between groups, files or through the engine-wide FQN cache would show.
"""
import json
import os
import re

F_UNKNOWN = "type-pattern-unknown-name-accepted"


def cs(x):
    return '"%s"' % x


def base(p):
    return p.rsplit("/", 1)[-1]


def coq_req(q):
    if q["kind"] == "typeconstr":
        # ConvertibleTo / AssignableTo resolve no qualified names: in the model their package names are bound by no table
        return "RTypeExpr [%s]" % "; ".join("(%s, %s)" % (cs("(no qualified names in type constraints) " + a), cs(b)) for a, b in q["qnames"])
    if q["kind"] == "typepat":
        if len(q.get("qnames") or []) > 1:
            # a type string with several qualified names (in source order)
            return "RTypeExpr [%s]" % "; ".join("(%s, %s)" % (cs(a), cs(b)) for a, b in q["qnames"])
        return "RTypePat %s %s" % (cs(q["pkg"]), cs(q["name"]))
    if q["kind"] == "iqual":
        return "RIface (IQual %s %s)" % (cs(q["pkg"]), cs(q["name"]))
    if q["kind"] == "ifqn":
        return "RIface (IFqn %s %s)" % (cs(q["pkg"]), cs(q["name"]))
    return "RFuncRef %s %s %s" % (cs(q["pkg"]), cs(q["name"]), cs(q["meth"]))


def coq_group(g):
    imps = "; ".join("(%s, %s)" % (cs(base(p)), cs(p)) for p in (g["imports"] or []))
    return "Group %s [%s] [%s]" % ("true" if g["skip"] else "false", imps, "; ".join(coq_req(q) for q in (g["reqs"] or [])))


def eval_source(o):
    tbl = "; ".join("(%s, %s, %s)" % (cs(w["path"]), cs(w["name"]),
                                      ("KIface [%s]" % "; ".join(cs(m) for m in w["methods"])) if w["iface"] else "KOther")
                    for w in o["world"])
    std = "; ".join("(%s, %s)" % (cs(k), cs(v)) for k, v in sorted(o["std"].items()))
    scs = ";\n".join("[%s]" % "; ".join(coq_group(g) for g in sc["groups"]) for sc in o["scenarios"])
    return "\n".join([
        "From Coq Require Import List String Bool.",
        "From RG.Base Require Import Outcome.",
        "From RG.Types Require Import ImportsTab.",
        "Import ListNotations. Local Open Scope string_scope.",
        "Definition tbl : list (string * string * tkind) := [%s]." % tbl,
        "Definition std : list (string * string) := [%s]." % std,
        "Definition scs : list (list group) := [\n%s\n]." % scs,
        "Definition RES := Eval vm_compute in (map (run_file tbl std) scs).",
        "Print RES."])


def coq_op(op):
    f = op.split()
    if f[0] == "E":
        return "OEnter"
    if f[0] == "X":
        return "OLeave"
    return "OLoad %s %s" % (cs(f[1]), cs(f[2]))


def script_source(o):
    rows = ";\n".join("([%s], [%s])" % ("; ".join("(%s, %s)" % (cs(k), cs(v)) for k, v in (sc["init"] or [])),
                                         "; ".join(coq_op(x) for x in sc["ops"])) for sc in o["scripts"])
    return "\n".join([
        "From Coq Require Import List String Bool.",
        "From RG.Base Require Import Outcome.",
        "From RG.Types Require Import ImportsTab.",
        "Import ListNotations. Local Open Scope string_scope.",
        "Definition paths : list string := [%s]." % "; ".join(cs(x) for x in o["itab_paths"]),
        "Definition names : list string := [%s]." % "; ".join(cs(x) for x in o["itab_names"]),
        "Definition scripts : list (list (string * string) * list op) := [\n%s\n]." % rows,
        "Definition TR := Eval vm_compute in (map (fun s => String.concat \",\" (show_trace paths names (fst s) (snd s))) scripts).",
        "Print TR.",
        "Definition WF := Eval vm_compute in (map (fun s => wf_script 0 (snd s)) scripts).",
        "Print WF."])


AST_KINDS = ["StarExpr", "ArrayType", "MapType", "ChanType", "ParenExpr", "FuncType", "StructType", "InterfaceType", "Ident"]
# fields of those nodes that hold an expression / a field list but no type to descend into
AST_NOT_TYPES = {("ArrayType", "Len"): "the length of an array type", ("FuncType", "TypeParams"): "nil in a type expression (func types have no type parameters)"}


def fqn_source(strings):
    rows = ";\n".join(cs(x) for x in strings)
    return "\n".join([
        "From Coq Require Import List String Bool.",
        "From RG.Types Require Import FqnSplit.",
        "Import ListNotations. Local Open Scope string_scope.",
        "Definition fqns : list string := [\n%s\n]." % rows,
        "Definition FQ := Eval vm_compute in (map show_split fqns).",
        "Print FQ.",
        "From RG.Types Require Import TypeExprParse.",
        "Definition SIG := Eval vm_compute in (map (fun k => String.concat \",\" (map (fun lb : string * bool => fst lb ++ (if snd lb then \":true\" else \":false\")) (ast_sig k)))",
        "  [%s])." % "; ".join(cs(k) for k in AST_KINDS),
        "Print SIG."])


def parse_gen_scope(text, name):
    """`Definition <name> : list (string * string) := [ ("a", "b"); ... ].` of a generated file -> dict (None: not found)."""
    m = re.search(r"Definition %s\b[^=]*:=\s*\[(.*?)\]\." % name, text, re.S)
    if not m:
        return None
    return dict(re.findall(r'\("([^"]*)",\s*"([^"]*)"\)', m.group(1)))


def run(c):
    thorough = c.tier == "thorough"
    c.go2coq_sources = ["c20.go", "c20itab.go", "c20fqn.go", "c20parse.go"]
    c.rule = ("rules files with 1..3 groups; each group has 0..3 Import() calls out of packages whose base names collide with each "
              "other and with the stdlib (example.com/io, a/foo, b/foo, html/template, text/scanner, c20/lib), may be skipped by "
              "GroupFilter, and has 1..3 rules with a qualified name in Type.Is / Underlying().Is / SinkType.Is / Implements (pkg.T and "
              "fully-qualified) / HasMethod, sometimes custom filters with ctx.GetType / ctx.GetInterface of a fully-qualified name; "
              "hand-written collision scenarios (both orders of groups with / without imports, every std base name shared by several "
              "packages, files importing a rule bundle whose groups have imports of their own) + seeded random ones; all loaded into one "
              "engine (bundle files: engines of their own) and run once over ~46 typed probes per rule (stdlib, third-party, exact "
              "vendored copies, vendored near misses). Plus the std sweep: one rule per base name that stdinfo knows, probed with one "
              "value per candidate package path. A case (file, group, rule) is non-trivial when the name's package is bound by an "
              "Import() of that or another group of the file, or the expected outcome is a load error, or the rule reports at least one "
              "probe; a swept name when several packages compete for it or the table leaves it out; distinct by (imports of all groups, "
              "skip flags, the rule's request) / (name). Type-pattern POSITIONS: the qualified name under every type constructor parseExpr "
              "descends into (pointer, slice, array, map key / element, channel in three directions, function parameter / result alone and "
              "among others, struct field alone and among others, parentheses, maps whose other half is another qualified name), alone and "
              "nested to depth 3: 35 shapes with a bound name probed with typed values of that shape over every package of the name's family "
              "(go/types evaluates the same type expression); every wrapper, every ordered pair of the ten core wrappers and 40 seeded "
              "triples as files that must NOT load (name bound by nothing / by another group of the file / by a skipped group / the group "
              "imports something else / a misspelt std name next to rules that resolve / a bound name inside a ConvertibleTo or "
              "AssignableTo type string), each in engines of its own; typematch.Parse directly on all 5219 compositions up to depth 3 with "
              "the name bound and unbound. Fully-qualified names: packages whose import paths have dots in the last element "
              "(gopkg.in/yaml.v3 -- a module of its own --, check.v1, api.v2 next to a decoy api), in a middle element (v1.2/plain), twice "
              "in the last element (multi.dot.v2), importable by the engine, in Implements, in custom-filter GetType / GetInterface (one "
              "lookup per file, engines of their own; vendored copies named in full), as Import() paths (the bound name is the last path "
              "element) with pkg.T patterns / Implements / HasMethod; engineState.FindType alone on ~220 (path, name) pairs over in-memory "
              "packages with dots everywhere and a package at every wrong cut. A position case is non-trivial by construction; an FQN case "
              "when its path has a dot beyond the first element")
    c.trusted += [
        "go/types + the engine's importer for what packages contain (Section variable `world` of ImportsTab.v; the harness fills it from go/types)",
        "github.com/quasilyte/stdinfo.PathByName as the stdlib default table (read by the harness for the names used)",
        "irconv's path.Base(Import path) (the name an Import() binds is the last path element) and unwrapInterfaceExpr's decision between "
        "`pkg.T` and a fully-qualified name (strings.Cut + token.IsIdentifier) are outside the model; the harness' oracle applies them",
        "harness/cmd/c20 (generator, Go-side documented-precedence oracle, go/types verdict table)",
    ]
    c.notes += [
        "custom-filter GetType/GetInterface (fully-qualified names, resolved at run time) are exercised against the oracle in "
        "hand-written and random scenarios; of the Coq model they share the cut of the name (FqnSplit); an unresolvable name there "
        "panics at run time (not claimed)",
        "Import(`gopkg.in/yaml.v3`) binds `yaml.v3` (path.Base), which no `pkg.T` can spell: such a package is reachable through "
        "fully-qualified names only and `yaml.T` stays unbound (a load error) -- the oracle follows this documented reading (dsl: "
        "Import(`a/b/foo`) makes `foo.Bar` mean a/b/foo.Bar); HasMethod takes no fully-qualified receiver (its argument must parse as "
        "pkg.Type.Method)",
        "every file is also loaded through VerifConvertAST + LoadFromIR into a second engine and must behave the same",
        "vendored copies are covered for Type.Is (path stripped at match time) and Implements/HasMethod (method sets)",
    ]
    c.trusted += [
        "go2coq c20parse: fail-closed transcription of every `case *ast.X:` clause of typematch.parseExpr into the nil-flow language of "
        "RG.Types.TypeExprParse (recursive calls, nil tests, conditions that read no pointer for nil-ness as COpaque, appends, loops over "
        "field lists, returns); the *ast.SelectorExpr clause is read in its exact shape and translated to Gallina. The semantics of that "
        "language (run_clause; opaque conditions answered by an arbitrary oracle stream) and `ast_sig` are hand-written; ast_sig is compared "
        "with go/ast by reflection on every run (ArrayType.Len and FuncType.TypeParams are no types to descend into)",
        "go2coq c20fqn: fail-closed reader of engineState.FindType's four splitting statements (strings.LastIndexByte / two slices) into "
        "RG.Types.FqnSplit.go_last_index_byte + RG.Types.GoStrings.go_slice; who consumes the two halves and the bodies of lookupType / "
        "findDependency are pinned as text",
        "go2coq c20tables: reads the creators / mutators / lookup sites of the import table, the holders of parsed patterns, and "
        "the PathByName / PackagesList literals of the stdinfo module version that /repo/go.mod selects (`go list -m`)",
        "stdinfo's import frequencies as the meaning of 'the more common package' (documented in stdinfo.go)",
        "go2coq itabmethods: fail-closed reader of `type ImportsTab struct`, NewImportsTab and the bodies of Lookup / Load / EnterScope / "
        "LeaveScope (one field of type []map[string]string; the canonical downward loop, index / slice / append / map assignment) into the "
        "vocabulary of RG.Types.ITabGo (Go slices and maps as lists / association lists with Go's panics); map aliasing (the caller's "
        "initial map is the outermost scope) is outside that vocabulary and is checked by the harness instead",
    ]
    c.build_theories()
    c.require_theories("Types/ImportsTab.v", "Types/StdTab.v", "Types/ITabGo.v", "Types/FqnSplit.v", "Types/TypeExprParse.v")
    # The proof obligations are independent chains (each: regenerate from /repo, compile, instantiate, props); they and the harness build
    # run side by side.
    from concurrent.futures import ThreadPoolExecutor
    gen = {"std": None}

    def chain_model():
        c.install_tmpl("C20/C20.v")
        c.coq_compile(["C20.v"])

    def chain_std():
        # ---- P over regenerated code and tables: the base table, where it changes, the stdlib defaults themselves
        if c.go2coq("c20tables", "Gen_C20.v"):
            try:
                gen["std"] = parse_gen_scope(open(os.path.join(c.gen, "Gen_C20.v")).read(), "gen_path_by_name")
            except OSError:
                gen["std"] = None
            if c.coq_compile(["Gen_C20.v"]):
                c.install_tmpl("C20/Inst_C20.v", "C20/C20Std.v")
                c.coq_compile(["Inst_C20.v", "C20Std.v"])

    def chain_itab():
        # ---- P over the data structure itself, TRANSLATED from typematch on this run: struct field, constructor and the four
        # methods refine the model's operations, hence balance / most-recent-live-binding hold of the translated source
        if c.go2coq("itabmethods", "Gen_ITab.v"):
            if c.coq_compile(["Gen_ITab.v"]):
                c.install_tmpl("C20/Inst_ITab.v", "C20/C20Tab.v")
                c.coq_compile(["Inst_ITab.v", "C20Tab.v"])

    def chain_parse():
        # ---- P over parseExpr's nil flow, TRANSCRIBED clause by clause on this run: an unresolvable qualified name in any position
        # of a type string makes the whole string unparsable; no parsed pattern stores a nil sub-pattern; the leaf is the model's resolver
        if c.go2coq("c20parse", "Gen_Parse.v"):
            if c.coq_compile(["Gen_Parse.v"]):
                c.install_tmpl("C20/Inst_Parse.v", "C20/C20Parse.v")
                c.coq_compile(["Inst_Parse.v", "C20Parse.v"])

    def chain_fqn():
        # ---- P over FindType's cut of a fully-qualified name, TRANSLATED on this run: the last dot of the whole string
        if c.go2coq("c20fqn", "Gen_Fqn.v"):
            if c.coq_compile(["Gen_Fqn.v"]):
                c.install_tmpl("C20/Inst_Fqn.v", "C20/C20Fqn.v")
                c.coq_compile(["Inst_Fqn.v", "C20Fqn.v"])

    c.go2coq_bin()   # built once, before the chains ask for it
    with ThreadPoolExecutor(max_workers=6) as ex:
        fh = ex.submit(c.build_harness, "c20")
        chains = [ex.submit(f) for f in (chain_model, chain_std, chain_itab, chain_parse, chain_fqn)]
        for f in chains:
            f.result()
        hb = fh.result()
    gen_std = gen["std"]
    if hb is None:
        return c.finish()

    def observe(seed, n):
        rc, out = c.run_harness(hb, ["-seed", str(seed), "-n", str(n)], timeout=900)
        o = None
        for line in out.splitlines():
            if line.startswith("{"):
                try:
                    o = json.loads(line)
                except ValueError:
                    pass
        if o is None or rc != 0 or o.get("error"):
            if o is None and ("panic" in out or "fatal error" in out):
                c.fail("oracle", "loading / running the scenario files crashes the process", input={"seed": seed}, observed=out[-800:],
                       expected="a load error or reports")
            else:
                c.obligation("harness-run:c20:seed%d" % seed, False, (o or {}).get("error") or out[-1500:])
            return None
        return o

    def compare(o, tag):
        if o is None:
            return
        # the three model evaluations (rules files, fully-qualified names, table scripts) run side by side
        fq_strings = {}
        for cse in (o.get("fqn_sweep") or {}).get("cases") or []:
            if cse["expect"] != "error":
                fq_strings[cse["fqn"]] = (cse["path"], cse["name"])
        for sc in o["scenarios"]:
            for g in sc["groups"]:
                for q in g["reqs"] or []:
                    if q["kind"] == "ifqn":
                        fq_strings[q["pkg"] + "." + q["name"]] = (q["pkg"], q["name"])
                for cu in g.get("custom") or []:
                    f = cu["target"].split()
                    if len(f) == 3:      # (an unresolvable name has no target)
                        fq_strings[cu["fqn"]] = (f[1], f[2])
        fq_keys = sorted(fq_strings)
        jobs = [("Cases_%s.v" % tag, eval_source(o))]
        if fq_keys:
            jobs.append(("Fqn_%s.v" % tag, fqn_source(fq_keys)))
        if o.get("scripts"):
            jobs.append(("Scripts_%s.v" % tag, script_source(o)))
        evals = dict(zip([j[0] for j in jobs], c.coq_eval_many(jobs, timeout=900, workers=3)))
        ok, out = evals["Cases_%s.v" % tag]
        model = None
        if not ok:
            c.obligation("coq-eval:Cases_%s.v" % tag, False, out[-2000:])
        else:
            m = re.search(r"RES\s*=\s*\[(.*?)\]\s*:\s*list string", out, re.S)
            if m:
                model = re.findall(r'"([^"]*)"', m.group(1))
            if model is None or len(model) != len(o["scenarios"]):
                c.obligation("coq-eval-parse:Cases_%s.v" % tag, False, out[-1500:])
                model = None
        if o.get("run_panic"):
            c.fail("oracle", "Run panics / fails on the probe file", input={"seed": o["seed"]}, observed=o["run_panic"], expected="reports")
        # ---- the standard-library default table recovered from the engine's behaviour, for EVERY base name
        sw = o.get("std_sweep")
        if sw is None:
            c.obligation("std-sweep:" + tag, False, "the harness did not run the std sweep")
        else:
            doc_table = o.get("std_table") or {}
            if gen_std is not None and gen_std != doc_table:
                diff = sorted(set(gen_std.items()) ^ set(doc_table.items()))[:6]
                c.obligation("std-table:regenerated=linked:" + tag, False,
                             "the PathByName literal read by go2coq differs from the map linked into the harness: %s" % diff)
            if sw.get("run_panic"):
                c.fail("oracle", "Run panics / fails on the std sweep file", input={"rules": sw["rules"][:600]}, observed=sw["run_panic"],
                       expected="reports")
            if sw.get("load_err"):
                c.fail("oracle", "a group without Import() calls that names one type of every std package the default table binds does "
                       "not load", input={"rules": sw["rules"]}, observed=sw["load_err"], expected="loads")
            engine_tab = {}
            for sn in sw["names"]:
                c.evaluations += 1
                name, doc, rep = sn["name"], sn["documented"], sn["reported"]
                inp = {"rule": sn["rule"], "group_imports": [], "probes": ["a value of type %s.VerifT" % p for p in sn["candidates"]]}
                if len(sn["candidates"]) > 2 or not doc:
                    c.nontrivial.add(("std-default", name))
                if doc:
                    if sw.get("load_err"):
                        continue
                    if rep != [doc]:
                        c.fail("oracle", "`%s.T` in a group without Import() calls does not mean the documented standard-library "
                               "package %s" % (name, doc), input=inp, expected=[doc], observed=rep)
                    if len(rep) == 1:
                        engine_tab[name] = rep[0]
                    ir = (sw.get("reported_ir") or {}).get(name, [])
                    if not sw.get("load_err_ir") and ir != rep:
                        c.fail("oracle", "`%s.T` means another package when the file is loaded through LoadFromIR" % name, input=inp,
                               expected=rep, observed=ir)
                else:
                    # a rarely imported std package that the documented table leaves out: a load error (what the engine does), or
                    # -- "the standard-library package with that name" -- the one std package so named; nothing else
                    if not sn["load_err"]:
                        if len(sn["std_paths"]) != 1 or rep != sn["std_paths"]:
                            c.fail("oracle", "`%s.T`: the default table does not bind %s and the group has no Import(), yet the file "
                                   "loads and the name does not mean the one std package so named" % (name, name), input=inp,
                                   expected="load error (or %s)" % sn["std_paths"], observed="loads; reports %s" % rep)
                    elif sn["load_err"].startswith("PANIC"):
                        c.fail("oracle", "Load panics", input=inp, observed=sn["load_err"], expected="a load error")
            if sw.get("load_err_ir"):
                c.fail("oracle", "Load and LoadFromIR disagree on the std sweep file", input={"rules": sw["rules"][:600]},
                       expected="loads", observed=sw["load_err_ir"])
            # K: the table Coq reasons about (the regenerated literal = the linked map, checked above) is the table the engine
            # behaves by: any difference has been reported above with the rule as failing input
            if gen_std is not None:
                c.coverage["std_table_entries_regenerated"] = len(gen_std)
                c.coverage["std_table_entries_recovered_from_engine"] = len(engine_tab)
            c.coverage["std_names_swept"] = len(sw["names"])
            c.coverage["std_names_bound"] = sum(1 for sn in sw["names"] if sn["documented"])
            c.coverage["std_names_ambiguous"] = sum(1 for sn in sw["names"] if len(sn["candidates"]) > 2)
        # ---- the parser alone: every composition of type constructors up to depth 3 around a qualified name
        pp = o.get("pos_parse")
        if pp is None:
            c.obligation("pos-parse:" + tag, False, "the harness did not run the positions sweep")
        else:
            c.evaluations += 2 * pp["shapes"]
            c.coverage["type_positions_parsed_directly"] = pp["shapes"]
            c.coverage["type_positions_accepted_when_bound"] = pp["accepted"]
            if pp.get("skipped"):
                c.obligation("pos-parse-wrappers:" + tag, False, "a depth-1 position is rejected even with the name bound: %s" % pp["skipped"][:4])
            for b in (pp.get("bad") or [])[:6]:
                pat, what = b.split(" | ", 1)
                c.fail("oracle", "typematch.Parse: " + what, input={"type_string": pat, "import_table": {"io": "io"},
                       "call": "typematch.Parse(&typematch.Context{Itab: NewImportsTab(import_table)}, type_string)"},
                       expected="an error (the load error of the rule)", observed="a panic" if "panics" in what else "a pattern")
        # ---- FindType alone: fully-qualified names with dots everywhere
        fq = o.get("fqn_sweep")
        if fq is None:
            c.obligation("fqn-sweep:" + tag, False, "the harness did not run the fully-qualified-name sweep")
        else:
            nbad = 0
            for cse in fq["cases"]:
                c.evaluations += 2
                tail = cse["path"].split("/", 1)[1] if "/" in cse["path"] else cse["path"]
                if "." in tail:
                    c.nontrivial.add(("fqn", cse["fqn"]))
                for which in ("got", "again"):
                    got = cse[which]
                    good = got.startswith("error") if cse["expect"] == "error" else got == cse["expect"]
                    if not good and nbad < 6:
                        nbad += 1
                        c.fail("oracle", "engineState.FindType: a fully-qualified name does not denote the object after its last dot in the "
                               "package before it (the current package depends on every package listed)",
                               input={"fqn": cse["fqn"], "lookup": "second (caches)" if which == "again" else "first",
                                      "dependencies_of_the_current_package": [p for p in fq["packages"] if cse["path"].startswith(p) or p.startswith(cse["path"])]},
                               expected=cse["expect"], observed=got)
                        break
            c.coverage["fqn_lookups"] = 2 * len(fq["cases"])
            c.coverage["fqn_packages"] = len(fq["packages"])
        if fq_keys:
            # K: the model's cut (split_fqn, proved equal to the translated FindType statements) on every fully-qualified name the
            # harness used, against the (path, name) the harness joined the string from
            keys = fq_keys
            okq, outq = evals["Fqn_%s.v" % tag]
            if not okq:
                c.obligation("coq-eval:Fqn_%s.v" % tag, False, outq[-2000:])
            else:
                mq = re.search(r"FQ\s*=\s*\[(.*?)\]\s*:\s*list string", outq, re.S)
                got = re.findall(r'"([^"]*)"', mq.group(1)) if mq else None
                if got is None or len(got) != len(keys):
                    c.obligation("coq-eval-parse:Fqn_%s.v" % tag, False, outq[-1500:])
                else:
                    for k, g_ in zip(keys, got):
                        c.evaluations += 1
                        if g_ != "%s|%s" % fq_strings[k]:
                            c.fail("corr", "model split_fqn cuts a fully-qualified name elsewhere than the harness joined it", input={"fqn": k},
                                   expected="%s|%s" % fq_strings[k], observed=g_)
                    c.coverage["fqn_strings_cut_by_the_model"] = len(keys)
                # K: the model's picture of go/ast (which fields of a node are types a clause has to descend into) against go/ast itself
                ms = re.search(r"SIG\s*=\s*\[(.*?)\]\s*:\s*list string", outq, re.S)
                sig = re.findall(r'"([^"]*)"', ms.group(1)) if ms else None
                refl = o.get("ast_fields")
                if sig is None or len(sig) != len(AST_KINDS) or not refl:
                    c.obligation("ast-sig:" + tag, False, "no ast_sig / reflected go/ast fields to compare")
                else:
                    for k, row in zip(AST_KINDS, sig):
                        c.evaluations += 1
                        want = ["%s:%s" % (f, l) for f, l in refl.get(k, []) if (k, f) not in AST_NOT_TYPES]
                        if [x for x in row.split(",") if x] != want:
                            c.fail("corr", "the model's ast_sig (type-valued fields of a go/ast node) differs from go/ast", input={"node": "ast." + k},
                                   expected=want, observed=row)
        # ---- the table itself: scripted Enter / Load / Leave histories, the whole visible table after every step
        scripts = o.get("scripts") or []
        if not scripts:
            c.obligation("itab-scripts:" + tag, False, "the harness ran no import-table scripts")
        else:
            ok2, out2 = evals["Scripts_%s.v" % tag]
            mtr = mwf = None
            if not ok2:
                c.obligation("coq-eval:Scripts_%s.v" % tag, False, out2[-2000:])
            else:
                m1 = re.search(r"TR\s*=\s*\[(.*?)\]\s*:\s*list string", out2, re.S)
                m2 = re.search(r"WF\s*=\s*\[(.*?)\]\s*:\s*list bool", out2, re.S)
                if m1 and m2:
                    mtr = [x.split(",") if x else [] for x in re.findall(r'"([^"]*)"', m1.group(1))]
                    mwf = re.findall(r"true|false", m2.group(1))
                if mtr is None or len(mtr) != len(scripts) or len(mwf) != len(scripts):
                    c.obligation("coq-eval-parse:Scripts_%s.v" % tag, False, out2[-1500:])
                    mtr = None
            nrep = 0
            for k, sc in enumerate(scripts):
                c.evaluations += len(sc["ops"])
                if nrep >= 4:
                    continue   # enough scripts reported; the rules files below show the same defect at the engine level
                inp = {"seed": o["seed"], "initial_table": sc["init"], "script": sc["ops"], "names": o["itab_names"], "paths": o["itab_paths"],
                       "reading": "after every operation: Lookup of every name ('-' unbound, digit = index into paths)"}
                if sc.get("rebinds") or sc.get("max_depth", 0) > 1:
                    c.nontrivial.add(("itab-script", json.dumps(sc["init"]), " ".join(sc["ops"])))
                nrep += 1 if (sc["panic"] or sc["obs"] != sc["oracle"] or sc["init_changed"]) else 0
                if sc["panic"]:
                    c.fail("oracle", "the import table panics on a well-bracketed script", input=inp, observed=sc["panic"], expected=sc["oracle"])
                    continue
                if sc["obs"] != sc["oracle"]:
                    step = next(i for i, (a, b) in enumerate(zip(sc["obs"], sc["oracle"])) if a != b)
                    c.fail("oracle", "ImportsTab.Lookup does not answer with the most recent binding whose scope is still open "
                           "(after operation %d: %s)" % (step + 1, sc["ops"][step]), input=inp, expected=sc["oracle"], observed=sc["obs"])
                elif sc["init_changed"]:
                    c.fail("oracle", "a script that binds names inside its own scopes only changed the caller's initial map (the engine "
                           "passes the shared stdinfo.PathByName)", input=inp, expected="unchanged", observed=sc["init_changed"])
                elif mtr is not None:
                    if mtr[k] != sc["obs"]:
                        c.fail("corr", "model exec/lookup differs from the real import table on a script", input=inp, expected=mtr[k], observed=sc["obs"])
                    if mwf[k] != "true":
                        c.obligation("itab-script-wf:%s:%d" % (tag, k), False, "a generated script is not wf_script 0 (the balance theorem would not apply)")
                    elif sc["obs"] and sc["obs"][-1] != "".join(
                            (str(o["itab_paths"].index(dict(map(tuple, sc["init"] or [])).get(nm))) if nm in dict(map(tuple, sc["init"] or [])) else "-")
                            for nm in o["itab_names"]):
                        c.fail("corr", "C20_script_balanced predicts the initial table after a well-bracketed script; observed another", input=inp,
                               observed=sc["obs"][-1])
            c.coverage["itab_scripts"] = c.coverage.get("itab_scripts", 0) + len(scripts)
            c.coverage["itab_script_ops"] = c.coverage.get("itab_script_ops", 0) + sum(len(sc["ops"]) for sc in scripts)
            c.coverage["itab_script_rebinds_in_one_scope"] = c.coverage.get("itab_script_rebinds_in_one_scope", 0) + sum(sc.get("rebinds", 0) for sc in scripts)
        table = o["table"]
        for k, sc in enumerate(o["scenarios"]):
            c.evaluations += 1
            ctx = {"seed": o["seed"], "file": "s%d.go" % sc["id"], "rules": sc["rules"]}
            if sc.get("position"):
                ctx["position_of_the_unresolvable_name"] = sc["position"]
                c.nontrivial.add(("position", sc["position"], tuple(len(g["reqs"] or []) for g in sc["groups"]), tuple(bool(g["imports"]) for g in sc["groups"])))
            loaded = not sc["load_err"]
            # what a file with engines of its own did when it was run (only its own probe functions)
            own_note = ""
            if sc.get("own") and loaded:
                own_note = "; Run on the file's own probes: %s" % (sc.get("own_run") or ("reports %s" % json.dumps(sc["obs"], sort_keys=True)))
            all_imports = tuple((tuple(g["imports"] or []), g["skip"]) for g in sc["groups"])
            bound = {base(p) for g in sc["groups"] for p in (g["imports"] or [])}
            # ---- oracle: load error exactly when a name cannot be resolved
            if sc["load_err"].startswith("PANIC"):
                c.fail("oracle", "Load panics", input=ctx, observed=sc["load_err"], expected="a load error or success")
                continue
            mres = model[k].split("|") if model is not None else None
            if mres is not None and "UNBALANCED" in mres:
                c.fail("corr", "model: import table not balanced after the file", input=ctx)
            m_failed = mres is not None and ("failed" in mres or "panic" in mres)
            if sc["o_failed"] != (not loaded):
                c.fail("oracle", "Load %s although a qualified name %s be resolved by the documented precedence" % (
                    ("succeeds", "cannot") if loaded else ("fails", "can")), input=ctx,
                    expected="load error" if sc["o_failed"] else "loads", observed=sc["load_err"] or ("loads" + own_note))
            elif loaded and sc.get("o_run_panic"):
                # a custom filter asks for a name that cannot be resolved: documented to panic (the run stops with the resolution
                # error), never an answer -- a filter that goes on is silently false (or silently means something else)
                c.nontrivial.add(("unresolvable-at-run-time", sc["o_run_panic"], all_imports))
                c.coverage["custom_unresolvable_files"] = c.coverage.get("custom_unresolvable_files", 0) + 1
                if not sc.get("own_run"):
                    c.fail("oracle", "a custom filter's lookup of `%s`, a name that cannot be resolved, does not stop the run: the filter "
                           "answers (silently false, or for some other type)" % sc["o_run_panic"], input=ctx,
                           expected="Run panics with the resolution error (dsl: GetType / GetInterface panic when the type can't be found)",
                           observed="Run completes; reports %s" % json.dumps(sc["obs"], sort_keys=True))
                elif not any(part in sc["own_run"] for part in sc["o_run_panic"].rsplit(".", 1) + ["FQN"]):
                    c.fail("oracle", "Run stops on the unresolvable `%s`, but not with a resolution error naming it" % sc["o_run_panic"],
                           input=ctx, expected="the resolution error", observed=sc["own_run"])
                continue
            elif loaded and sc.get("own_run"):
                c.fail("oracle", "Run fails on a file whose qualified names all resolve (the file has an engine of its own and is run on its own "
                       "probe functions only)", input=ctx, expected="reports for the documented targets %s" % json.dumps(sc["o_target"], sort_keys=True),
                       observed=sc["own_run"])
                continue
            elif loaded and sc["o_unknown_type_name"]:
                finding = F_UNKNOWN if (mres is not None and not m_failed) else None
                c.fail("oracle", "a type pattern names something its package does not declare and the file loads (silently-false filter)",
                       input=dict(ctx, name=sc["o_unknown_type_name"]), expected="load error", observed="loads", finding=finding)
            if mres is not None and m_failed != (not loaded) and sc["o_failed"] == (not loaded):
                c.fail("corr", "model load_file and the engine disagree on whether the file loads", input=ctx,
                       expected=model[k], observed=sc["load_err"] or "loads")
            # ---- the same file through the IR path (VerifConvertAST + LoadFromIR) into a second engine
            if sc.get("load_err_ir") != "n/a":
                if bool(sc.get("load_err_ir")) != (not loaded):
                    c.fail("oracle", "Load and LoadFromIR disagree on whether the file loads", input=ctx,
                           expected=sc["load_err"] or "loads", observed=sc.get("load_err_ir") or "loads")
                elif loaded and sc.get("own_run_ir") and not sc["o_failed"]:
                    c.fail("oracle", "Run fails on the rules loaded through LoadFromIR", input=ctx, expected=sc["obs"], observed=sc["own_run_ir"])
                elif loaded and (sc.get("obs_ir") or {}) != sc["obs"]:
                    c.fail("oracle", "the rules loaded through LoadFromIR resolve names differently from Load", input=ctx,
                           expected=sc["obs"], observed=sc.get("obs_ir"))
            if not loaded:
                c.nontrivial.add((all_imports, "load-error", sc["load_err"].split(": ", 1)[-1][:60]))
                # nothing of a failed file may be active
                for rid, v in sc["obs"].items():
                    if v:
                        c.fail("oracle", "a rule of a file whose Load failed reports", input=dict(ctx, rule=rid), observed=v, expected=[])
                continue
            # ---- per rule verdicts
            gi_loaded = 0
            for g in sc["groups"]:
                mg = None
                if mres is not None and not m_failed and gi_loaded < len(mres):
                    mg = mres[gi_loaded]
                gi_loaded += 1
                if g["skip"]:
                    if mg is not None and mg != "skipped":
                        c.fail("corr", "model does not skip a filtered group", input=dict(ctx, group=g["name"]), observed=mg)
                    for j in range(len(g["reqs"] or [])):
                        if sc["obs"].get("%s_r%d" % (g["name"], j)):
                            c.fail("oracle", "a group rejected by GroupFilter reports", input=dict(ctx, group=g["name"]),
                                   observed=sc["obs"]["%s_r%d" % (g["name"], j)], expected=[])
                    continue
                for j, cu in enumerate(g.get("custom") or []):
                    rid = "%s_c%d" % (g["name"], j)
                    c.evaluations += 1
                    op = "impl" if cu["call"] == "GetInterface" else "cident"
                    exp = table.get("%s||%s" % (op, cu["target"]))
                    obs = sc["obs"].get(rid, [])
                    c.nontrivial.add((all_imports, "custom", cu["call"], cu["fqn"]))
                    if exp is not None and obs != exp:
                        c.fail("oracle", "a custom filter's ctx.%s(`%s`) does not denote the fully-qualified name as written" % (cu["call"], cu["fqn"]),
                               input=dict(ctx, group=g["name"], imports=g["imports"]), expected=exp, observed=obs)
                mtargets = mg.split(",") if mg not in (None, "skipped", "failed") else None
                for j, q in enumerate(g["reqs"] or []):
                    rid = "%s_r%d" % (g["name"], j)
                    c.evaluations += 1
                    obs = sc["obs"].get(rid, [])
                    tgt = sc["o_target"].get(rid)
                    exp = table.get("%s|%s|%s" % (q["op"], q["wrap"], tgt))
                    if q["pkg"] in bound or obs:
                        c.nontrivial.add((all_imports, g["name"].split("_")[-1], json.dumps(q, sort_keys=True)))
                    inp = dict(ctx, group=g["name"], imports=g["imports"], predicate=q)
                    if tgt is None:
                        continue   # the oracle expected a load error for this file (already reported above)
                    if exp is None:
                        c.obligation("oracle-table:%s" % rid, False, "no verdict vector for %s" % tgt)
                        continue
                    if obs != exp:
                        c.fail("oracle", "the rule's verdicts are not those of the documented resolution (%s)" % tgt, input=inp,
                               expected=exp, observed=obs)
                    if mtargets is not None and j < len(mtargets):
                        mexp = table.get("%s|%s|%s" % (q["op"], q["wrap"], mtargets[j]))
                        if mtargets[j] != tgt and obs == exp:
                            c.fail("corr", "model resolves the name differently from the documented precedence and the engine",
                                   input=inp, expected=tgt, observed=mtargets[j])
                        elif mexp is not None and mexp != obs and obs == exp:
                            c.fail("corr", "model resolution does not explain the engine's verdicts", input=inp, expected=mtargets[j], observed=obs)
        if model is not None:
            c.coverage["model_vs_impl_files"] = c.coverage.get("model_vs_impl_files", 0) + len(o["scenarios"])
        c.coverage["files"] = c.coverage.get("files", 0) + len(o["scenarios"])
        c.coverage["files_with_load_error"] = c.coverage.get("files_with_load_error", 0) + sum(1 for s in o["scenarios"] if s["load_err"])
        c.coverage["rules_reporting"] = c.coverage.get("rules_reporting", 0) + sum(1 for s in o["scenarios"] for v in s["obs"].values() if v)
        c.coverage["world_entries"] = len(o["world"])
        for sc in o["scenarios"][:2] + o["scenarios"][20:22]:
            c.sample({"rules": sc["rules"], "load_err": sc["load_err"], "reports": sc["obs"], "documented_targets": sc["o_target"]}, limit=4)

    if thorough:
        for s in range(6):
            compare(observe(c.seed * 100 + s, 150), "main%d" % s)
    else:
        compare(observe(c.seed, 240), "main")

    def search():
        for s in range(1, 3):
            compare(observe(c.seed * 1000 + s, 150), "search%d" % s)

    c.coverage["exhaustive"] = False
    c.finish(search=search)
