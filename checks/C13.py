"""C13 -- loading composes rule sets as an ordered union and fails atomically.

P: engine.Load / engine.LoadFromIR (from the LoadFile call on), mergeRuleSets and appendScopedRuleSet are translated by
   go2coq (loadshape) into small statement languages with a Coq semantics and shown, for ALL engine states / rule sets,
   to be the model's load_step / merge / append_scoped; the secondary functions (LoadFile, loadRuleGroup,
   compileFilterFuncs, LoadedGroups, quasigo.Env) are pinned to the shape the hand-written model was written against.
   The history theorems (coq/theories/Load) are generic and are restated in coq/tmpl/C13/C13.v.
K: an abstract pool of rules files (colliding group names, bundle imports with and without prefix, equal-named custom
   functions, rules that fail to load, GroupFilters) is rendered to DSL source and to the Coq file model; random histories of
   Load/LoadFromIR calls are executed and after every call the error flag, LoadedGroups() and the reports on a probe file are
   compared with the model run inside coqc (vm_compute), rule acceptance being measured rule by rule in fresh engines.
O: observational oracles that do not use the model: a failing call changes neither groups nor reports; a successful call adds
   exactly the groups the file yields alone and composes reports (first loaded rule wins on single-match tags, all rules on
   multi-match tags); no panic; a RunnerState created earlier in the history behaves like a fresh one; a file loaded alone yields
   the groups its text says: its own and, for every ImportRules(prefix, bundle) call, the bundle's groups under that prefix (a bundle
   imported under two prefixes twice; a name brought twice is a redefinition).
"""
import json
import os
import re


def run(c):
    thorough = c.tier == "thorough"
    c.rule = ("histories of 2..7 Load/LoadFromIR calls over a seeded pool of 9 generated rules files; a step is non-trivial when it merges "
              "into a non-empty engine, collides with a loaded name, fails after something was loaded, has a GroupFilter that rejects "
              "a group, or imports a bundle; distinct by (class, file, filter, set of loaded group names)")
    c.trusted += [
        "go2coq loadshape/placetable (pattern-directed translation of Load/LoadFromIR tails, mergeRuleSets, appendScopedRuleSet; "
        "range loops over rulesByTag read pointwise; map iteration order abstracted to insertion order)",
        "abstraction of a rule alternative to (id, buckets | comment | load error, custom function name); rule acceptance measured, not modelled",
        "harness/cmd/c13, hook ruleguard.VerifConvertAST (build tag verif), static bundle packages harness/fake/rb1, rb2",
        "go/parser, go/types, gogrep, the engine's importer (go list) as black boxes",
    ]
    c.notes += ["LoadFile, loadRuleGroup, compileFilterFuncs, LoadedGroups and quasigo.Env are modelled by hand (LoadFile.v, FuncEnv.v) "
                "and tied by shape pinning + correspondence, not by translation",
                "Go map iteration order only decides which of several redefinition errors is reported"]

    c.build_theories()
    c.require_theories("Load/LoadModel.v", "Load/FuncEnv.v", "Load/LoadFile.v", "Load/LoadIR.v", "Load/Place.v")

    # ---- P
    g1 = c.go2coq("loadshape", "Gen_Load.v")
    g2 = c.go2coq("placetable", "Gen_Place.v")
    gen_ok = False
    if g1 and g2:
        gen_ok = c.coq_compile(["Gen_Load.v", "Gen_Place.v"])
        if gen_ok:
            c.install_tmpl("C13/Inst_Load.v", "C13/C13.v")
            c.coq_compile(["Inst_Load.v", "C13.v"])
    multi_names = ["BlockStmt", "CaseClause", "CommClause", "File"]
    if g1:
        m = re.search(r"gen_multi_match_tags : list string :=\s*\[(.*?)\]\.", open(os.path.join(c.gen, "Gen_Load.v")).read(), re.S)
        if m:
            multi_names = re.findall(r'"(\w+)"', m.group(1))

    hb = c.build_harness("c13")
    if hb is None:
        return c.finish()

    state = {"round": 0}

    def observe(seed, nhist, nfiles=9, maxlen=7):
        state["round"] += 1
        rc, out = c.run_harness(hb, ["-seed", str(seed), "-histories", str(nhist), "-files", str(nfiles), "-maxlen", str(maxlen),
                                     "-tmp", os.path.join(c.work, "tmp%d" % state["round"])], timeout=1200)
        start = out.find("{")
        try:
            d = json.loads(out[start:]) if start >= 0 else None
        except ValueError:
            d = None
        if rc != 0 or d is None:
            c.obligation("harness-run:c13", False, out[-2000:])
            return None
        for p in d.get("problems") or []:
            c.obligation("harness-selfcheck:c13", False, p)
        return d

    # ------------------------------------------------------------------ oracles (model-free)
    def reps_by_node(reps):
        out = {}
        for r in reps or []:
            out.setdefault(r["key"], []).append(r["uid"])
        return out

    cov_types = {"after_failed": set(), "after_ok": set(), "list_first": set(), "list_first_reporting": set()}

    def check_oracles(d, seed):
        multi_vals = {d["tag_values"].get(n) for n in multi_names}
        node_tags = d["node_tags"]
        singles = {(s["file"], s["filter"]): s for s in d["singles"]}
        # a file loaded alone: its groups are what its text says -- the groups of the file itself and, for EVERY ImportRules(prefix,
        # bundle) of its init function, the groups of the bundle's files under that prefix (one bundle imported under two prefixes
        # brings its groups twice), as far as the GroupFilter accepts them; a name that occurs twice among them is a redefinition
        for sg in d["singles"]:
            rf = d["files"][sg["file"]]
            if rf.get("broken"):
                continue
            said = [g["name"] for g in rf["main"]["groups"]]
            for b in rf.get("bundles") or []:
                for sf in b["files"]:
                    said += [(b["prefix"] + "/" + g["name"]) if b["prefix"] else g["name"] for g in sf["groups"]]
            if sg["filter"] >= 0:
                said = [n for n in said if n in d["filters"][sg["filter"]]]
            sinp = {"seed": seed, "file": sg["file"], "rules.go": d["sources"][sg["file"]],
                    "filter": d["filters"][sg["filter"]] if sg["filter"] >= 0 else None}
            got = sorted(g["name"] for g in sg["groups"])
            if sg["load"]["ok"] and got != sorted(said):
                c.fail("oracle", "the groups of a rules file loaded alone are not the groups of the file and of the bundles it imports (each under "
                       "the prefix of its ImportRules call)", input=sinp, observed=got, expected=sorted(said))
            elif sg["load"]["ok"] and len(set(said)) != len(said):
                c.fail("oracle", "a rules file that brings the same group name twice (one bundle imported twice under one prefix) loads", input=sinp,
                       observed=got, expected="a redefinition error")
            if len(set(said)) != len(said):
                c.coverage["files_with_a_repeated_bundle_import"] = c.coverage.get("files_with_a_repeated_bundle_import", 0) + 1
        # what a rule reports does not depend on the engine's load history: the same stand-alone file on a fresh engine and on
        # an engine that loaded a file without any report before
        rule_src = {}
        for rf in d["files"]:
            for g in rf["main"]["groups"]:
                for r in g["rules"]:
                    rule_src[str(r["uid"])] = (rf["main"], r)
        for u, alone in sorted(d["acc"].items(), key=lambda x: int(x[0])):
            after = (d.get("acc_after") or {}).get(u)
            c.coverage["rules_measured_on_an_engine_with_history"] = c.coverage.get("rules_measured_on_an_engine_with_history", 0) + 1
            if after is not None and sorted(after) != sorted(alone):
                sf, r = rule_src.get(u, ({}, {}))
                c.fail("oracle", "a rule loaded as the FIRST file of an engine reports other nodes than the same file loaded after a file that "
                       "reports nothing (what Run applies is the rules of the loaded groups, whatever the number of Load calls)",
                       input={"seed": seed, "rule_uid": int(u), "rule": r, "pattern": d["syntax_pats"][r["pat"]] if r.get("kind") == "syntax" else None,
                              "declarations_of_file": {k: sf.get(k) for k in ("fns", "ksize", "marker")}},
                       observed={"first_load_of_the_engine": sorted(alone), "after_another_load": sorted(after)}, expected="the same nodes")
        marker_filters = set(d.get("marker_filters") or [])

        def marker_use(rf):
            """(has a rule naming the file's own type, such a rule comes before the first rule that fails to load)"""
            has = before_bad = False
            seen_bad = False
            for g in rf["main"]["groups"]:
                for r in g["rules"]:
                    if r["kind"] == "bad":
                        seen_bad = True
                    elif r["kind"] == "syntax" and r["filter"] in marker_filters:
                        has = True
                        if not seen_bad:
                            before_bad = True
            return has, before_bad
        for hi, h in enumerate(d["histories"]):
            # generator bookkeeping: local types of equal name, list-only files loaded first
            resolved = {}  # marker value -> how it got into the history ("ok" / "failed")
            for si, s in enumerate(h["steps"]):
                rf = d["files"][h["ops"][si]["file"]]
                has, before_bad = marker_use(rf)
                mk = rf["main"].get("marker")
                if rf.get("broken") or not mk:
                    continue
                if s["load"]["ok"] and has:
                    if any(m != mk and how == "failed" for m, how in resolved.items()):
                        cov_types["after_failed"].add((seed, hi))
                    if any(m != mk and how == "ok" for m, how in resolved.items()):
                        cov_types["after_ok"].add((seed, hi))
                    resolved.setdefault(mk, "ok")
                elif not s["load"]["ok"] and before_bad:
                    resolved.setdefault(mk, "failed")
            if h["steps"] and h["steps"][0]["load"]["ok"] and d["files"][h["ops"][0]["file"]]["main"].get("list_only") \
                    and not d["files"][h["ops"][0]["file"]].get("bundles"):
                cov_types["list_first"].add((seed, hi))
                if h["steps"][0]["reports"]:
                    cov_types["list_first_reporting"].add((seed, hi))

            def inp(upto):
                return {"seed": seed, "history": hi, "ops": h["ops"][:upto + 1],
                        "files": {str(o["file"]): d["sources"][o["file"]] for o in h["ops"][:upto + 1]},
                        "filters": {str(o["filter"]): d["filters"][o["filter"]] for o in h["ops"][:upto + 1] if o["filter"] >= 0}}
            init = h["init"]
            if init.get("groups_problem") or init["groups"]:
                c.fail("oracle", "LoadedGroups() on an engine without a successful load fails", input=inp(-1),
                       observed=init.get("groups_problem") or init["groups"], expected="no groups, no panic")
            if not (init.get("run_problem") or "").startswith("error:"):
                c.fail("oracle", "Run() on an engine without a successful load does not return its error", input=inp(-1),
                       observed=init.get("run_problem"), expected="an error, no panic")
            prev = init
            loaded_any = False
            for si, s in enumerate(h["steps"]):
                c.count()
                op = h["ops"][si]
                single = singles.get((op["file"], op["filter"]))
                ld = s["load"]
                names_prev = sorted((g["name"], g["file"], g["line"]) for g in prev["groups"])
                names_now = sorted((g["name"], g["file"], g["line"]) for g in s["groups"])
                # classification for the evidence
                cls = None
                rf = d["files"][op["file"]]
                loaded_names = tuple(sorted(g["name"] for g in prev["groups"]))
                if ld.get("panic"):
                    hang = ld["panic"].startswith("Load does not return")
                    c.fail("oracle", "a Load on an engine with a load history does not return (an earlier call left the engine unusable)" if hang
                           else "Load panics", input=inp(si), observed=ld["panic"], expected="nil or an error")
                    prev = s
                    continue
                for f in ("groups_problem", "state0_problem", "state1_problem", "run_problem"):
                    if s.get(f) and not (f != "groups_problem" and not s["groups"] and s[f].startswith("error:")):
                        c.fail("oracle", "%s after a load history" % f, input=inp(si), observed=s[f], expected="no panic, no error")
                if s["reports"] != s["state0_reports"] or (s["has_state1"] and s["reports"] != s["state1_reports"]):
                    if not (s.get("state0_problem") or s.get("state1_problem")):
                        c.fail("oracle", "a RunnerState created before a later Load sees different rules than a fresh one", input=inp(si),
                               observed={"fresh": s["reports"], "state0": s["state0_reports"], "state1": s["state1_reports"]},
                               expected="identical reports")
                if not ld["ok"]:
                    if names_now != names_prev or s["reports"] != prev["reports"]:
                        c.fail("oracle", "a failing Load changed the engine", input=inp(si),
                               observed={"error": ld["err"], "groups": s["groups"], "reports": s["reports"]},
                               expected={"groups": prev["groups"], "reports": prev["reports"]})
                    if single is not None:
                        taken = set(g["name"] for g in prev["groups"]) & set(g["name"] for g in single["groups"])
                        if single["load"]["ok"] and not taken:
                            c.fail("oracle", "Load fails although the file loads alone and none of its accepted group names is taken",
                                   input=inp(si), observed=ld["err"], expected="nil error")
                        if loaded_any:
                            cls = "collision" if (single["load"]["ok"] and taken) else "file-error-after-load"
                else:
                    if single is None or not single["load"]["ok"]:
                        c.fail("oracle", "Load succeeds although the same file with the same GroupFilter is rejected by a fresh engine",
                               input=inp(si), observed="nil error", expected=(single or {}).get("load"))
                        prev = s
                        continue
                    if op["filter"] >= 0:
                        rejected = [g["name"] for g in s["groups"] if g not in prev["groups"] and g["name"] not in d["filters"][op["filter"]]]
                        if rejected:
                            c.fail("oracle", "a group rejected by GroupFilter is listed by LoadedGroups() (it occupies its name)", input=inp(si),
                                   observed=rejected, expected="only groups the filter accepted")
                    want = sorted(names_prev + sorted((g["name"], g["file"], g["line"]) for g in single["groups"]))
                    if names_now != want or len(set(n for n, _, _ in names_now)) != len(names_now):
                        c.fail("oracle", "LoadedGroups() is not the union of the accepted groups of the successful calls", input=inp(si),
                               observed=s["groups"], expected=[list(x) for x in want])
                    # reports: concatenation in call order under first-match (single-match tags) / all-match (multi-match tags)
                    pb, sb, nb = reps_by_node(prev["reports"]), reps_by_node(single["reports"]), reps_by_node(s["reports"])
                    for key in set(pb) | set(sb) | set(nb):
                        tag = node_tags.get(key)
                        if tag is not None and tag in multi_vals:
                            exp = pb.get(key, []) + sb.get(key, [])
                        else:
                            exp = pb.get(key, []) or sb.get(key, [])
                        if nb.get(key, []) != exp:
                            c.fail("oracle", "Run does not apply the rules of the successful calls in call order", input=dict(inp(si), node=key),
                                   observed=nb.get(key, []), expected=exp)
                            break
                    accepted_all = op["filter"] < 0
                    if loaded_any:
                        cls = "merge"
                    if rf["bundles"]:
                        cls = (cls or "first") + "+bundle"
                    if not accepted_all:
                        all_names = set(g["name"] for g in rf["main"]["groups"])
                        if all_names - set(g["name"] for g in single["groups"]):
                            cls = (cls or "first") + "+filtered"
                    loaded_any = True
                if cls:
                    c.nontriv((cls, op["file"], op["filter"], op["via"], loaded_names))
                prev = s

    # ------------------------------------------------------------------ model run inside Coq
    def coq_cases(d, tag):
        if not gen_ok:
            return
        sid = {}

        def S(s):
            if s not in sid:
                sid[s] = len(sid) + 1
            return sid[s]
        file_ids = {}
        mangles = set()

        def kind(r):
            if r["kind"] == "comment":
                return "RComment"
            if r["kind"] == "bad":
                return "RBad"
            return "(kind_of_tag %d)" % max(r["root_tag"], 0)

        def sfile(sf):
            file_ids[sf["name"]] = sf["id"]
            decls = "; ".join("mkF %d %d [%s]" % (S("fn:" + f["name"]), f["body"], "; ".join(str(S("fn:" + x)) for x in (f["calls"] or [])))
                              for f in (sf["fns"] or []))
            groups = "; ".join("mkFG %d [%s]" % (S(g["name"]), "; ".join(
                "mkGR %d %s %s" % (r["uid"], kind(r), ("(Some %d)" % S("fn:" + r["fn"])) if r["fn"] else "None") for r in g["rules"]))
                for g in sf["groups"])
            return "(mkSF %d [%s] [%s])" % (sf["id"], decls, groups)

        def rfile(rf):
            if rf["broken"]:
                return "(mkRF [] (mkSF %d [mkF 999999 0 [999998]] []))" % rf["main"]["id"]
            bs = []
            for b in rf["bundles"] or []:
                if b["prefix"]:
                    for sf in b["files"]:
                        for g in sf["groups"]:
                            mangles.add((b["prefix"], g["name"]))
                bs.append("(%s, [%s])" % (("Some %d" % S("pfx:" + b["prefix"])) if b["prefix"] else "None", "; ".join(sfile(sf) for sf in b["files"])))
            return "(mkRF [%s] %s)" % ("; ".join(bs), sfile(rf["main"]))
        files_src = [rfile(rf) for rf in d["files"]]
        # nodes
        nid = {}

        def NID(k):
            if k not in nid:
                nid[k] = len(nid) + 1
            return nid[k]
        for keys in d["acc"].values():
            for k in keys:
                NID(k)
        for h in d["histories"]:
            for s in h["steps"]:
                for r in s["reports"] or []:
                    NID(r["key"])
        pre = ["From Coq Require Import List String Bool ZArith NArith.",
               "From RG.Load Require Import LoadModel FuncEnv LoadFile Place.",
               "From RGW Require Import Gen_Load Gen_Place.",
               "Import ListNotations. Local Open Scope N_scope.",
               "Definition NBk : nat := N.to_nat gen_num_buckets.",
               "Definition kind_of_tag (t : N) : rkind := match place_of gen_place_cases t with PErr => RBad | PTags l => RSyntax l end.",
               "Definition tagval (s : string) : N := match find (fun p => String.eqb (fst p) s) gen_nodetags with Some p => snd p | None => 0 end.",
               "Definition multi (t : N) : bool := existsb (fun s => N.eqb (tagval s) t) gen_multi_match_tags.",
               "Definition memN (x : N) (l : list N) : bool := existsb (N.eqb x) l."]
        for i, src in enumerate(files_src):
            pre.append("Definition F%d : rfile := %s." % (i, src))
        pre.append("Definition mangle_tab : list (N * N * N) := [%s]." % "; ".join(
            "(%d, %d, %d)" % (S("pfx:" + p), S(n), S(p + "/" + n)) for p, n in sorted(mangles)))
        pre.append("Definition mangle (p a : N) : N := match find (fun x => N.eqb (fst (fst x)) p && N.eqb (snd (fst x)) a) mangle_tab with "
                   "Some x => snd x | None => 1000000 + p * 1000 + a end.")
        for i, sel in enumerate(d["filters"]):
            pre.append("Definition FLT%d (n : N) : bool := memN n [%s]." % (i, "; ".join(str(S(n)) for n in sel)))
        pre.append("Definition FLTall (n : N) : bool := true.")
        pre.append("Definition acc_tab : list (N * list N) := [%s]." % "; ".join(
            "(%s, [%s])" % (u, "; ".join(str(NID(k)) for k in keys)) for u, keys in sorted(d["acc"].items(), key=lambda x: int(x[0]))))
        pre.append("Definition accepts (r : lrule) (n : N) : bool := match find (fun p => N.eqb (fst p) (lr_id r)) acc_tab with "
                   "Some p => memN n (snd p) | None => false end.")
        # nodes: (id, Some tag | None for comments)
        nodes = []
        for k, i in sorted(nid.items(), key=lambda x: x[1]):
            t = d["node_tags"].get(k)
            nodes.append("(%d, %s)" % (i, "None" if t is None else "Some %d" % t))
        pre.append("Definition nodes : list (N * option N) := [%s]." % "; ".join(nodes))
        pre += [
            "Definition predict (e : engine) (nd : N * option N) : list N :=",
            "  match snd nd with",
            "  | Some t => if Z.eqb (eng_cat lrule grp (e_rules e)) 0 then [] else",
            "              map lr_id (run_bucket lrule N accepts multi t (eng_bucket lrule grp (e_rules e) t) (fst nd))",
            "  | None => map lr_id (run_bucket lrule N accepts (fun _ => false) 0 (eng_comments lrule grp (e_rules e)) (fst nd))",
            "  end.",
            "Definition lookup_obs (obs : list (N * list N)) (n : N) : list N := match find (fun p => N.eqb (fst p) n) obs with Some p => snd p | None => [] end.",
            "Definition listN_eqb (a b : list N) : bool := Nat.eqb (List.length a) (List.length b) && forallb (fun p => N.eqb (fst p) (snd p)) (combine a b).",
            "Definition pair_mem (x : N * N) (l : list (N * N)) : bool := existsb (fun y => N.eqb (fst x) (fst y) && N.eqb (snd x) (snd y)) l.",
            "Definition groups_eqb (a b : list (N * N)) : bool := Nat.eqb (List.length a) (List.length b) && forallb (fun x => pair_mem x b) a && forallb (fun x => pair_mem x a) b.",
            "Definition step_obs := (bool * list (N * N) * list (N * list N))%type.",
            "Definition check_step (ok : bool) (e : engine) (o : step_obs) : N :=",
            "  let '(ook, ogs, oreps) := o in",
            "  if negb (Bool.eqb ok ook) then 1",
            "  else if negb (groups_eqb (eng_groups lrule grp (e_rules e)) ogs) then 2",
            "  else if negb (forallb (fun nd => listN_eqb (predict e nd) (lookup_obs oreps (fst nd))) nodes) then 3 else 0.",
            "Fixpoint check_hist (e : engine) (h : list call) (obs : list step_obs) (i : N) : list (N * N) :=",
            "  match h, obs with",
            "  | c :: h', o :: obs' => let '(e', ok) := load NBk mangle e c in",
            "      match check_step ok e' o with 0 => check_hist e' h' obs' (i + 1) | w => [(i, w)] end",
            "  | _, _ => []",
            "  end.",
        ]

        def hist_src(hi, h):
            calls = "; ".join("(%s, F%d)" % ("FLTall" if o["filter"] < 0 else "FLT%d" % o["filter"], o["file"]) for o in h["ops"])
            obs = []
            for s in h["steps"]:
                gs = "; ".join("(%d, %d)" % (S(g["name"]), file_ids.get(g["file"], 0)) for g in s["groups"])
                rb = reps_by_node(s["reports"])
                rs = "; ".join("(%d, [%s])" % (NID(k), "; ".join(str(u) for u in us)) for k, us in sorted(rb.items()))
                obs.append("(%s, [%s], [%s])" % ("true" if s["load"]["ok"] else "false", gs, rs))
            return "(%d, check_hist (mkE None []) [%s] [%s] 0)" % (hi, calls, ";\n    ".join(obs))
        hs = list(enumerate(d["histories"]))
        NSH = 8 if len(hs) >= 16 else 2
        jobs = []
        for k in range(NSH):
            src = list(pre)
            src.append("Definition RES := Eval vm_compute in [%s]." % ";\n  ".join(hist_src(hi, h) for hi, h in hs[k::NSH]))
            src.append("Print RES.")
            jobs.append(("Cases_%s_%d.v" % (tag, k), "\n".join(src)))
        bad = []
        for (fname, _), (ok, out) in zip(jobs, c.coq_eval_many(jobs, timeout=900)):
            if not ok:
                c.obligation("coq-eval:" + fname, False, out[-2500:])
                return
            m = re.search(r"RES\s*=\s*(.*?)\s*:\s*list", out, re.S)
            if not m:
                c.obligation("coq-eval-parse:" + fname, False, out[-1500:])
                return
            txt = re.sub(r"\s+", " ", m.group(1))
            for hm in re.finditer(r"\((\d+), \[(.*?)\]\)", txt):
                inner = hm.group(2).strip()
                if inner:
                    mm = re.search(r"\((\d+), (\d+)\)", inner)
                    bad.append((int(hm.group(1)), int(mm.group(1)), int(mm.group(2))))
        c.coverage["model_vs_impl_histories"] = c.coverage.get("model_vs_impl_histories", 0) + len(hs)
        what = {1: "returned error flag", 2: "LoadedGroups()", 3: "reports"}
        for hi, si, w in bad:
            h = d["histories"][hi]
            c.fail("corr", "Coq engine model and implementation disagree on the %s after step %d" % (what.get(w, "?"), si),
                   input={"history": hi, "ops": h["ops"][:si + 1], "files": {str(o["file"]): d["sources"][o["file"]] for o in h["ops"][:si + 1]},
                          "filters": {str(o["filter"]): d["filters"][o["filter"]] for o in h["ops"][:si + 1] if o["filter"] >= 0}},
                   observed={"load": h["steps"][si]["load"], "groups": h["steps"][si]["groups"], "reports": h["steps"][si]["reports"]})

    def one_round(seed, nhist, tag):
        d = observe(seed, nhist)
        if d is None:
            return
        check_oracles(d, seed)
        coq_cases(d, tag)
        for h in d["histories"][:2]:
            c.sample({"ops": h["ops"], "returns": [s["load"]["ok"] for s in h["steps"]],
                      "groups_after": [g["name"] for g in h["steps"][-1]["groups"]],
                      "reports_after": [[r["uid"], r["key"]] for r in (h["steps"][-1]["reports"] or [])][:8]})
        c.coverage["rules_measured"] = c.coverage.get("rules_measured", 0) + len(d["acc"]) + len(d["acc_err"])

    nh = 60 if not thorough else 400
    one_round(c.seed, nh, "main")
    for k, v in cov_types.items():
        c.coverage["histories_" + k] = len(v)
    c.obligation("generator:local-types", len(cov_types["after_ok"]) >= 5 and len(cov_types["after_failed"]) >= 2,
                 "histories in which a file whose rules name its own type `marker` loads after a file that declared another `marker` and "
                 "resolved it: %d after a successful load, %d after a FAILED load whose rule naming the type precedes the failing rule "
                 "(need >= 5 / >= 2)" % (len(cov_types["after_ok"]), len(cov_types["after_failed"])))
    c.obligation("generator:list-only-first", len(cov_types["list_first_reporting"]) >= 5,
                 "histories whose first Load is a file without bundle imports whose syntax rules are ALL list patterns (statement / expression / "
                 "declaration lists), observed by Run before any other Load: %d, %d of them with reports (need >= 5)" % (
                     len(cov_types["list_first"]), len(cov_types["list_first_reporting"])))
    if thorough:
        for k in range(1, 4):
            one_round(c.seed * 7919 + k, 400, "t%d" % k)

    def search():
        for k in range(1, 5):
            d = observe(c.seed * 104729 + k, 250)
            if d is not None:
                check_oracles(d, c.seed * 104729 + k)
            if any(f["kind"] == "oracle" and not f.get("finding") for f in c.failures):
                break

    c.coverage["exhaustive"] = False
    c.finish(search=search)
