"""C08 -- concurrent Run calls on one Engine are race-free and equivalent to sequential.

P: go2coq locks type-checks /repo/ruleguard (+ quasigo, typematch, textmatch, xtypes, xsrcimporter, goutil, profiling) and regenerates: the shared fields and mutexes of engine /
   engineState, every execution path (static helpers inlined, deferred unlocks placed) of every function that can
   run while Run calls are in flight and reaches the shared state, the site table (function, field, R/W, locks
   held), escaping reference values, struct inventories, package-level variables and the write-site scan.
   coq/tmpl/C08 re-proves over them: sites_disciplined (every path passes the decidable discipline check), lifted by
   the generic RG.Locks.Model.discipline_implies_race_free (any number of threads, any interleaving) to
   run_paths_race_free; findtype_paths_conform (FindType's paths have the shape of the protocol of RG.Locks.Cache,
   for which findtype_linearizable is proved); run_state_confined; no package-level variable is written;
   loadtime_objects_read_only: no write site (assignment, element write through a local alias, append, address-taking) of
   any run-reachable function of any of those packages stores into a struct type reachable from the loaded rule set
   (regenerated object graph: engine.ruleSet, engineState.env, captures of the filter closures); run_scan_closed.
   natives: gen_natives (the table bound into the quasigo environment) = the table a loaded engine has; the structs behind
   the natives are Load-time objects without fields of their own (natives_stateless: no table in front of FindType, cf.
   RG.Locks.Front); no value containing a lock is copied (no_lock_copied).
K: the cache model (RG.Locks.Cache.run_dep / lone) is executed by vm_compute on the same FindType scripts that the
   harness drives through engineState.FindType (hook), sequentially and from 2/4/16 goroutines; results and cache
   contents are diffed. Contexts include in-memory packages whose dependencies resolve one path differently.
O: the property's own oracle: every report list of every concurrent Run on ONE engine (N in {2,4,16}, cold and warm
   caches, states nil / sync.Pool / per goroutine) equals the sequential baseline of that file; the race detector
   (harness built with -race) must stay silent; a FindType answer must be the lone answer for that (package, name).
   Real schedules are explored, not proved.
"""
import glob
import json
import os
import re
import shutil
from concurrent.futures import ThreadPoolExecutor

FINDING = "c08-typecache-masks-unresolvable-fqn"

# natives that no rules file can call (reviewed): bound in the engine, absent from the dsl API
UNREACHABLE_NATIVES = {
    "*github.com/quasilyte/go-ruleguard/dsl.MatchedText.String":
        "dsl.MatchedText has no String method (the type-checker rejects a rules file that calls it), and no native returns a *MatchedText",
}


def jlines(out):
    res = []
    for line in out.splitlines():
        line = line.strip()
        if line.startswith("{"):
            try:
                res.append(json.loads(line))
            except ValueError:
                pass
    return res


def race_reports(prefix):
    """parse GORACE log files <prefix>.<pid> into individual reports"""
    reps = []
    for p in sorted(glob.glob(prefix + ".*")):
        try:
            txt = open(p, errors="replace").read()
        except OSError:
            continue
        for block in txt.split("=================="):
            if "DATA RACE" in block:
                reps.append({"log": p, "text": block.strip()})
    return reps


class FT:
    """bookkeeping for the FindType correspondence: names <-> numbers, the context-dependent oracle"""

    def __init__(self, oracle_line):
        self.host = {e["fqn"]: (e["type"] if e["ok"] else None) for e in oracle_line["table"]}
        self.deps = oracle_line["deps"]
        self.importable = oracle_line["importable"]
        self.targets = oracle_line["targets"]
        # what a name denotes among the dependencies of each calling package (the in-memory targets disagree about the
        # names of their common dependency path)
        self.deptab = oracle_line.get("deptab") or {}
        self.kidx = {}
        self.vidx = {}

    def k(self, fqn):
        return self.kidx.setdefault(fqn, len(self.kidx))

    def v(self, ts):
        return self.vidx.setdefault(ts, len(self.vidx))

    def path(self, fqn):
        pos = fqn.rfind(".")
        return None if pos < 0 else fqn[:pos]

    def dep(self, pidx, fqn):
        """what findDependency + the scope lookup give for the package `pidx` (-1: nil): ("nodep",) when the name's
        package is not among its dependencies, ("dep", type string or None) otherwise"""
        path = self.path(fqn)
        if path is None or pidx < 0 or path not in self.deps[self.targets[pidx]]:
            return ("nodep",)
        row = self.deptab.get(str(pidx))
        if row is not None and fqn in row:
            return ("dep", row[fqn])
        return ("dep", self.host.get(fqn))

    def imp(self, fqn):
        """what the engine's importer + the scope lookup give for the name (independent of the calling package)"""
        path = self.path(fqn)
        if path is None or not self.importable.get(path):
            return None
        return self.host.get(fqn)

    def oracle2(self, pidx, fqn):
        """the lone answer for a name that is not in the initial cache"""
        d = self.dep(pidx, fqn)
        return d[1] if d[0] == "dep" else self.imp(fqn)

    def contexts(self):
        return [-1] + list(range(len(self.targets)))

    def masked(self, pidx, fqn, observed_type):
        """shape of the defect fixed in /repo (engine-wide caching of dependency-resolved types): nobody can resolve
        the name for this package, yet an answer came out of the cache that another package's run put there"""
        path = self.path(fqn)
        if path is None or observed_type is None:
            return False
        if self.oracle2(pidx, fqn) is not None or self.importable.get(path):
            return False
        return any(self.oracle2(q, fqn) == observed_type for q in self.contexts())


COQ_PRE = """From Coq Require Import List NArith Bool.
From RG.Locks Require Import Cache.
Import ListNotations. Local Open Scope N_scope.
Definition oeqb (a b : option N) : bool := match a, b with Some x, Some y => x =? y | None, None => true | _, _ => false end.
Fixpoint mism (i : N) (a b : list (option N)) : list N :=
  match a, b with
  | x :: a', y :: b' => if oeqb x y then mism (i + 1) a' b' else i :: mism (i + 1) a' b'
  | [], [] => []
  | _, _ => [i]
  end.
Definition cache_sub (a b : list (N * N)) : bool := forallb (fun e => oeqb (lookup N.eqb (fst e) b) (Some (snd e))) a.
"""


def opt(x):
    return "None" if x is None else "(Some %d)" % x


def run(c):
    thorough = c.tier == "thorough"
    c.rule = ("an exploration case = one Run call of a round (rule set in {custom filters calling GetType/GetInterface on ~20 "
              "FQNs, mixed Load-time Type.Is/Implements + Do + comment rules, two merged rules files, 66 type-pattern rules of "
              "every typematch op incl. $*_ runs / repeated type and length variables / SinkType / expression lists, 24 rules with "
              "custom filters (locals, loops, user-function calls) + Do bodies + Contains sub-patterns + every textmatch matcher "
              "kind + comment rules + At/Suggest, both files merged, two generated sets calling every native of the engine's table "
              "from custom filters and Do handlers + filters on the names of an in-memory dependency} x {4 small files, 4 'zoo' "
              "files applying every filter to 53 values of different types / 23 texts in rotation, 6 in-memory packages whose "
              "dependencies resolve one import path to three different packages (no file / a stale file on disk)} x N in "
              "{2,4,16} goroutines on ONE engine x first-touch/cold/warm x RunnerState nil/sync.Pool/own) compared with the sequential "
              "baseline (in-memory packages: the lone Run on a fresh engine; lone Runs in two other processes in opposite orders); "
              "a cache case = one FindType call of a sequential script or a concurrent burst compared with the Coq "
              "model; distinct non-trivial = distinct (rule set, N, phase, state modes, type cache grew?, package cache grew?) "
              "of rounds that delivered reports + distinct (context kind, name, outcome, hit/miss) of FindType calls")
    c.trusted += [
        "go2coq locks (go/types-based extraction: static-call inlining, path enumeration with deferred unlocks, loops and recursion "
        "abstracted to zero/one iteration after checking that an iteration restores the held set; fails closed on goroutines, "
        "deferred calls reaching shared state, address-taking of shared fields, unknown mutex methods); calls through interfaces and "
        "function values are not followed -- every function literal, every function used as a value and every exported function is "
        "therefore a root of its own that must be disciplined from the empty held set",
        "the lock model: sync.RWMutex as reader count + writer flag with atomic map accesses between lock operations; the Go memory "
        "model (happens-before of Unlock/Lock) and the internals of go/types packages shared between goroutines are outside the model",
        "the API contract that Load/LoadFromIR/NewEngine/InferBuildContext do not run concurrently with Run (their roots are exempt)",
        "per-run ownership of RunnerState / rulesRunner instances is by construction in newRulesRunner (one per RunContext); the "
        "write-site scan classifies by static owner type; an element write through a local slice/map/pointer variable is attributed "
        "to the origin of the variable's value (all assignments to it in the enclosing function), and stays local-ref only when "
        "that is a parameter or a call result; function literals count as running during Run unless they provably do not outlive "
        "a loading-phase frame (invoked in place, call-only parameter, call-only local binding)",
        "code of other modules that works on objects shared by all runs: gogrep v0.5.0 (MatchNode on a shared gogrep.Pattern with a "
        "caller-owned MatcherState), regexp (documented as safe for concurrent use except Longest), go/types objects of the cached "
        "packages -- pinned versions, not scanned; only the methods called on regexp.Regexp / gogrep.Pattern are checked",
        "hypothesis of findtype_linearizable / history_independent: the importer is a deterministic function of the name (what the "
        "dependencies of a package answer may differ from package to package and from the importer: the dependency answer takes "
        "precedence, fix d9e46be); answers are compared with the calling package's own dependency object (identity) or, for importer "
        "answers, with the host's type through xtypes identity (same_as_host)",
        "harness/cmd/c08 (built with -race), hooks ruleguard.VerifFindType / VerifTypeCache / VerifPkgCache / VerifNativeNames, the Go race "
        "detector; the generator of the natives rule sets (type-directed arguments from go/types on the dsl packages; a native it "
        "cannot call is reported, the reviewed exceptions are in UNREACHABLE_NATIVES)",
    ]
    c.notes += [
        "real schedules are explored (race detector + comparison with the sequential baseline), not proved; the theorems are about "
        "the lock protocol as extracted from the source, not about the Go memory model",
        "defect fixed in /repo (was known finding %s): dependency-resolved types were cached engine-wide under the bare name, so a "
        "warm cache answered for packages whose lone run panics in GetType; the guard `masked` stays as the description of that "
        "shape, nothing is suppressed any more" % FINDING,
        "second defect fixed in /repo (d9e46be): FindType looked into the engine-wide cache before the dependencies of the package "
        "being checked, so a cached importer answer was served to a package whose dependencies resolve the path differently; found by "
        "the in-memory package c08/mtsh (its own container/ring) once the natives rule set asked for container/ring.Ring everywhere",
    ]

    # a private translator binary (main.go + leaf.go + c15.go + locks.go): other families' generators cannot break it
    c.go2coq_sources = ["locks.go", "locks_loadtime.go", "locks_natives.go"]
    c.build_theories()
    c.require_theories("Locks/*.v")

    # ------------------------------------------------------------------ P: regenerate + re-prove (in the background)
    def prove():
        if not c.go2coq("locks", "Gen_Locks.v"):
            return False
        if not c.coq_compile(["Gen_Locks.v"]):
            return False
        c.install_tmpl("C08/Inst_Locks.v", "C08/C08.v")
        return c.coq_compile(["Inst_Locks.v", "C08.v"])

    race_dir = os.path.join(c.work, "race")
    os.makedirs(race_dir, exist_ok=True)
    tmp = os.path.join(c.work, "tmp")
    os.makedirs(tmp, exist_ok=True)

    def crashed(out, mode, seed, rc=None):
        """the Go runtime itself detected unsynchronised map access (or a deadlock) and killed the process, or the
        harness' watchdog found calls that never return"""
        m = re.search(r"fatal error: (concurrent map [a-z ]+|all goroutines are asleep - deadlock!|sync: [^\n]+)", out)
        w = re.search(r"c08 watchdog: [^\n]+", out)
        if w or (not m and rc == 124):
            i = out.find("c08 watchdog:") if w else max(0, len(out) - 2500)
            c.fail("oracle", "concurrent Run / FindType calls on one engine do not return (deadlock)",
                   input={"harness": "harness/cmd/c08 (-race)", "mode": mode, "seed": seed},
                   expected="all calls return", observed=out[i:i + 4000])
            return True
        if not m:
            return False
        i = out.find("fatal error:")
        c.fail("oracle", "the Go runtime aborted concurrent Run / FindType calls on one engine: " + m.group(1),
               input={"harness": "harness/cmd/c08 (-race)", "mode": mode, "seed": seed},
               expected="all calls return", observed=out[i:i + 2500])
        return True

    def explore(hb, seed, budget, tag, fresh=False, ns="2,4,16"):
        args = ["-mode", "explore", "-seed", str(seed), "-budget", str(budget), "-tmp", os.path.join(tmp, tag), "-ns", ns]
        if fresh:
            args.append("-fresh")
        rc, out = c.run_harness(hb, args, timeout=int(budget) * 3 + 240,
                                env={"GORACE": "halt_on_error=0 log_path=%s" % os.path.join(race_dir, tag)})
        lines = jlines(out)
        if rc not in (0, 66) or not any(l.get("k") == "done" for l in lines):  # 66: the race detector reported (judged below)
            crashed(out, "explore", seed, rc) or c.obligation("harness-run:c08-explore-" + tag, False, out[-3000:])
        return lines

    def lone(hb, order, tag):
        """lone Runs in a process of their own (what survives an engine -- package-level state -- starts empty)"""
        rc, out = c.run_harness(hb, ["-mode", "lone", "-order", order, "-tmp", os.path.join(tmp, tag)], timeout=300,
                                env={"GORACE": "halt_on_error=0 log_path=%s" % os.path.join(race_dir, tag)})
        lines = jlines(out)
        if rc not in (0, 66) or not any(l.get("k") == "done" for l in lines):
            crashed(out, "lone", c.seed, rc) or c.obligation("harness-run:c08-" + tag, False, out[-3000:])
        return lines

    def findtype(hb, seed, nscripts, nbursts, tag):
        args = ["-mode", "findtype", "-seed", str(seed), "-scripts", str(nscripts), "-bursts", str(nbursts),
                "-tmp", os.path.join(tmp, tag)]
        rc, out = c.run_harness(hb, args, timeout=(nscripts + nbursts) * 12 + 240,
                                env={"GORACE": "halt_on_error=0 log_path=%s" % os.path.join(race_dir, tag)})
        lines = jlines(out)
        if rc not in (0, 66) or not any(l.get("k") == "done" for l in lines):  # 66: the race detector reported (judged below)
            crashed(out, "findtype", seed, rc) or c.obligation("harness-run:c08-findtype-" + tag, False, out[-3000:])
        return lines

    with ThreadPoolExecutor(max_workers=6) as ex:
        fut_p = ex.submit(prove)
        hb = c.build_harness("c08", race=True)
        if hb is None:
            fut_p.result()
            return c.finish()
        # the two harness processes are started from two threads: write the -modfile pair once (vlib rewrites it on
        # every call through a temporary file named after the pid, which two threads of one process would share)
        modfile = c.harness_modfile()
        c.harness_modfile = lambda: modfile
        # the budget bounds the EXTRA rounds; one round per (rule set, N) is always run (that alone takes ~25-35 s with -race)
        fut_e = ex.submit(explore, hb, c.seed, 8 if not thorough else 420, "explore", thorough)
        fut_f = ex.submit(findtype, hb, c.seed, 8 if not thorough else 60, 3 if not thorough else 30, "findtype")
        fut_l1 = ex.submit(lone, hb, "fwd", "lonefwd")
        fut_l2 = ex.submit(lone, hb, "rev", "lonerev")
        proved = fut_p.result()
        ex_lines = fut_e.result()
        ft_lines = fut_f.result()
        lone_fwd, lone_rev = fut_l1.result(), fut_l2.result()

    # ------------------------------------------------------------------ O: exploration vs the sequential baseline
    def judge_explore(lines, tag):
        for l in lines:
            k = l.get("k")
            if k == "error":
                c.obligation("harness:c08-" + tag, False, json.dumps(l)[:1500])
            elif k == "natives":
                natives_lines.append(l)
                c.coverage["natives_bound"] = len(l["bound"])
                c.coverage["natives_called_by_generated_rules"] = len(l["covered"])
                c.coverage["natives_helper_functions"] = l["helpers"]
                bad = {n: r for n, r in (l.get("uncovered") or {}).items() if n not in UNREACHABLE_NATIVES}
                if bad:
                    c.obligation("harness:c08-natives-covered", False,
                                 "natives bound in the engine that no generated custom filter / Do function calls "
                                 "(concurrent runs never evaluate them): " + json.dumps(bad)[:1500])
                missing = sorted(set(l["bound"]) - set(l["covered"]) - set(l.get("uncovered") or {}))
                if missing:
                    c.obligation("harness:c08-natives-accounted", False, "natives neither called nor reported: %s" % missing[:10])
            elif k == "rules-fired":
                # rules of the set that deliver reports in the sequential baseline (a rule set that exercises nothing shows here)
                l["rules"] = l.get("rules") or []
                c.coverage["rules_reporting:" + l["ruleset"]] = len(l["rules"])
                if l["ruleset"].startswith("natives"):
                    fired_natives[l["ruleset"]] = len(l["rules"])
                if not l["rules"]:
                    c.obligation("harness:c08-rules-fire-" + l["ruleset"], False, "no rule of the set delivers a report in the sequential baseline")
                if l["ruleset"].startswith("loadtime") and len(l["rules"]) < 20:
                    c.obligation("harness:c08-loadtime-rules-" + l["ruleset"], False,
                                 "only %d rules of the Load-time-object rule set deliver reports" % len(l["rules"]))
            elif k in ("baseline", "baseline-fresh"):
                c.count()
                if not l["agree"]:
                    exp, obs = l.get("expected") or {}, l.get("other") or {}
                    er, orr = exp.get("reports") or [], obs.get("reports") or []
                    diff = next((i for i, (a, b) in enumerate(zip(er, orr)) if a != b), min(len(er), len(orr)))
                    c.fail("oracle", "a sequential repetition of a Run (%s) on an engine that has checked other files does not "
                           "deliver the reports of the lone call on a fresh engine" % k,
                           input={"ruleset": l["ruleset"], "file": l["file"], "seed": c.seed, "order": l.get("order", "reverse, reused state")},
                           expected={"reports": len(er), "panic": exp.get("panic"), "first_difference_at": diff, "there": er[diff:diff + 2]},
                           observed={"reports": len(orr), "panic": obs.get("panic"), "there": orr[diff:diff + 2]})
            elif k == "mismatch":
                er, orr = l["expected"].get("reports") or [], l["observed"].get("reports") or []
                diff = next((i for i, (a, b) in enumerate(zip(er, orr)) if a != b), min(len(er), len(orr)))
                c.fail("oracle", "a concurrent Run delivered other reports than the sequential baseline for that file",
                       input={"ruleset": l["ruleset"], "file": l["file"], "goroutines": l["n"], "phase": l["phase"],
                              "state": l["state"], "goroutine": l["goroutine"], "seed": l["seed"], "check_seed": c.seed},
                       expected={"reports": len(er), "panic": l["expected"].get("panic"),
                                 "first": (er or [None])[:2], "first_difference_at": diff, "there": er[diff:diff + 2]},
                       observed={"reports": len(orr), "panic": l["observed"].get("panic"),
                                 "first": (orr or [None])[:2], "there": orr[diff:diff + 2]})
            elif k == "ast":
                # the caller's syntax tree against its fingerprint (decls.go): seen by the observer while runs were in
                # progress, or after all rounds
                c.count()
                c.coverage["tree_fingerprints_compared"] = c.coverage.get("tree_fingerprints_compared", 0) + 1
                if not l["agree"]:
                    c.fail("oracle", "Run modified the syntax tree it was handed (the caller's *ast.File, which concurrent Run calls "
                           "on the same file and every other reader of the tree share)",
                           input={"file": l["file"], "when": l["when"], "declaration": l.get("decl"), "position": l.get("pos"),
                                  "seed": c.seed, "harness": "harness/cmd/c08 -mode explore (rule set decls, same-file rounds)"},
                           expected="the tree is what the parser delivered, at every moment",
                           observed=l.get("what"))
            elif k == "ast-observer":
                c.count(l.get("looks") or 0)
                c.coverage["tree_observer_looks"] = c.coverage.get("tree_observer_looks", 0) + (l.get("looks") or 0)
                c.coverage["same_file_rounds"] = c.coverage.get("same_file_rounds", 0) + 1
            elif k == "round":
                c.count(l["runs"])
                c.coverage["concurrent_runs"] = c.coverage.get("concurrent_runs", 0) + l["runs"]
                c.coverage["reports_compared"] = c.coverage.get("reports_compared", 0) + l["reports"]
                c.coverage["rounds"] = c.coverage.get("rounds", 0) + 1
                if l["phase"] == "cold":
                    c.coverage["cold_rounds"] = c.coverage.get("cold_rounds", 0) + 1
                if l["reports"] > 0:
                    c.nontriv(("round", l["ruleset"], l["n"], l["phase"], l["states"], l["typecache_after"] > l["typecache_before"],
                               l["pkgcache_after"] > l["pkgcache_before"]))
                if c.coverage.get("rounds", 0) <= 2:
                    c.sample({"round": {k2: l[k2] for k2 in ("ruleset", "n", "phase", "runs", "reports", "typecache_before",
                                                              "typecache_after", "pkgcache_before", "pkgcache_after", "states")}})

    natives_lines = []
    fired_natives = {}
    judge_explore(ex_lines, "explore")
    if natives_lines:
        nl = natives_lines[0]
        # every nd(i, x) rule delivers a report for every call, and of the two nf(i, x) rules one does
        want = nl["do_rules"] + nl["filter_rules"]
        have = sum(fired_natives.values())
        if have < want:
            c.obligation("harness:c08-natives-rules-fire", False,
                         "%d rules of the natives rule sets deliver reports in the baseline, expected at least %d" % (have, want))
    else:
        c.obligation("harness:c08-natives-line", False, "the harness did not report the natives it exercises")
    # generator: whole declarations in messages on in-memory files, the same file from all goroutines of a round, an observer
    # on the trees (decls.go) -- measured, not assumed
    nd, sf, looks = (c.coverage.get("rules_reporting:decls", 0), c.coverage.get("same_file_rounds", 0),
                     c.coverage.get("tree_observer_looks", 0))
    c.obligation("generator:same-file-declarations", nd >= 12 and sf >= 3 and looks >= 100,
                 "%d rules of the set `decls` deliver reports (want >= 12), %d same-file rounds (want >= 3), the observer "
                 "compared %d trees with their fingerprints while runs were in progress (want >= 100)" % (nd, sf, looks))

    # ------------------------------------------------------------------ O: lone Runs in processes of their own
    def judge_lone():
        def table(lines, kind):
            return {(l["ruleset"], l["file"]): l["res"] for l in lines if l.get("k") == kind}
        for l in lone_fwd + lone_rev:
            if l.get("k") == "error":
                c.obligation("harness:c08-lone", False, json.dumps(l)[:1500])
        fwd, rev, base = table(lone_fwd, "lone"), table(lone_rev, "lone"), table(ex_lines, "base")
        c.coverage["lone_runs_in_other_processes"] = len(fwd) + len(rev)

        def differ(a, b, what, inp):
            ar, br = a.get("reports") or [], b.get("reports") or []
            diff = next((i for i, (x, y) in enumerate(zip(ar, br)) if x != y), min(len(ar), len(br)))
            c.fail("oracle", what, input=inp,
                   expected={"reports": len(ar), "panic": a.get("panic"), "first_difference_at": diff, "there": ar[diff:diff + 2]},
                   observed={"reports": len(br), "panic": b.get("panic"), "there": br[diff:diff + 2]})
        shown = 0
        for key in sorted(fwd):
            c.count()
            if key in rev and fwd[key] != rev[key] and shown < 6:
                shown += 1
                differ(fwd[key], rev[key], "a lone Run on a fresh engine delivers other reports when the PROCESS has checked other files before "
                       "(two processes run the same lone calls in opposite orders)",
                       {"ruleset": key[0], "file": key[1], "processes": ["-mode lone -order fwd", "-mode lone -order rev"]})
            if key in base and fwd[key] != base[key] and shown < 6:
                shown += 1
                differ(fwd[key], base[key], "the baseline of the exploring process (after a concurrent first-touch round) differs from the lone Run "
                       "in a process of its own", {"ruleset": key[0], "file": key[1], "seed": c.seed})
        if fwd and not (set(fwd) == set(rev) and set(fwd) <= set(base)):
            c.obligation("harness:c08-lone-tables", False, "the processes ran different (rule set, file) pairs: %d / %d / %d" % (len(fwd), len(rev), len(base)))
    judge_lone()

    # the table of natives regenerated from the source (gen_natives) is the table the engine really has
    if proved is not False and natives_lines:
        try:
            gen = open(os.path.join(c.gen, "Gen_Locks.v")).read()
            m = re.search(r"Definition gen_natives :[^\n]*:= \[(.*?)\n\]\.", gen, re.S)
            static = set()
            for q, n in re.findall(r'\("((?:[^"]|"")*)"%string, "((?:[^"]|"")*)"%string, "', m.group(1) if m else ""):
                static.add(q + "." + n)
            bound = set(natives_lines[0]["bound"])
            if static != bound:
                c.obligation("natives-table-matches", False,
                             "gen_natives (go2coq, from initEnv / ImportAll) and the natives bound in a loaded engine differ: "
                             "only static %s, only bound %s" % (sorted(static - bound)[:8], sorted(bound - static)[:8]))
            else:
                c.obligation("natives-table-matches", True, "%d natives" % len(bound))
        except OSError as ex:
            c.obligation("natives-table-matches", False, repr(ex))

    # ------------------------------------------------------------------ K + O: the cache protocol
    def judge_findtype(lines, tag):
        orc = next((l for l in lines if l.get("k") == "oracle"), None)
        if orc is None:
            c.obligation("harness:c08-findtype-oracle-" + tag, False, "no oracle table")
            return
        ft = FT(orc)
        cases = []   # (name, kind, ops, observed, c0, c1, raw)
        for l in lines:
            if l.get("k") == "seq":
                ops = [(o["pkg"], o["fqn"]) for o in l["script"]]
                obs = [r.get("type") if r["ok"] else None for r in l["results"]]
                same = [r.get("same_as_host") for r in l["results"]]
                cases.append(("seq%d" % l["id"], "seq", ops, obs, l["cache0"], l["cache1"], same))
            elif l.get("k") == "burst":
                ops, obs, same = [], [], []
                for sc, rs in zip(l["scripts"], l["results"]):
                    for o, r in zip(sc, rs):
                        ops.append((o["pkg"], o["fqn"]))
                        obs.append(r.get("type") if r["ok"] else None)
                        same.append(r.get("same_as_host"))
                cases.append(("burst%d_n%d" % (l["id"], l["n"]), "burst", ops, obs, l["cache0"], l["cache1"], same))
            elif l.get("k") == "probe":
                c.count()
                lone, after = l["lone"], l["after_warm"]
                if lone != after:
                    guard = ("find import" in (lone.get("panic") or "") and not after.get("panic")
                             and not ft.importable.get(ft.path(l["fqn"]), True))
                    c.fail("oracle", "a Run on a warm engine delivers reports where the lone Run on a fresh engine panics in GetType",
                           input={"ruleset": l["ruleset"], "file": l["file"], "warmed_by": l["warmed_by"], "fqn": l["fqn"]},
                           expected={"reports": len(lone.get("reports") or []), "panic": lone.get("panic")},
                           observed={"reports": len(after.get("reports") or []), "panic": after.get("panic")},
                           finding=FINDING if guard else None)
            elif l.get("k") == "error":
                c.obligation("harness:c08-" + tag, False, json.dumps(l)[:1500])
        if not cases:
            return
        # number everything first
        for _, _, ops, obs, c0, c1, _ in cases:
            for p, f in ops:
                ft.k(f)
            for t in obs:
                if t is not None:
                    ft.v(t)
            for cc in (c0, c1):
                for k, t in zip(cc["keys"], cc["types"]):
                    ft.k(k)
                    ft.v(t)
        for f, t in ft.host.items():
            ft.k(f)
            if t is not None:
                ft.v(t)
        dtab, itab = [], []
        for f in list(ft.kidx):
            t = ft.imp(f)
            if t is not None:
                itab.append("(%d, %d)" % (ft.k(f), ft.v(t)))
            for p in ft.contexts():
                d = ft.dep(p, f)
                if d[0] == "dep":
                    dtab.append("(%d, %d, %s)" % (p + 1, ft.k(f), opt(None if d[1] is None else ft.v(d[1]))))
        src = [COQ_PRE,
               "Definition itab : list (N * N) := [%s]." % "; ".join(itab),
               "Definition dtab : list (N * N * option N) := [%s]." % "; ".join(dtab),
               "Definition imp (k : N) : option N := lookup N.eqb k itab.",
               "Definition dep (p k : N) : option (option N) := option_map (fun e : N * N * option N => snd e) "
               "(find (fun e : N * N * option N => (fst (fst e) =? p) && (snd (fst e) =? k)) dtab).",
               "Definition valid_entry (c0 : list (N * N)) (e : N * N) : bool := oeqb (lookup N.eqb (fst e) c0) (Some (snd e)) || "
               "oeqb (imp (fst e)) (Some (snd e))."]
        res_items = []
        for name, kind, ops, obs, c0, c1, _ in cases:
            cc0 = "; ".join("(%d, %d)" % (ft.k(k), ft.v(t)) for k, t in zip(c0["keys"], c0["types"]))
            cc1 = "; ".join("(%d, %d)" % (ft.k(k), ft.v(t)) for k, t in zip(c1["keys"], c1["types"]))
            src.append("Definition %s_c0 : list (N * N) := [%s]." % (name, cc0))
            src.append("Definition %s_c1 : list (N * N) := [%s]." % (name, cc1))
            src.append("Definition %s_ops : list (N * N) := [%s]." % (name, "; ".join("(%d, %d)" % (p + 1, ft.k(f)) for p, f in ops)))
            src.append("Definition %s_obs : list (option N) := [%s]." % (name, "; ".join(opt(None if t is None else ft.v(t)) for t in obs)))
            if kind == "seq":
                # model run vs observed results; model cache vs observed cache (both inclusions); lone answers vs observed
                src.append("Definition %s_res := let m := run_dep N.eqb imp dep %s_c0 %s_ops in "
                           "(mism 0 (fst m) %s_obs, cache_sub (snd m) %s_c1 && cache_sub %s_c1 (snd m), "
                           "mism 0 (map (lone N.eqb imp dep %s_c0) %s_ops) %s_obs)." % ((name,) * 9))
            else:
                # any interleaving: initial entries kept, only valid entries added, every success is in the cache;
                # lone answers vs observed
                src.append("Definition %s_res := "
                           "(@nil N, cache_sub %s_c0 %s_c1 && forallb (valid_entry %s_c0) %s_c1 && "
                           "forallb (fun x : (N * N) * option N => match snd x, dep (fst (fst x)) (snd (fst x)) with "
                           "Some v, None => oeqb (lookup N.eqb (snd (fst x)) %s_c1) (Some v) | _, _ => true end) (combine %s_ops %s_obs), "
                           "mism 0 (map (lone N.eqb imp dep %s_c0) %s_ops) %s_obs)." % ((name,) * 11))
            res_items.append(name)
        src.append("Definition RES := Eval vm_compute in [%s]." % "; ".join("%s_res" % n for n in res_items))
        src.append("Print RES.")
        ok, out = c.coq_eval("Cases_%s.v" % tag, "\n".join(src), timeout=600)
        if not ok:
            c.obligation("coq-eval:Cases_%s.v" % tag, False, out[-2500:])
            return
        m = re.search(r"RES\s*=\s*(.*?)\s*:\s*list", out, re.S)
        body = re.sub(r"\s+", " ", m.group(1)) if m else ""
        tuples = re.findall(r"\(\s*\[([^\]]*)\], (true|false), \[([^\]]*)\]\)", body)
        if len(tuples) != len(cases):
            c.obligation("coq-eval-parse:Cases_%s.v" % tag, False, out[-2000:])
            return

        def ints(s):
            return [int(x) for x in s.replace("%N", "").split(";") if x.strip()]
        for (name, kind, ops, obs, c0, c1, same), (m1, flag, m2) in zip(cases, tuples):
            model_bad, lone_bad = ints(m1), ints(m2)
            c.count(len(ops))
            c.coverage["findtype_calls"] = c.coverage.get("findtype_calls", 0) + len(ops)
            inp = {"case": name, "kind": kind, "seed": c.seed}
            oracle_hit = False
            for i in lone_bad[:8]:
                p, f = ops[i]
                masked = ft.masked(p, f, obs[i])
                oracle_hit = oracle_hit or not masked
                c.fail("oracle", "FindType answered differently from a lone call on a fresh engine",
                       input=dict(inp, op=i, pkg=(ft.targets[p] if p >= 0 else None), fqn=f,
                                  script=[(ft.targets[q] if q >= 0 else None, g) for q, g in ops[:i + 1]] if kind == "seq" else None),
                       expected=(ft.oracle2(p, f) if f not in c0["keys"] or ft.dep(p, f)[0] == "dep"
                                 else dict(zip(c0["keys"], c0["types"]))[f]),
                       observed=obs[i], finding=FINDING if masked else None)
            if not oracle_hit:
                for i in model_bad[:4]:
                    p, f = ops[i]
                    c.fail("corr", "the Coq cache model (run_dep) disagrees with engineState.FindType", input=dict(inp, op=i, pkg=p, fqn=f),
                           expected="model", observed=obs[i])
                if flag != "true":
                    c.fail("corr", "cache contents differ from the Coq model's" if kind == "seq" else
                           "cache after a concurrent burst violates the invariant (initial entries kept, only correct entries, every success stored)",
                           input=inp, expected=None, observed=dict(zip(c1["keys"], c1["types"])))
            # the answers denote the named type (independent of which package object they come from)
            for i, (t, s) in enumerate(zip(obs, same)):
                p, f = ops[i]
                if t is not None and not s and (ft.host.get(f) is not None or ft.oracle2(p, f) is not None):
                    c.fail("oracle", "FindType returned a type that is not the one the name denotes", input=dict(inp, op=i, pkg=p, fqn=f),
                           expected=ft.host.get(f) or ft.oracle2(p, f), observed=t)
                hit = f in c0["keys"] or f in [g for _, g in ops[:i]]
                c.nontriv(("ft", kind, "nil" if p < 0 else ("dep" if ft.path(f) in ft.deps[ft.targets[p]] else "nodep"), f,
                           t is not None, hit))
            if len(c.samples) < 5:
                c.sample({"findtype_case": name, "calls": len(ops), "first_ops": [(ft.targets[p] if p >= 0 else None, f, o) for (p, f), o in list(zip(ops, obs))[:4]],
                          "cache_grew_by": len(c1["keys"]) - len(c0["keys"])})

    judge_findtype(ft_lines, "findtype")

    # ------------------------------------------------------------------ O: the race detector
    def judge_races():
        reps = race_reports(os.path.join(race_dir, "explore")) + race_reports(os.path.join(race_dir, "findtype")) + \
            race_reports(os.path.join(race_dir, "search")) + race_reports(os.path.join(race_dir, "searchft")) + \
            race_reports(os.path.join(race_dir, "lonefwd")) + race_reports(os.path.join(race_dir, "lonerev"))
        seen = set()
        for r in reps:
            # one failure per distinct pair of top frames
            frames = re.findall(r"^\s+(\S+\(\))\n\s+(\S+:\d+)", r["text"], re.M)
            key = tuple(f[1] for f in frames[:2])
            if key in seen:
                continue
            seen.add(key)
            if len(seen) > 5:
                continue
            keep = os.path.join(c.verif, "replays", "C08-race-%s-%d-%d.log" % (c.tier, c.seed, len(seen)))
            try:
                with open(keep, "w") as f:
                    f.write(r["text"][:200000] + "\n")
            except OSError:
                keep = r["log"]
            c.fail("oracle", "the race detector reports a data race during concurrent Run / FindType calls on one engine",
                   input={"harness": "harness/cmd/c08 (-race)", "seed": c.seed, "race_log": keep,
                          "rerun": "GORACE='halt_on_error=0' bin-c08-race -mode explore -seed %d" % c.seed},
                   expected="no report", observed=r["text"][:3000])
        c.coverage["race_reports"] = len(reps)
    judge_races()

    def search():
        # a proof obligation over the regenerated protocol broke: look harder for a schedule that shows it
        lines = explore(hb, c.seed + 101, 60 if not thorough else 300, "search", fresh=True)
        judge_explore(lines, "search")
        judge_findtype(findtype(hb, c.seed + 101, 16, 12, "searchft"), "searchft")
        judge_races()

    if thorough:
        # from-scratch build of the theories in a private copy + the independent checker on the closure of the props file
        c.clean_theories_build()
        if proved:
            c.coqchk(["RGW.C08"])

    c.coverage["exhaustive"] = False
    c.coverage["proved"] = bool(proved)
    c.finish(search=search)
