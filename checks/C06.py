"""C06 -- Load never crashes or hangs; bad rules are rejected with a located error; accepted rules are well bound.

P: the placement table of loadSyntaxRule, the tag numbering and the set of root tags gogrep's operation table can produce, the
   kind / object / node-type name tables and the variable checks are regenerated from /repo (go2coq placetable, validtables);
   place_total, accepted_rule_bound and the list of error sites without a location are re-proved against them.
K: valid DSL generated from abstract rule descriptions (pattern alternatives with the variables gogrep / regexp say they bind,
   Where atoms over a variable pool with kind / object / node-type / version arguments, At(), Report/Suggest templates);
   the Coq validation model (vm_compute) predicts accept / reject for each and is compared with Engine.Load.
   A file is a list of groups of rules: validate_file (the loader with NO state between rules) = every rule validates alone;
   loadRule / the rules loop of loadRuleGroup / the loader's fields and every assignment rooted at the loader are regenerated.
O: the property itself on eight streams (group: files with several rules per group and several groups -- for every op that takes a
   variable, a later rule / one alternative of a later rule / the rule of the next group repeats the clauses of an earlier rule over a
   pattern that does not bind the variable; At(), helpers, comment rules, templates; generated files; every rule is also loaded
   ALONE (a file is accepted iff each of its rules is), the groups also as Loads of their own on one engine; an error names a
   line of a rule that is rejected alone; fn: catalogues of the statement and expression forms of the Go grammar inside custom
   filter functions, Do handlers, uncalled functions and methods, rule-group bodies, Where() arguments and local helper
   templates, and of the names a helper template can declare; chain: every combination of the chain methods of a rule, their
   argument spellings, look-alike user types for the chain methods and for the selector path of EVERY op of the regenerated
   filter-op table; arbitrary bytes and mutated fixture / generated files; a catalogue of type-correct Go that
   is not DSL; the generated DSL; histories of Loads on one engine; generated file structures: equal-named / blank / method rule groups, local helpers of every
   signature and body shape, custom filter functions with native calls of many arguments): no panic, no fatal runtime error
   (stack overflow: every Load runs in a child process with a capped stack, the death of the child is attributed to the
   announced input), no hang (5 s), every error names rules.go:<line> with 1 <= line <= number of lines, that line is a line of the
   construct under test (fn / chain: the declaration the catalogue entry stands in) and moves with the source (the same file with 3
   blank lines inserted after line 1 must give the same error 3 lines further down), no report with a nil node from an accepted rule.
   The located error constructions of the load path are regenerated (go2coq errsites); the check reports which of them no input reached.
"""
import json
import os
import re


def coq_str(s):
    if all(32 <= ord(ch) <= 126 for ch in s):
        return '"' + s.replace('"', '""') + '"'
    return "(string_of_list_ascii [%s])" % "; ".join("ascii_of_nat %d" % b for b in s.encode("utf8", "surrogateescape"))


def run(c):
    thorough = c.tier == "thorough"
    c.go2coq_sources = ["load.go", "load_ops.go", "load_errs.go"]
    c.rule = ("stream fn: every entry of the statement / expression / declared-name catalogues once, in a host that rotates with the seed "
              "(custom filter, Do handler, uncalled function, method, rule-group body, Where() argument, local helper template), the limits of "
              "the bytecode compiler, plus random combinations; stream chain: all sequences of one and two chain methods, all subsets of three and "
              "more (order drawn from the seed), repeated methods, argument spellings, chains on other values of the matcher's type, look-alike "
              "user types with 0 / 2 arguments rooted at a variable / call / element / conversion, and for every op of the regenerated op table its "
              "selector path on a user type with 0 / 2 / a non-constant argument; distinct by catalogue entry; "
              "stream bytes: random bytes / mutated fixture rules files / mutated generated files; stream notdsl: a fixed catalogue of "
              "type-correct non-DSL files (incl. the shapes that used to crash Load), a name typematch cannot resolve in every syntactic position "
              "of a type string under every filter that takes one, and index expressions over arrays / slices / maps of dsl.Var that are not the "
              "matcher with constant indices of every kind in every position that takes a dsl.Var; stream dsl: first, for EVERY op of the regenerated "
              "filter-op table whose DSL form takes a variable, rules that apply it to a variable no alternative binds / only the first of two "
              "alternatives binds (plain, negated, in && and ||; as either operand of a comparison for the value-typed forms; as the argument "
              "of Type.IdenticalTo) and to a bound one; then generated rules (Where atoms: any op of the table, comparisons over all operand "
              "classes: constant, Line, Type.Size, Value.Int(), Text on either side); stream hist: 2-20 Loads on ONE engine, every failing "
              "file of a pool of 75 rules files (ways a name does not resolve, ordinary errors, valid uses) followed by files that resolve names through the same "
              "lookups, plus random histories; stream struct: generated "
              "file structures; a dsl case is non-trivial when the rule has >= 2 alternatives, or refers to a variable in "
              "Where/At/templates, or carries a name argument; distinct by its source text; other streams: distinct by "
              "(stream, outcome class, first 40 bytes of the error)")
    c.trusted += [
        "go2coq placetable/validtables/optable (switch tables, case-label lists, pinned statement lists, error-site scan, the op table of "
        "ir/filter_op.gen.go with the DSL form each op is documented with)",
        "gogrep / regexp verdicts and bound variables of each pattern alternative are inputs of the model (computed by the harness with the same libraries)",
        "harness/cmd/c06 (generators, 5 s timeout per Load, supervisor/child split with a 96 MB stack cap, 'located' = the message contains "
        "rules.go:<line> with a line of the file; the two halves of the streams run as two processes side by side)",
        "go2coq errsites / errsitescoq (syntactic scan of the calls of the locating helpers, of the IR literals irconv builds without a Line and of the "
        "uses of argument lines in newFilter's cases)",
    ]
    c.notes += ["panic-freedom of go/parser, go/types, gogrep, typematch, quasigo and of the bulk of irconv over arbitrary inputs is NOT proved; "
                "the input streams search for counterexamples only",
                "Do() functions refer to variables by run-time strings and are outside the validation model"]

    c.build_theories()
    c.require_theories("Load/Place.v", "Load/Validate.v")
    g1 = c.go2coq("placetable", "Gen_Place.v")
    g2 = c.go2coq("validtables", "Gen_Valid.v")
    # the same op table as JSON: the harness builds a Where atom for every op of it that takes a variable
    g3 = c.go2coq("optable", "optable.json")
    ops_path = os.path.join(c.gen, "optable.json")
    var_ops = []
    if g3:
        var_ops = [o["name"] for o in json.load(open(ops_path))["ops"] if "m[$Value]" in o["form"]]
    # every located error construction of the load path (the check reports which of them the run reached), and the facts about the
    # LINE of a loader error that Inst_Valid.v needs
    g4 = c.go2coq("errsites", "errsites.json")
    g5 = c.go2coq("errsitescoq", "Gen_Errs.v")
    err_sites = json.load(open(os.path.join(c.gen, "errsites.json")))["sites"] if g4 else []
    gen_ok = False
    inst_ok = False
    if g1 and g2 and g5:
        gen_ok = c.coq_compile(["Gen_Place.v", "Gen_Valid.v", "Gen_Errs.v"])
        if gen_ok:
            c.install_tmpl("C06/Inst_Valid.v", "C06/C06.v")
            inst_ok = c.coq_compile(["Inst_Valid.v", "C06.v"])

    hb = c.build_harness("c06")
    if hb is None:
        return c.finish()
    state = {"round": 0}

    # the streams run as two processes side by side (each stream draws from its own generator and numbers its cases from its own
    # base, so what is generated does not depend on the split): the fixed catalogues + histories, and the generated files
    HALVES = ["fn,chain,notdsl,hist,group", "bytes,dsl,struct"]

    def observe(seed, nbytes, ndsl, nstruct, nhist, nfn, ngroup):
        import threading
        state["round"] += 1
        c.log("harness ...")
        c.harness_modfile()
        results = [None] * len(HALVES)

        def run(k):
            results[k] = c.run_harness(hb, ["-seed", str(seed), "-bytes", str(nbytes), "-dsl", str(ndsl), "-struct", str(nstruct), "-hist", str(nhist),
                                            "-fn", str(nfn), "-group", str(ngroup), "-streams", HALVES[k], "-repo", c.repo,
                                            "-tmp", os.path.join(c.work, "tmp%d_%d" % (state["round"], k))] + (["-ops", ops_path] if g3 else []),
                                       timeout=2400)
        ths = [threading.Thread(target=run, args=(k,)) for k in range(len(HALVES))]
        for t in ths:
            t.start()
        for t in ths:
            t.join()
        cases = []
        for k, (rc, out) in enumerate(results):
            got = 0
            for line in out.splitlines():
                if line.startswith("{"):
                    try:
                        cases.append(json.loads(line))
                        got += 1
                    except ValueError:
                        pass
            if rc != 0 or not got:
                c.obligation("harness-run:c06:" + HALVES[k], False, out[-2000:])
        return cases

    def model_verdicts(cases, tag):
        """validate each dsl rule in Coq; returns {id: bool}"""
        dsl = [{"id": x["id"], "rule": x["rule"]} for x in cases if x["stream"] == "dsl" and x.get("rule") and x["obs"]["kind"] in ("ok", "error")]
        # stream group: every rule of the file is judged from its own description (id = 1000 * case + position); equal descriptions once
        memo, group_alias = {}, {}   # (local: the case numbers repeat from one round of the run to the next)
        for x in cases:
            if x["stream"] == "group" and x["obs"]["kind"] in ("ok", "error") and not x.get("no_model"):
                for j, r in enumerate(r for g in (x.get("groups") or []) for r in g["rules"]):
                    key = json.dumps(r, sort_keys=True)
                    if key in memo:
                        group_alias[x["id"] * 1000 + j] = memo[key]
                    else:
                        memo[key] = x["id"] * 1000 + j
                        dsl.append({"id": x["id"] * 1000 + j, "rule": r})
        if not gen_ok or not dsl:
            return {}
        pre = ["From Coq Require Import List String Ascii Bool ZArith NArith.",
               "From RG.Load Require Import Place Validate.",
               "From RGW Require Import Gen_Place Gen_Valid.",
               "Import ListNotations. Local Open Scope string_scope.",
               "Definition V r := (validate gen_num_buckets gen_place_cases gen_kind_names gen_object_names gen_tag_names gen_swap_guard gen_optab r,",
               "  (validate_spec gen_num_buckets gen_place_cases gen_kind_names gen_object_names gen_tag_names gen_swap_guard r, rule_wf gen_optab r))."]
        opnd = {"lit": "OLit", "line": "OLine", "size": "OSize", "valueint": "OValueInt", "text": "OText"}

        def rule_src(r):
            alts = "; ".join("mkAlt %s %d%%N [%s]" % ("true" if a["ok"] else "false", max(a["tag"], 0), "; ".join(coq_str(v) for v in a["vars"]))
                             for a in r["alts"])
            atoms = []
            for a in r["atoms"]:
                chk = {"kind": "ChkKind", "object": "ChkObject", "tag": "ChkTag", "version": "ChkVersion"}.get(a.get("chk") or "")
                if a.get("chk") == "binary":
                    c_ = "(ChkBinary %s %s %s)" % ("true" if a.get("eq") else "false", opnd[a["l"]], opnd[a["r"]])
                else:
                    c_ = "ChkNone" if chk is None else "(%s %s)" % (chk, coq_str(a.get("arg") or ""))
                atoms.append("mkAtom [%s] [%s] %s" % ("; ".join("(%s, %s)" % (coq_str(u[0]), coq_str(u[1])) for u in (a.get("uses") or [])),
                                                      "; ".join(coq_str(v) for v in (a.get("extra") or [])), c_))
            at = "(Some %s)" % coq_str(r["at"]) if r["at"] else "None"
            tmpls = [coq_str(r["report"])] + ([coq_str(r["suggest"])] if r["suggest"] else [])
            return "(mkVRule %s [%s] [%s] %s [%s])" % ("true" if r["comment"] else "false", alts, "; ".join(atoms), at, "; ".join(tmpls))
        NSH = 8
        jobs = []
        for k in range(NSH):
            sh = dsl[k::NSH]
            src = list(pre)
            src.append("Definition RES := Eval vm_compute in [%s]." % ";\n ".join("(%d%%N, V %s)" % (x["id"], rule_src(x["rule"])) for x in sh))
            src.append("Print RES.")
            jobs.append(("Cases_%s_%d.v" % (tag, k), "\n".join(src)))
        verdict = {}
        for (fname, _), (ok, out) in zip(jobs, c.coq_eval_many(jobs, timeout=900)):
            if not ok:
                c.obligation("coq-eval:" + fname, False, out[-2500:])
                return {}
            for m in re.finditer(r"\(\s*(\d+)%?N?,\s*\(?\s*(true|false),\s*\(?\s*(true|false),\s*(true|false)\s*\)?\s*\)?\s*\)", re.sub(r"\s+", " ", out)):
                # (the loader's model: recorded variables, the specification: mentioned variables, the description is well formed)
                verdict[int(m.group(1))] = tuple(m.group(k) == "true" for k in (2, 3, 4))
        if len(verdict) != len(dsl):
            c.obligation("coq-eval-parse:" + tag, False, "got %d verdicts for %d cases" % (len(verdict), len(dsl)))
        for k, v in group_alias.items():
            if v in verdict:
                verdict[k] = verdict[v]
        return verdict

    probed, control = set(), set()
    seen_errors = set()

    def unbound_of(r):
        refs = [v for a in r["atoms"] for v in (a.get("vars") or [])] + ([r["at"]] if r["at"] else [])
        return sorted({v for v in refs if v != "$$" and any(v not in alt["vars"] for alt in r["alts"])})

    def judge_group(x, inp, verdict):
        """a file with several rules per group / several groups: what Load checks for a rule does not depend on the rules before it"""
        o = x["obs"]
        rules = [(gi, k, r) for gi, g in enumerate(x.get("groups") or []) for k, r in enumerate(g["rules"])]
        alone = [a for g in (x.get("alone") or []) for a in g]
        c.nontriv(("group", x.get("src")))
        name = lambda gi, k: "rule %d of the %s group" % (k + 1, ["first", "second", "third", "fourth"][min(gi, 3)] if len(x.get("groups") or []) > 1 else "only listed")
        inp = dict(inp, what=x.get("what"), alone=["%s: %s" % (name(gi, k), a["kind"] + (" " + a.get("err", "") if a["kind"] != "ok" else ""))
                                                   for (gi, k, _), a in zip(rules, alone)])
        if o["kind"] not in ("ok", "error"):
            return
        ill = [(gi, k, unbound_of(r)) for gi, k, r in rules if unbound_of(r)]
        if o["kind"] == "ok" and ill:
            c.fail("oracle", "Load accepts a file in which a rule's Where / At clause refers to a variable that not every alternative of ITS pattern binds "
                   "(the rule stands behind other rules: " + (x.get("what") or "") + ")", input=inp,
                   observed="accepted; " + "; ".join("%s: unbound %s" % (name(gi, k), ", ".join(u)) for gi, k, u in ill) + (" ; Run: " + x["run"] if x.get("run") else ""),
                   expected="a located error (filter / location refers to a non-existing var)")
        rejected_alone = [name(gi, k) for (gi, k, _), a in zip(rules, alone) if a["kind"] != "ok"]
        if o["kind"] == "ok" and rejected_alone and not ill:
            c.fail("oracle", "Load accepts, behind other rules, a rule that it rejects when the rule stands alone in the file", input=inp,
                   observed="accepted; rejected alone: " + ", ".join(rejected_alone), expected="a located error")
        if o["kind"] == "error" and not rejected_alone:
            c.fail("corr", "Load rejects a file every rule of which it accepts alone", input=inp, observed=o.get("err"))
        if rejected_alone:
            c.coverage["group_files_with_a_bad_later_rule"] = c.coverage.get("group_files_with_a_bad_later_rule", 0) + (
                1 if alone[0]["kind"] == "ok" else 0)
        vs = [verdict.get(x["id"] * 1000 + j) for j in range(len(rules))]
        if all(v is not None for v in vs):
            c.coverage["model_vs_impl_group_files"] = c.coverage.get("model_vs_impl_group_files", 0) + 1
            if not all(v[2] for v in vs):
                c.fail("corr", "a rule description of the file names an op that is not an op of the regenerated table that takes a variable", input=inp)
            elif o["kind"] == "ok" and not all(v[1] for v in vs):
                if not ill and not rejected_alone:
                    c.fail("oracle", "Load accepts a file with a rule that the validation specification rejects", input=inp,
                           observed="accepted; " + ", ".join(name(gi, k) for (gi, k, _), v in zip(rules, vs) if not v[1]), expected="a located error")
            elif (o["kind"] == "ok") != all(v[0] for v in vs):
                c.fail("corr", "Load %s a file that the model of the loader (validate_file: every rule validates, each from its own description) %s" % (
                    ("accepts", "rejects") if o["kind"] == "ok" else ("rejects", "accepts")), input=inp,
                    observed=(o.get("err") or "accepted") + " ; model per rule: " + ", ".join("%s: %s" % (name(gi, k), v[0]) for (gi, k, _), v in zip(rules, vs)))

    def judge(cases, tag, with_model=True):
        verdict = model_verdicts(cases, tag) if with_model else {}
        nsample = 0
        for x in cases:
            c.count()
            o = x["obs"]
            inp = {"stream": x["stream"], "id": x["id"], "rules.go": x.get("src")}
            if x["stream"] == "hist":
                steps = x.get("steps") or []
                inp["loads"] = [{"what": st["what"], "obs": st["obs"]} for st in steps]
                kinds = [st["obs"]["kind"] for st in steps]
                if "error" in kinds and "ok" in kinds[kinds.index("error"):]:
                    c.coverage["hist_error_then_ok"] = c.coverage.get("hist_error_then_ok", 0) + 1
                c.coverage["hist_loads"] = c.coverage.get("hist_loads", 0) + len(steps)
                c.nontriv(("hist", tuple(st["what"] for st in steps)))
            if o["kind"] == "panic":
                c.fail("oracle", "Load panics", input=inp, observed=o.get("err"), expected="nil or a located error")
            elif o["kind"] == "crash":
                c.fail("oracle", "Load kills the process (fatal runtime error that recover() cannot catch; stack capped at 96 MB)", input=inp,
                       observed=o.get("err"), expected="nil or a located error")
            elif o["kind"] == "timeout":
                c.fail("oracle", "Load does not return within 5 s, nor within 30 s when tried again" + (
                    " (Load #%d of a history on one engine; the earlier Loads returned)" % (1 + [st["obs"]["kind"] for st in x["steps"]].index("timeout"))
                    if x["stream"] == "hist" and x.get("steps") and "timeout" in [st["obs"]["kind"] for st in x["steps"]] else ""),
                       input=inp, observed="timeout", expected="nil or a located error")
            elif o["kind"] == "error" and not o["located"]:
                c.fail("oracle", "Load error does not name the file and line", input=inp, observed=o.get("err"),
                       expected="an error mentioning rules.go:<line>")
            if x.get("want") == "error" and o["kind"] == "ok":
                c.fail("oracle", "Load accepts a rule that takes a dsl.Var from an array / slice / map that is not the matcher, under a constant index that is "
                       "not a string (it names no pattern variable)", input=inp, observed="accepted", expected="a located error")
            if x.get("shift"):
                c.fail("oracle", "the line a Load error names is not a line of the rules file: it does not move when blank lines are inserted above it",
                       input=inp, observed=x["shift"], expected="the same error, 3 lines further down")
            if x.get("span") and x["stream"] == "group":
                c.fail("oracle", "the line a Load error names is not a line of a rule that is wrong (every rule was also loaded alone): " + (x.get("what") or ""),
                       input=inp, observed="%s ; %s" % (x["span"], o.get("err")), expected="an error that names a line of a rule that is rejected alone")
            elif x.get("span"):
                c.fail("oracle", "the line a Load error names is not a line of the construct that is wrong: " + (x.get("what") or ""),
                       input=inp, observed="%s ; %s" % (x["span"], o.get("err")), expected="an error that names a line of the declaration the construct stands in")
            if o["kind"] == "error":
                seen_errors.add(o.get("err") or "")
            for st in (x.get("steps") or []):
                if st["obs"]["kind"] == "error":
                    seen_errors.add(st["obs"].get("err") or "")
            if x.get("nil_reports"):
                c.fail("oracle", "an accepted rule produces a report with a nil node", input=inp, observed=x["nil_reports"], expected=0)
            if x["stream"] == "dsl" and x.get("rule"):
                r = x["rule"]
                if len(r["alts"]) > 1 or r["atoms"] or r["at"] or "$" in r["report"] + r["suggest"]:
                    c.nontriv(x.get("src") or json.dumps(r, sort_keys=True))
                # the property's own oracle, from what the generator wrote into the source: an accepted rule does not refer, in
                # Where or At, to a variable that one of its alternatives does not bind
                refs = [v for a in r["atoms"] for v in (a.get("vars") or [])] + ([r["at"]] if r["at"] else [])
                unbound = sorted({v for v in refs if v != "$$" and any(v not in alt["vars"] for alt in r["alts"])})
                if o["kind"] == "ok" and unbound:
                    c.fail("oracle", "Load accepts a rule whose Where / At clause refers to a variable that not every pattern alternative binds",
                           input=inp, observed="accepted; unbound: %s%s" % (", ".join(unbound), " ; Run: " + x["run"] if x.get("run") else ""),
                           expected="a located error (filter / location refers to a non-existing var)")
                if x.get("ir_diff"):
                    c.fail("corr", "the variable uses the rule description lists are not those of the converted IR (the model's input does not describe this rule)",
                           input=inp, observed=x["ir_diff"])
                if x["id"] in verdict and o["kind"] in ("ok", "error"):
                    loader, spec, wf = verdict[x["id"]]
                    if not wf:
                        c.fail("corr", "the rule description names an op that is not an op of the regenerated table that takes a variable", input=inp,
                               observed=[a.get("uses") for a in r["atoms"]])
                    elif o["kind"] == "ok" and not spec:
                        if not unbound:
                            c.fail("oracle", "Load accepts a rule that the validation specification rejects (unbound variable, bad name, unplaceable or invalid pattern)",
                                   input=inp, observed="accepted" + (" ; Run: " + x["run"] if x.get("run") else ""), expected="a located error")
                    elif (o["kind"] == "ok") != loader:
                        c.fail("corr", "Load %s a rule that the model of the loader's validation %s" % (
                            ("accepts", "rejects") if o["kind"] == "ok" else ("rejects", "accepts")), input=inp, observed=o.get("err") or "accepted")
                if r.get("probe"):
                    op, pv = r["probe"].split(":", 1)
                    if unbound and o["kind"] == "error":
                        probed.add(op)
                    if not unbound and o["kind"] == "ok":
                        control.add(op)
                if nsample < 3 and o["kind"] == "ok" and len(r["alts"]) > 1:
                    nsample += 1
                    c.sample({"rule": r, "obs": o})
            elif x["stream"] == "group":
                judge_group(x, inp, verdict)
            elif x["stream"] in ("fn", "chain"):
                c.nontriv((x["stream"], x.get("what")))
            else:
                c.nontriv((x["stream"], o["kind"], (o.get("err") or "")[:40]))
        c.coverage["model_vs_impl_cases"] = c.coverage.get("model_vs_impl_cases", 0) + len(verdict)
        c.coverage["binary_comparison_atoms"] = c.coverage.get("binary_comparison_atoms", 0) + sum(
            1 for x in cases if x["stream"] == "dsl" and x.get("rule") for a in x["rule"]["atoms"] if a.get("chk") == "binary")
        c.coverage["constant_vs_constant_comparisons"] = c.coverage.get("constant_vs_constant_comparisons", 0) + sum(
            1 for x in cases if x["stream"] == "dsl" and x.get("rule") for a in x["rule"]["atoms"] if a.get("chk") == "binary" and a["l"] == "lit" and a["r"] == "lit")
        for s in ("fn", "chain", "bytes", "notdsl", "dsl", "struct", "hist", "group"):
            c.coverage["cases_" + s] = c.coverage.get("cases_" + s, 0) + sum(1 for x in cases if x["stream"] == s)
            c.coverage["accepted_" + s] = c.coverage.get("accepted_" + s, 0) + sum(1 for x in cases if x["stream"] == s and x["obs"]["kind"] == "ok")

    if thorough:
        for k in range(3):
            judge(observe(c.seed * 31 + k, 1500, 2000, 1000, 400, 600, 400), "t%d" % k)
    else:
        judge(observe(c.seed, 200, 400, 100, 24, 30, 20), "main")
    # bound-variable checking was probed through EVERY op of the regenerated table that takes a variable: rejected with a variable
    # that no / not every alternative binds, accepted with a bound one
    if g3:
        c.obligation("every-variable-op-probed", set(var_ops) <= probed and set(var_ops) <= control,
                     "ops that take a variable: %d; rejected with an unbound variable: %d; accepted with a bound one: %d; missing: %s" % (
                         len(var_ops), len(probed), len(control), sorted((set(var_ops) - probed) | (set(var_ops) - control))), count=1)
        c.coverage["variable_ops"] = len(var_ops)
        c.coverage["variable_ops_probed_unbound"] = len(probed & set(var_ops))

    def search():
        for k in range(1, 4):
            judge(observe(c.seed * 1009 + k, 1500, 1500, 1200, 300, 600, 300), "s%d" % k, with_model=gen_ok)
            if any(f["kind"] == "oracle" and not f.get("finding") for f in c.failures):
                break

    # which located error constructions of the load path did the run reach? (a message is matched against the format string of
    # the site; sites that share a format are told apart only by their function name and count together)
    if err_sites:
        def site_re(fmt_):
            out, i = "", 0
            while i < len(fmt_):
                if fmt_[i] == "%" and i + 1 < len(fmt_):
                    out += "%" if fmt_[i + 1] == "%" else ".*"
                    i += 2
                else:
                    out += re.escape(fmt_[i])
                    i += 1
            return re.compile(r"rules\.go:\d+: " + out + r"(: |$)", re.S)
        by_fmt = {}
        for st in err_sites:
            by_fmt.setdefault(st["format"], []).append(st)
        reached, missed = 0, []
        for fmt_, sts in sorted(by_fmt.items()):
            if not fmt_ or not fmt_.replace("%s", "").replace("%d", "").replace("%T", "").replace("%v", "").strip(" :()"):
                continue  # no literal text to recognise the message by
            rx = site_re(fmt_)
            if any(rx.search(e) for e in seen_errors):
                reached += len(sts)
            else:
                missed += ["%s: %s" % (st["where"].split("/")[-1], fmt_) for st in sts]
        c.coverage["located_error_sites"] = len(err_sites)
        c.coverage["located_error_sites_reached"] = reached
        c.coverage["located_error_sites_not_reached"] = len(missed)
        c.notes.append("located error sites of the load path no input of this run reached (%d of %d): %s" % (len(missed), len(err_sites), "; ".join(missed)))
    c.coverage["exhaustive"] = False
    c.finish(search=search)
