"""C04 -- custom filter / Do functions compiled by quasigo run with Go semantics; the dsl/types helper API
returns what go/types returns.

P: opcode numbering / widths, the unconditional-jump set, maxFuncLocals, the lastOp and call-convention switches and
   every native's pop/push signature are regenerated from /repo (go2coq quasigo); the finite obligations over them
   and the compiler-correctness theorems of coq/theories/Quasigo are (re)checked against them (coq/tmpl/C04).
K: generated typed programs: (a) bytes/pools/param counts of the real compiler == assemble (compile_model f);
   (b) quasigo.Call == model VM (byte-level fetch and instruction-level fetch) on argument tuples.
O: the same programs built with the Go toolchain: quasigo's results must equal the real compiler's; the Coq source
   semantics is run against the same results (validates the specification the theorems are stated against);
   engine level: custom filters mirroring built-in predicates / go/types facts (harness/cmd/c04dsl).
"""
import json
import os
import re

KNOWN_LOGIC = "logic-junk-under-operand"

ISSUE = {1: "model rejects a function the compiler accepts", 2: "code bytes differ", 3: "constant pools differ",
         4: "parameter counts differ", 5: "model accepts a function the compiler rejects",
         10: "byte-level model VM result differs from quasigo.Call", 11: "instruction-level model VM result differs from quasigo.Call",
         12: "Coq source semantics differs from the Go toolchain",
         6: "a slot of env.userFuncs does not hold the function that was compiled into it (the function table changed under already compiled code)",
         7: "env.userFuncs has another length than the model's function table after the history",
         8: "a name is bound to another function ID than in the model of the Env"}


def xres(s):
    if s is None or s == "":
        return "XOther"
    if s.startswith("i:"):
        n = int(s[2:])
        return "(XInt %s)" % (("(%d)" % n) if n < 0 else str(n))
    if s.startswith("s:"):
        b = bytes.fromhex(s[2:])
        return "(XStr [" + ";".join(str(x) for x in b) + "])"
    if s.startswith("b:"):
        return "(XBool %s)" % s[2:]
    if s == "v":
        return "XVoid"
    if s.startswith("P:"):
        return "XPanic"
    if s == "T":
        return "XTimeout"
    return "XOther"


def coq_string(s):
    return '"' + s.replace('"', '""') + '"'


def coq_zlist(xs, chunk=400):
    """Coq list literal; long lists are written as a concatenation of chunks (the list notation is parsed recursively)."""
    xs = [str(x) for x in xs]
    if len(xs) <= chunk:
        return "[" + ";".join(xs) + "]"
    parts = ["[" + ";".join(xs[i:i + chunk]) + "]" for i in range(0, len(xs), chunk)]
    return "(" + " ++ ".join(parts) + ")"


def prog_term(p):
    dumps = []
    for d in (p.get("dumps") or []):
        dumps.append("(mkdump %s [%s] [%s] %d %d)" % (coq_zlist(d.get("code") or []),
                                                         "; ".join(d.get("consts") or []), "; ".join(d.get("iconsts") or []),
                                                         d["nobj"], d["nint"]))
    calls = []
    for cobs in (p.get("calls") or []):
        calls.append("(mkcall %d %s %s %s %s %d)" % (cobs["f"], cobs["args_coq"], xres(cobs["res"]), xres(cobs.get("oracle")), cobs["trace"], cobs.get("vl0", 0)))
    return "(mkpcase [%s] [%s] %s [%s])" % (";\n  ".join(p["funs"]), ";\n  ".join(dumps),
                                            "true" if p.get("compile_err") else "false", ";\n  ".join(calls))


def dump_term(d):
    return "(mkdump %s [%s] [%s] %d %d)" % (coq_zlist(d.get("code") or []), "; ".join(d.get("consts") or []),
                                             "; ".join(d.get("iconsts") or []), d["nobj"], d["nint"])


def call_term(cobs):
    return "(mkcall %d %s %s %s %s %d)" % (cobs["f"], cobs["args_coq"], xres(cobs["res"]), xres(cobs.get("oracle")), cobs["trace"], cobs.get("vl0", 0))


def hist_term(h):
    units = []
    for u in h["units"]:
        units.append("(mkhunit [%s]\n   [%s] %s)" % (";\n    ".join(u.get("decls") or []), ";\n    ".join(dump_term(d) for d in (u.get("dumps") or [])),
                                                   "true" if u.get("compile_err") else "false"))
    return "(mkhcase [%s]\n  [%s]\n  [%s]\n  [%s])" % (";\n  ".join(units), ";\n  ".join(dump_term(d) for d in (h.get("table") or [])),
                                                   "; ".join("(%d, %s)" % (n, ("(%d)" % i) if i < 0 else str(i)) for n, i in (h.get("names") or [])),
                                                   ";\n  ".join(call_term(c) for c in (h.get("calls") or [])))


def parse_pairs(s):
    return [(int(a), int(b)) for a, b in re.findall(r"\(\s*(-?\d+)\s*,\s*(-?\d+)\s*\)", s)]


def run(c):
    thorough = c.tier == "thorough"
    c.rule = ("generated typed quasigo programs (1-4 functions: nested if/else ending in returns, loops with break, calls and "
              "natives in every operand position, ||/&& in every expression position, up to 8 locals) x argument tuples, and histories "
              "(2-4 units declaring the same function names compiled into one Env one after the other: generated, template, "
              "re-loaded, reversed and rejected units; functions of earlier units called after later units were compiled), and data "
              "programs (functions built around families of near-colliding constants - long common prefixes, quoted forms longer than "
              "the value, case / blank / NUL / normalisation variants, numerals next to the ints of the same text, ints equal modulo "
              "2^8..2^32, range ends - every member spelled differently at every use: raw / split / named / hex / rune / folded "
              "expressions; natives with 0..4 variadic arguments whatever the format asks for, needles cut from the haystack, border "
              "counts and numerals; argument tuples enumerated or drawn from the constants of the program and their neighbours); a case is "
              "one (program or history, function, argument tuple); non-trivial and distinct by (construct set, result kind, "
              "panic/normal), per program by its bytecode, per history by its sequence of unit kinds; engine level: "
              "(rule group, probe site) pairs of the dsl/types differential (incl. groups that keep several objects of the dsl API "
              "alive at once: two DoVar handles, types, interfaces, fields, constructed types, in both orders, through locals, helper "
              "parameters and pending operands), distinct per pair name with both verdicts seen")
    c.trusted += [
        "go2coq quasigo / quasigoenv / quasigoconst (read opcodes.gen.go, isUncondJump, bindLabel, eval's call cases, native bodies and dsl declarations, "
        "the bodies of Env.addFunc/RemoveFunc and the shape of the other Env accessors and of irLoader.compileFilterFuncs, the statements of "
        "internConstant/internIntConstant/compileConstantValue and the writers of the pool fields syntactically)",
        "harness/cmd/c04 (generator, serialiser of go/ast + go/types facts into Coq terms, native call tracer) and the quasigo verif hooks",
        "the Go toolchain (go build) as the oracle for the source semantics; Go's strings/strconv/fmt as oracles for the natives (Section variables of the theorems, observed call tables in the correspondence)",
        "harness/cmd/c04dsl (engine-level differential for the dsl/types natives) and go/types",
    ]
    c.notes += ["forward simulation for terminating runs; divergence preservation is not proved",
                "the Env model covers the user-function table and name binding; native tables are fixed at engine construction",
                "natives are oracles: their results are taken from the traced real calls; that the oracle of a stdlib native is the Go "
                "function itself rests on stdlib_wrappers_are_transparent (regenerated bodies) and on the go build differential",
                "constant pools: the slices and maps of the source are modelled (ConstPool.v), compileConstantValue and the intern functions "
                "are translated and proved to be Compile.cconst for all pool states"]

    c.build_theories()
    c.require_theories("Base/*.v", "Quasigo/*.v")

    # ---- P: regenerate tables, re-prove obligations over them
    c.go2coq_sources = ["quasigo.go", "quasigoenv.go", "quasigoconst.go"]
    gen_ok = False
    if c.go2coq("quasigo", "Gen_Quasigo.v"):
        gen_ok = c.coq_compile(["Gen_Quasigo.v"])
        if gen_ok:
            tm = ["Inst_Quasigo.v", "C04.v"]
            c.install_tmpl(*["C04/" + t for t in tm])
            gen_ok = c.coq_compile(tm, timeout=900)
            # obligations that do not feed the correspondence (a break here must not switch K off)
            c.install_tmpl("C04/Inst_DslNatives.v")
            c.coq_compile(["Inst_DslNatives.v"], timeout=300)
            # the bodies of the natives beyond their stack discipline: stdlib wrappers are transparent, dsl natives write
            # nothing but their declared outputs and hand out no address of reused storage
            c.install_tmpl("C04/Inst_NativeBodies.v")
            c.coq_compile(["Inst_NativeBodies.v"], timeout=300)
    # the environment: addFunc / RemoveFunc bodies, accessors, the loader's protocol
    if c.go2coq("quasigoenv", "Gen_QuasigoEnv.v") and c.coq_compile(["Gen_QuasigoEnv.v"]):
        c.install_tmpl("C04/Inst_Env.v")
        c.coq_compile(["Inst_Env.v"], timeout=300)

    # the constant pools: internConstant / internIntConstant / compileConstantValue as statement lists
    if c.go2coq("quasigoconst", "Gen_QuasigoConst.v") and c.coq_compile(["Gen_QuasigoConst.v"]):
        c.install_tmpl("C04/Inst_ConstPool.v")
        c.coq_compile(["Inst_ConstPool.v"], timeout=300)

    hb = c.build_harness("c04")
    if hb is None:
        return c.finish()

    state = {"shard": 0}

    def observe(n, seed, feat, tuples=8, corpus=False, hist=0, data=0):
        tmp = os.path.join(c.work, "tmp-%d" % seed)
        args = ["-seed", str(seed), "-n", str(n), "-hist", str(hist), "-data", str(data), "-tuples", str(tuples), "-feat", feat, "-tmp", tmp]
        if corpus:
            cdir = os.path.join(c.verif, "corpus", "C04")
            args += ["-corpus", cdir]
        rc, out = c.run_harness(hb, args, timeout=1500)
        progs, summ = [], None
        for line in out.splitlines():
            line = line.strip()
            if not line.startswith("{"):
                continue
            try:
                o = json.loads(line)
            except ValueError:
                continue
            if o.get("k") in ("prog", "hist"):
                progs.append(o)
            elif o.get("k") == "summary":
                summ = o
        if rc != 0 or summ is None:
            c.obligation("harness-run:c04", False, out[-2000:])
            return [], None
        if summ.get("oracle_err"):
            c.obligation("oracle-build:c04", False, summ["oracle_err"][-2000:])
        return progs, summ

    def compare(progs, summ, tag):
        if not progs or summ is None:
            return
        names = summ["natives"]
        for k, v in summ["constructs"].items():
            c.coverage.setdefault("constructs", {})
            c.coverage["constructs"][k] = c.coverage["constructs"].get(k, 0) + v
        c.coverage["illtyped_discarded"] = c.coverage.get("illtyped_discarded", 0) + summ["discarded_illtyped"]
        # ---- O (Go side): quasigo vs the Go toolchain
        oracle_bad = {}
        for p in progs:
            if p.get("compile_err", "").startswith("CRASH"):
                c.fail("oracle", "the quasigo compiler crashes on a type-checked function", input={"src": p["src"]},
                       observed=p["compile_err"], expected="a result or a compile error")
            for j, cobs in enumerate(p.get("calls") or []):
                c.count()
                kind = (cobs["res"][:1], tuple(sorted(k for k in p["feat"] if not k.startswith("native"))))
                c.nontriv(json.dumps([kind[0], kind[1], cobs["f"]]))
                if cobs.get("oracle", "") == "":
                    continue
                if cobs["res"] != cobs["oracle"]:
                    oracle_bad[(p["i"], j)] = cobs
            c.nontriv("code:" + json.dumps([d.get("code") for d in (p.get("dumps") or [])]))
        # ---- K and Sem: evaluate the model inside Coq
        pre = ["From Coq Require Import List ZArith Bool String.",
               "From RG.Base Require Import Outcome GoInt GoSlice.",
               "From RG.Quasigo Require Import Source Bytecode Compile VM Sem Guards Harness Env HarnessEnv.",
               "From RGW Require Import Gen_Quasigo Inst_Quasigo." if gen_ok else "",
               "Import ListNotations. Local Open Scope Z_scope. Local Open Scope string_scope.",
               "Definition native_names : list string := [%s]." % "; ".join(coq_string(n) for n in names),
               "Definition cfg := the_cfg native_names.",
               "Definition fuel : nat := Z.to_nat 60000."]
        results = {}
        scopes = {}
        if gen_ok:
            nsh = 14 if len(progs) >= 28 else max(1, len(progs) // 2)
            jobs = []
            for k in range(nsh):
                sh = progs[k::nsh]
                if not sh:
                    continue
                src = list(pre)
                for p in sh:
                    if p["k"] == "hist":
                        src.append("Definition P%d : hcase := %s." % (p["i"], hist_term(p)))
                    else:
                        src.append("Definition P%d : pcase := %s." % (p["i"], prog_term(p)))
                src.append("Definition RES := Eval vm_compute in [%s]." % "; ".join(
                    "(%d, %s cfg fuel P%d)" % (p["i"], "check_hist" if p["k"] == "hist" else "check_prog", p["i"]) for p in sh))
                src.append("Print RES.")
                state["shard"] += 1
                jobs.append(("Cases_%s_%d.v" % (tag, state["shard"]), "\n".join(src)))
            for (fname, _), (ok, out) in zip(jobs, c.coq_eval_many(jobs, timeout=1500, workers=14)):
                if not ok:
                    c.obligation("coq-eval:" + fname, False, out[-2500:])
                    continue
                m = re.search(r"RES\s*=\s*(.*?)\n\s*:\s*list", out, re.S)
                if not m:
                    c.obligation("coq-eval-parse:" + fname, False, out[-2000:])
                    continue
                body = re.sub(r"\(\s+", "(", re.sub(r"\s+", " ", m.group(1)))
                # entries: (i, (funs, calls, roots))
                for em in re.finditer(r"\((\d+), \((\[[^\]]*\]), (\[[^\]]*\]), (\[[^\]]*\])\)\)", body):
                    tail = [int(x) for x in re.findall(r"-?\d+", em.group(4))]
                    roots, scope = tail, 0
                    if len(tail) >= 2 and tail[-2] == -1:
                        roots, scope = tail[:-2], tail[-1]
                    results[int(em.group(1))] = (parse_pairs(em.group(2)), parse_pairs(em.group(3)), roots)
                    scopes[int(em.group(1))] = scope
            for p in progs:
                if p["i"] not in results and gen_ok:
                    c.obligation("coq-eval-missing:prog%d" % p["i"], False, "no result parsed")
        byidx = {p["i"]: p for p in progs}
        n_model_calls = 0
        inconclusive = 0
        for i, (fun_issues, call_issues, roots) in sorted(results.items()):
            p = byidx[i]
            n_model_calls += len(p.get("calls") or [])
            for (fi, code) in fun_issues:
                label = fi
                if p["k"] == "hist":
                    label = ("name #%d" % fi) if code == 8 else (p["slots"][fi] if 0 <= fi < len(p.get("slots") or []) else "slot %d" % fi)
                c.fail("corr", ("bytecode: " if code < 6 else "Env: ") + ISSUE.get(code, str(code)), input={"src": p["src"], "function": label},
                       observed=(p.get("dumps") or [{}] * (fi + 1))[fi].get("code") if fi < len(p.get("dumps") or []) else p.get("compile_err"))
            per_call = {}
            for (j, code) in call_issues:
                per_call.setdefault(j, []).append(code)
            for j, codes in per_call.items():
                cobs = p["calls"][j]
                inp = {"src": p["src"], "function": cobs.get("where") or "qf%d" % cobs["f"], "args": cobs["args_go"]}
                for code in codes:
                    if code >= 20:
                        inconclusive += 1
                        continue
                    if code == 12:
                        # the specification itself disagrees with the Go toolchain: the model of Go is wrong
                        c.fail("corr", ISSUE[12], input=inp, observed=cobs.get("oracle"))
                    elif code in (10, 11) and (i, j) in oracle_bad and (p["calls"][j]["f"] in roots):
                        pass  # reported below as an oracle failure outside the faithful model
                    else:
                        c.fail("corr", ISSUE.get(code, str(code)), input=inp, observed=cobs["res"])
        # ---- oracle failures, attributed to the known finding only under its guard and when the faithful model agrees
        for (i, j), cobs in sorted(oracle_bad.items()):
            p = byidx[i]
            inp = {"src": p["src"], "function": cobs.get("where") or "qf%d" % cobs["f"], "args": cobs["args_go"]}
            finding = None
            if i in results:
                _, call_issues, roots = results[i]
                model_agrees = not any(jj == j and code in (10, 11) for jj, code in call_issues)
                if cobs["f"] in roots and model_agrees:
                    finding = KNOWN_LOGIC
            c.fail("oracle", "quasigo result differs from the Go toolchain", input=inp, expected=cobs["oracle"], observed=cobs["res"],
                   finding=finding)
        c.coverage["programs_in_theorem_scope"] = c.coverage.get("programs_in_theorem_scope", 0) + sum(1 for v in scopes.values() if v == 1)
        c.coverage["programs_compiled"] = c.coverage.get("programs_compiled", 0) + sum(1 for p in progs if not p.get("compile_err"))
        c.coverage["model_vs_impl_calls"] = c.coverage.get("model_vs_impl_calls", 0) + n_model_calls
        c.coverage["bytecode_equal_functions"] = c.coverage.get("bytecode_equal_functions", 0) + sum(len(p.get("dumps") or []) for p in progs if p["i"] in results)
        c.coverage["oracle_vs_impl_calls"] = c.coverage.get("oracle_vs_impl_calls", 0) + sum(1 for p in progs for x in (p.get("calls") or []) if x.get("oracle"))
        c.coverage["inconclusive_model_runs"] = c.coverage.get("inconclusive_model_runs", 0) + inconclusive
        c.coverage["compile_errors"] = c.coverage.get("compile_errors", 0) + sum(1 for p in progs if p.get("compile_err"))
        # the update sweeps (x = c op x, x = x op c, ... data.go updateProgram) must be accepted and run on every tuple
        ups = [p for p in progs if (p.get("feat") or {}).get("data:update-sweep")]
        if True:
            bad = [p["i"] for p in ups if p.get("compile_err") or len(p.get("calls") or []) < 150
                   or any(not x.get("oracle") for x in p["calls"])]
            c.obligation("generator:update-sweeps-accepted-and-run:%s" % tag, len(ups) == 4 and not bad,
                         "update sweep programs: %d (want 4), rejected / not fully run: %s; first error: %s" % (
                             len(ups), bad, next((p.get("compile_err") for p in ups if p.get("compile_err")), "")))
        c.coverage["update_sweep_calls"] = c.coverage.get("update_sweep_calls", 0) + sum(len(p.get("calls") or []) for p in ups)
        hs = [p for p in progs if p["k"] == "hist"]
        c.coverage["histories"] = c.coverage.get("histories", 0) + len(hs)
        c.coverage["history_units"] = c.coverage.get("history_units", 0) + sum(len(h["units"]) for h in hs)
        c.coverage["history_units_rejected"] = c.coverage.get("history_units_rejected", 0) + sum(1 for h in hs for u in h["units"] if u.get("compile_err"))
        c.coverage["calls_of_earlier_units_after_later_loads"] = c.coverage.get("calls_of_earlier_units_after_later_loads", 0) + sum(
            h["feat"].get("call-of-earlier-unit", 0) for h in hs)
        for h in hs:
            c.nontriv("hist:" + json.dumps([u["kind"] + ("!" if u.get("compile_err") else "") for u in h["units"]]))
        for p in progs[:2] + hs[:1]:
            if p.get("calls"):
                c.sample({"src": p["src"][:400], "call": p["calls"][0]["args_go"], "quasigo": p["calls"][0]["res"], "go": p["calls"][0].get("oracle")})

    # ---- dsl/types natives: engine-level differential (custom filter mirroring a built-in predicate / go/types fact)
    def dsl_differential(seed, nfiles, tag):
        hd = c.build_harness("c04dsl")
        if hd is None:
            return
        rc, out = c.run_harness(hd, ["-seed", str(seed), "-n", str(nfiles), "-brief", "-tmp", os.path.join(c.work, "tmpdsl-" + tag)], timeout=1200)
        summ = None
        for line in out.splitlines():
            line = line.strip()
            if not line.startswith("{"):
                continue
            try:
                o = json.loads(line)
            except ValueError:
                continue
            k = o.get("k")
            if k == "summary":
                summ = o
            elif k == "pairstat":
                if o.get("accepted_both", 0) > 0 and o.get("rejected_both", 0) > 0:
                    c.nontriv("dslpair:" + o["pair"])
            elif k == "pair" and o.get("builtin") != o.get("custom"):
                c.fail("oracle", "custom filter mirroring a built-in predicate disagrees with it",
                       input={"pair": o.get("pair"), "site": o.get("site"), "file": o.get("file"), "off": o.get("off"), "seed": seed},
                       expected={"builtin": o.get("builtin")}, observed={"custom": o.get("custom")})
            elif k == "direct" and o.get("expected") != o.get("observed"):
                what = "dsl/types helper returns something else than go/types"
                if str(o.get("what", "")).startswith("multi["):
                    what = ("a custom filter / Do function of a rules file loaded into one engine with other files (equal-named "
                            "helper functions) does not compute what the file means alone")
                c.fail("oracle", what,
                       input={"what": o.get("what"), "site": o.get("site"), "file": o.get("file"), "off": o.get("off"), "seed": seed},
                       expected=o.get("expected"), observed=o.get("observed"))
            elif k == "panic":
                c.fail("oracle", "custom filter / Do function panics", input={"what": o.get("what"), "file": o.get("file"), "seed": seed},
                       observed=str(o)[:500], expected="no panic")
            elif k == "anomaly":
                c.fail("corr", "c04dsl: unexpected report", input=o)
            elif k == "fatal":
                c.obligation("harness-run:c04dsl", False, str(o)[:2000])
        if rc != 0 or summ is None:
            c.obligation("harness-run:c04dsl", False, out[-2000:])
            return
        c.count(summ["pair_cases"] + summ["direct_cases"])
        for k in ("sites", "pairs", "groups", "pair_cases", "direct_cases", "accepted_both", "rejected_both", "multi_file_cases"):
            c.coverage["dsl_" + k] = c.coverage.get("dsl_" + k, 0) + summ[k]

    dsl_differential(c.seed, 4 if not thorough else 24, "main")

    n = 120 if not thorough else 1500
    progs, summ = observe(n, c.seed, "logic", corpus=True, hist=40 if not thorough else 400, data=51 if not thorough else 511)
    compare(progs, summ, "main")

    def search():
        progs2, summ2 = observe(400, c.seed + 1000, "logic", hist=100, data=200)
        compare(progs2, summ2, "search")

    c.coverage["exhaustive"] = False
    c.finish(search=search)
