"""C09 -- a run depends only on its inputs, not on what ran before.

P: the walker's per-kind action lists (save/restore of the dead-code flag and the current function, Push / defer Pop of
   the ancestor stack), the struct inventories of RunnerState / rulesRunner / filterParams / astWalker / nodePath, the
   (re)initialisation in newRulesRunner + RunnerState.Reset, and the per-match resets (typematch bindings, quasigo
   operand stack, Contains() preset) are regenerated from source. Finite obligations by vm_compute; generic theorems
   give, for ALL trees and ALL histories: context restored after every node, context observed at a visit is a
   function of the node's position only, the start context of a run does not depend on the prior state, every call
   of every history reports what the same call reports on a fresh state.
K: the Coq model walks serialised ASTs from arbitrary start contexts and with a panicking callback and is compared
   visit by visit (flag, function, path; unwinding) with the engine's walker.
O: the property verbatim: random histories of Run calls on one engine with shared / nil / pooled states, panicking
   Report callbacks and stale left-overs injected into the state, each call vs. the same call on a fresh engine+state.
"""
import json
import os

import walkerlib


def run(c):
    thorough = c.tier == "thorough"
    c.rule = ("random histories (3-12 calls) of Engine.Run over a pool of 13 type-checked files (two of them exist only in memory, two are "
              "packages of the same path whose equal-named types disagree) x 2 TruncateLen settings on one engine "
              "with a shared / nil / two pooled RunnerStates; a third of the calls have a Report callback that panics at a random "
              "report, a quarter run on a state into which stale left-overs were put (node path, dead flag, current function, "
              "operand stack + variadic-length register, capture preset), a fifth repeat the previous call; the rule set is one of "
              "several generated variants: fixed groups (Deadcode, Parent(), typed pattern variables, lists, ReportData.Func) + "
              "Contains() rules whose outer pattern binds none / some / all of the sub-pattern's variables (binder and free-variable "
              "rules for the same name, random order) + custom bytecode filters with fmt.Sprintf calls of arity 0-3 inside "
              "if / else / && / || / loop / helper-function positions followed by a call of the same or another arity; plus, per "
              "(variant, file), the whole-file run vs. runs over each top-level declaration alone and over each top-level statement of every function body alone, "
              "and vs. a child process that runs rule sets, files and declarations in the opposite order; engines that grow (Load; Run; Load of "
              "custom filters with helper functions; Run ... with nil / shared / pooled states) vs. fresh engines that loaded the same files; "
              "type-pattern rules whose variables a failed match can leave bound ([$n]T, repeated $t, $*_ runs; all on sink($x)) over values of many "
              "array lengths / map, func and struct shapes in shuffled orders; MatchComment rules whose regexps name their groups alike, the earlier "
              "ones rejected by filters, over comments several of them match; per (variant, file) the whole rule set vs. the engines that have one "
              "group each (rule locality); a quarter of the history calls are re-entrant: the Report callback starts further runs (nil / own / pooled "
              "states, same or another goroutine, up to two levels) and every run of the tree is compared with the same run alone; every report is one evaluation; "
              "a case is non-trivial and distinct by (state kind, dirty?, panicking?, previous call's file = this file?, previous "
              "call panicked?), by generated rule kind that reported in a history, and by (rule kind, file) in the locality runs")
    c.trusted += walkerlib.TRUSTED + [
        "go2coq runnerstate reader (struct inventories, newRulesRunner literal, Reset body, per-match reset shapes)",
        "gogrep resets its own matcher state in MatchNode (Section-level assumption; validated only by the history runs)",
        "hook ruleguard.VerifDirtyRunnerState (build tag verif)",
    ]
    c.notes += ["the reports of a run as a function of the visits is C01's theorem; filters are oracles",
                "left-overs of gogrep.MatcherState other than CapturePreset are outside the model"]

    c.build_theories()
    c.require_theories("Ast/*.v", "Engine/RunState.v", "Engine/Reentrant.v", "Engine/AnswerCache.v")
    ok = walkerlib.go2coq(c, "runnerstate", "Gen_RunnerState.v")
    inst_ok = False
    if ok:
        inst_ok = walkerlib.prepare(c, [], extra_gen=["Gen_RunnerState.v"], extra_tmpl=["C09/Inst_RunState.v", "C09/C09.v"])

    hb = c.build_harness("walker")
    if hb is None:
        return c.finish()

    def history(nhist, size, seed):
        rc, out = c.run_harness(hb, ["-mode", "history", "-gen", str(nhist), "-size", str(size), "-seed", str(seed),
                                     "-tmp", os.path.join(c.work, "tmp")], timeout=900)
        n = 0
        for line in out.splitlines():
            line = line.strip()
            if not line.startswith("{"):
                continue
            o = json.loads(line)
            if o["k"] == "rules":
                c.coverage["history_rule_groups"] = o["reports"]
                c.coverage["history_rule_set_variants"] = c.coverage.get("history_rule_set_variants", 0) + o.get("variant", 0)
                kinds = o.get("kinds") or {}
                for k, v in kinds.items():
                    c.coverage["generated_rules:" + k.split("/same")[0]] = c.coverage.get("generated_rules:" + k.split("/same")[0], 0) + v
                fam = set(k.split("/")[0] + "/" + k.split("/")[1] for k in kinds if "/" in k)
                if o["reports"] < 14 or "do/conditional-report-or-suggest" not in kinds or not {"contains/binder", "contains/free-variable"} <= fam or not any(k.startswith("variadic/") for k in fam) \
                        or "typepattern/array-length-variable" not in kinds or not any(k.startswith("typepattern/repeated-variable") for k in kinds) or kinds.get("comment/named-groups", 0) < 6:
                    c.obligation("harness:history-rules", False, "rule groups dropped: %s; kinds %s" % (o.get("err"), sorted(kinds)))
                continue
            if o.get("err"):
                c.obligation("harness-run:history", False, o["err"])
                continue
            if o["k"] == "local":
                # locality inside one run: whole-file run vs. runs over each top-level declaration alone
                c.count(max(o["reports"], 1))
                for k, v in (o.get("kinds") or {}).items():
                    if k != "fixed":
                        c.nontriv(("local", k.split("/same")[0], o["calls"][0]["file"]))
                c.coverage["locality_runs"] = c.coverage.get("locality_runs", 0) + 1
                c.coverage["statement_level_locality_runs"] = c.coverage.get("statement_level_locality_runs", 0) + o.get("panics", 0)
                if o.get("mismatch") and o["mismatch"].startswith("the run on a fresh"):
                    c.fail("oracle", "Run of a loaded rule set over a type-checked file fails inside the engine: " + o["mismatch"],
                           input={"rules": o.get("rules"), "file": (o.get("srcs") or [None])[0], "seed": seed, "variant": o.get("variant")},
                           expected="a report sequence", observed=o["mismatch"])
                elif o.get("mismatch"):
                    c.fail("oracle", "the reports inside a top-level declaration / a top-level statement of a function body depend on what was visited before it in the same run: " + o["mismatch"],
                           input={"rules": o.get("rules"), "file": (o.get("srcs") or [None])[0], "seed": seed, "variant": o.get("variant")},
                           expected="the run over the whole file reports, declaration by declaration (statement by statement), what a run over a file with only that declaration (only that statement in its function) reports",
                           observed=o["mismatch"])
                continue
            if o["k"] == "rulelocal":
                # rule locality: the whole rule set vs. the engines that have one group each
                c.count(max(o["reports"], 1))
                c.coverage["rule_locality_runs"] = c.coverage.get("rule_locality_runs", 0) + 1
                for k, v in (o.get("kinds") or {}).items():
                    if k != "fixed":
                        c.nontriv(("rule-local", k.split("/same")[0], o["calls"][0]["file"]))
                if o.get("mismatch"):
                    c.fail("oracle", "what a rule reports depends on the rules loaded next to it: " + o["mismatch"],
                           input={"rules": o.get("rules"), "file": (o.get("srcs") or [None])[0], "seed": seed, "variant": o.get("variant")},
                           expected="every report of the whole rule set is, up to the rule's line number, a report of the engine that has only the rule's group; "
                                    "the first group in load order that reports a node (a comment) alone is heard in the whole set",
                           observed=o["mismatch"])
                continue
            if o["k"] == "grow":
                # Load; Run; Load; Run ... on one engine vs. a fresh engine that loaded the same files before any run
                c.count(max(o["reports"], 1))
                c.coverage["growing_engine_histories"] = c.coverage.get("growing_engine_histories", 0) + 1
                for k in (o.get("kinds") or {}):
                    c.nontriv(("grow", k))
                for call in (o.get("calls") or []):
                    c.nontriv(("grow-run", call["state"]))
                if o.get("mismatch"):
                    c.fail("oracle", "a Run on an engine that loaded further rules files after earlier runs differs from the same run on a fresh engine that loaded the same files: " + o["mismatch"],
                           input={"rules_files_in_load_order": o.get("rules"), "runs": o.get("calls"), "files": o.get("srcs"), "seed": seed, "history_index": o["history"]},
                           expected="identical report sequence", observed=o["mismatch"])
                continue
            if o["k"] == "lookup":
                # run-time lookups by name (ctx.GetType / ctx.GetInterface) that fail: the outcome on a used engine vs. a fresh one
                c.count(max(o["reports"], 1))
                c.coverage["failing_lookup_histories"] = c.coverage.get("failing_lookup_histories", 0) + 1
                c.coverage["runs_ended_by_a_failed_lookup"] = c.coverage.get("runs_ended_by_a_failed_lookup", 0) + o.get("panics", 0)
                for k, v in (o.get("kinds") or {}).items():
                    c.nontriv(("lookup", k))
                    if k.startswith("reference-runs"):
                        c.coverage["lookup_" + k.replace("-", "_")] = c.coverage.get("lookup_" + k.replace("-", "_"), 0) + v
                if o.get("mismatch"):
                    c.fail("oracle", "the outcome of a Run (reports, then the failure of a custom filter whose ctx.GetType / ctx.GetInterface finds no such "
                           "name) depends on what the engine ran before: " + o["mismatch"],
                           input={"rules": o.get("rules"), "files": o.get("srcs"), "history": o.get("calls"), "seed": seed, "variant": o.get("variant")},
                           expected="the outcome of the same call on a fresh engine: the same reports, ended by the same failure", observed=o["mismatch"])
                continue
            if o["k"] == "cold":
                # the same (rule set, file) in another process that did everything in the opposite order
                c.count(max(o["reports"], 1))
                c.coverage["cold_process_references"] = c.coverage.get("cold_process_references", 0) + 1
                for k in (o.get("kinds") or {}):
                    if k != "fixed":
                        c.nontriv(("cold", k.split("/same")[0]))
                if o.get("mismatch"):
                    c.fail("oracle", "the reports of a run depend on what the process ran before (other rule sets, files, declarations): " + o["mismatch"],
                           input={"rules": o.get("rules"), "file": (o.get("srcs") or [None])[0], "seed": seed, "variant": o.get("variant")},
                           expected="the same reports in both processes", observed=o["mismatch"])
                continue
            n += 1
            c.count(max(o["reports"], 1))
            for k in (o.get("kinds") or {}):
                if k != "fixed":
                    c.nontriv(("reported-in-history", k))
            c.coverage["runs_started_from_report_callbacks"] = c.coverage.get("runs_started_from_report_callbacks", 0) + o.get("nested", 0)
            prev = None
            for call in (o.get("calls") or []):
                if call.get("nested"):
                    c.nontriv(("re-entrant", call["state"] if call["state"] in ("shared", "nil") else "pool", call["dirty"],
                               "goroutine" in call["nested"], call["nested"].count("Run(")))
                key = (call["state"] if call["state"] in ("shared", "nil") else "pool", call["dirty"], call["panic_at"] >= 0,
                       prev is not None and prev["file"] == call["file"], prev is not None and prev["panic_at"] >= 0)
                if prev is not None:
                    c.nontriv(key)
                prev = call
            if o.get("mismatch"):
                c.fail("oracle", "a Run call reports differently than the same call on a fresh engine and state: " + o["mismatch"],
                       input={"history": o.get("calls"), "rules": o.get("rules"), "files": o.get("srcs"), "seed": seed, "history_index": o["history"],
                              "variant": o.get("variant")},
                       expected="identical report sequence (up to the callback panic)", observed=o["mismatch"])
            elif len(c.samples) < 4:
                c.sample({"history": (o.get("calls") or [])[:6], "reports": o["reports"], "callback_panics": o["panics"], "groups": o.get("groups")})
        if rc != 0 or n == 0:
            c.obligation("harness-run:history", False, out[-2000:])
        c.coverage["histories"] = c.coverage.get("histories", 0) + n
        if not c.coverage.get("cold_process_references") or not c.coverage.get("growing_engine_histories"):
            c.obligation("harness-run:history-cold-and-grow", False, "no cold-process reference / growing-engine history ran")
        if not c.coverage.get("runs_ended_by_a_failed_lookup") or not c.coverage.get("lookup_reference_runs_without_failure") \
                or not c.coverage.get("lookup_reference_runs_ended_by_a_failed_lookup"):
            c.obligation("harness-run:history-failing-lookups", False, "the histories with failing run-time lookups did not run both kinds of runs "
                         "(ended by a failed lookup / not): %s" % {k: v for k, v in c.coverage.items() if "lookup" in k})
        if not c.coverage.get("rule_locality_runs") or not c.coverage.get("runs_started_from_report_callbacks"):
            c.obligation("harness-run:history-rule-locality-and-reentrancy", False, "no rule-locality run / no run started from a Report callback")

    def events(nrepo, nstd, ngen, size, tag, seed, variants):
        obs = walkerlib.run_events(c, hb, walkerlib.pick_files(c, nrepo, nstd), ngen, size, variants=variants, seed=seed)
        for o in obs:
            if o.get("err"):
                continue
            c.count(len(o["events"]))
            if o["k"] == "variant":
                c.nontriv(("walk-from", bool(o["init"]["dead"]), o["init"]["func"] >= 0, len(o["init"].get("path") or []), o["panicked"]))
            if o.get("oracle_ctx") or o.get("oracle_dead"):
                msg = o.get("oracle_ctx") or o.get("oracle_dead")
                c.fail("oracle", "walk-scoped context leaks or is not restored: " + msg,
                       input={"file": o["name"], "source": o.get("src"), "start_context": o.get("init"), "panic_at": o.get("panic_at")},
                       observed=msg)
        n = walkerlib.coq_compare(c, obs, tag, "C09") if inst_ok else 0
        c.coverage["model_vs_impl_walks"] = c.coverage.get("model_vs_impl_walks", 0) + n

    if thorough:
        history(1500, 40, c.seed)
        events(10, 16, 16, 60, "main", c.seed, 6)
    else:
        history(150, 30, c.seed)
        events(2, 3, 5, 40, "main", c.seed, 4)

    def search():
        history(1000, 40, c.seed + 101)
        events(4, 6, 10, 60, "search", c.seed + 101, 6)

    c.coverage["exhaustive"] = False
    c.finish(search=search)
