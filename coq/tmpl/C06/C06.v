(* Property C06 -- theorems only. *)
From Coq Require Import List String Bool ZArith NArith.
From RG.Load Require Import Place Validate.
From RGW Require Import Gen_Place Gen_Valid Gen_Errs Inst_Valid.
Import ListNotations.
Local Open Scope string_scope.

(* place_total: for EVERY tag gogrep's operation table can give to a compiled pattern the placement of loadSyntaxRule is an error or lies inside the bucket array *)
Theorem C06_place_total :
  forall tag, In tag gen_pattern_tags ->
  match place_of gen_place_cases tag with
  | PErr => True
  | PTags l => l <> [] /\ forall t, In t l -> (t < gen_num_buckets)%N
  end.
Proof. exact (place_tags_ok_spec gen_num_buckets gen_place_cases gen_pattern_tags place_total_gen). Qed.
Print Assumptions C06_place_total.

(* accepted_rule_bound: a rule the loader's validation accepts is well bound: under every pattern alternative every variable the
   Where filter MENTIONS (through whatever op of the regenerated table) and the At() variable is bound (or is $$), and every
   variable the Report/Suggest templates interpolate is bound.  The loader only checks the variables it RECORDED, i.e. those of
   the nodes whose op has flagHasVar in the regenerated table: the theorem rests on optab_flags_complete. *)
Theorem C06_accepted_rule_bound :
  forall r, rule_wf gen_optab r = true -> gen_validate r = true -> well_bound r.
Proof. intros r. exact (accepted_rule_bound gen_num_buckets gen_place_cases gen_kind_names gen_object_names gen_tag_names gen_swap_guard gen_optab r optab_flags_complete). Qed.
Print Assumptions C06_accepted_rule_bound.

(* flag_table: every op whose DSL form takes a variable has flagHasVar; flagHasVar only where $Value is a variable name (string);
   binary / literal ops have the operands / value types newBinaryExprFilter relies on *)
Theorem C06_flag_table :
  (forall o, In o gen_optab -> mentions_var o = true -> op_has_var o = true) /\
  (forall o, In o gen_optab -> op_has_var o = true -> mentions_var o = true /\ op_value_type o = "string") /\
  flags_shape gen_optab = true.
Proof.
  split; [|split].
  - intros o Ho Hm. pose proof optab_flags_complete as H. unfold flags_complete in H. rewrite forallb_forall in H.
    specialize (H o Ho). rewrite Hm in H. exact H.
  - intros o Ho Hv. pose proof optab_flags_sound as H. unfold flags_sound in H. rewrite forallb_forall in H.
    specialize (H o Ho). rewrite Hv in H. cbn [implb] in H. apply andb_true_iff in H. destruct H as [H1 H2].
    split; [assumption|now apply String.eqb_eq].
  - exact optab_flags_shape.
Qed.
Print Assumptions C06_flag_table.

(* loader_is_spec: on every rule the loader's verdict (recorded variables) is the specification's (mentioned variables) *)
Theorem C06_loader_is_spec :
  forall r, rule_wf gen_optab r = true -> gen_validate r = gen_validate_spec r.
Proof. intros r. exact (validate_is_spec gen_num_buckets gen_place_cases gen_kind_names gen_object_names gen_tag_names gen_swap_guard gen_optab r optab_flags_complete). Qed.
Print Assumptions C06_loader_is_spec.

(* accepted_file_bound: a FILE the loader accepts -- any number of groups, any number of rules per group -- holds only well-bound
   rules.  The loader is the model in which the variables that reach checkBoundVars for a rule may depend on everything loaded
   before it (load_groups over an abstract state); the theorem needs that they do not (info_fresh), which is what the regenerated
   loadRule / loadRuleGroup / field and write inventories of the loader establish for the loader as it is (validate_file). *)
Theorem C06_accepted_file_bound :
  forall gs, validate_file gen_num_buckets gen_place_cases gen_kind_names gen_object_names gen_tag_names gen_swap_guard gen_optab gs = true ->
  forall g r, In g gs -> In r g -> rule_wf gen_optab r = true -> well_bound r.
Proof.
  intros gs. unfold validate_file.
  exact (accepted_file_bound gen_num_buckets gen_place_cases gen_kind_names gen_object_names gen_tag_names gen_swap_guard gen_optab
           unit (no_state gen_optab) (no_state_fresh gen_optab) optab_flags_complete gs tt).
Qed.
Print Assumptions C06_accepted_file_bound.

(* file_is_rules: the verdict on a file is the conjunction of the verdicts on its rules, each taken alone *)
Theorem C06_file_is_rules :
  forall gs, validate_file gen_num_buckets gen_place_cases gen_kind_names gen_object_names gen_tag_names gen_swap_guard gen_optab gs =
             forallb (forallb gen_validate) gs.
Proof.
  intros gs. unfold validate_file, gen_validate.
  exact (load_groups_forallb gen_num_buckets gen_place_cases gen_kind_names gen_object_names gen_tag_names gen_swap_guard gen_optab
           unit (no_state gen_optab) (no_state_fresh gen_optab) gs tt).
Qed.
Print Assumptions C06_file_is_rules.

Theorem C06_loader_keeps_nothing_between_rules :
  gen_loadRuleGroup_rules = ["for i := range group.Rules { rule := &group.Rules[i] if err := l.loadRule(group, rule); err != nil { return err } }"] /\
  gen_filterInfo_literals = ["loadRule: filterInfo{ Vars: make(map[string]struct{}), group: group, }"] /\
  forallb (fun w => write_by "LoadFile" w || write_by "loadBundle" w || write_by "compileFilterFuncs" w || write_by "loadRuleGroup" w) gen_irLoader_writes = true.
Proof. split; [exact loadRuleGroup_rules_pinned|split; [exact (proj2 filterInfo_pinned)|exact irLoader_writes_outside_rules]]. Qed.
Print Assumptions C06_loader_keeps_nothing_between_rules.

Theorem C06_accepted_rule_placed :
  forall r a, gen_validate r = true -> v_comment r = false -> In a (v_alts r) ->
  exists l, place_of gen_place_cases (a_tag a) = PTags l /\ l <> [] /\ forall t, In t l -> (t < gen_num_buckets)%N.
Proof. exact (accepted_rule_placed gen_num_buckets gen_place_cases gen_kind_names gen_object_names gen_tag_names gen_swap_guard gen_optab). Qed.
Print Assumptions C06_accepted_rule_placed.

Theorem C06_interpolated_names_are_pattern_variables :
  forall tmpl vars v, In v (template_vars tmpl vars) -> In v vars.
Proof. exact referenced_are_variables. Qed.
Print Assumptions C06_interpolated_names_are_pattern_variables.

Theorem C06_errors_located_sites : gen_unlocated_error_sites =
  ["importErrorf: return &ImportError{ msg: fmt.Sprintf(""%s:%d: %s"", l.filename, line, fmt.Sprintf(format, args...)), err: wrapped, }";
   "errorf: return fmt.Errorf(""%s:%d: %s"", l.filename, line, fmt.Sprintf(format, args...))";
   "errorf: return fmt.Errorf(""%s:%d: %s: %w"", l.filename, line, fmt.Sprintf(format, args...), wrapped)";
   "loadExternFile: return nil, fmt.Errorf(""%s: %w"", l.importedPkg, err)";
   "compileFilterFuncs: return fmt.Errorf(""parse custom decls: %w"", err)";
   "gogrepCompile: return gogrep.Compile(gogrepConfig)";
   "newFilter: return l.newBinaryExprFilter(filter, info)";
   "newBinaryExprFilter: return l.newBinaryExprFilter(newFilter, info)";
   "convertAST: return nil, nil, fmt.Errorf(""parse file error: %w"", err)";
   "convertAST: return nil, nil, fmt.Errorf(""typechecker error: %w"", err)";
   "convertAST: return nil, nil, fmt.Errorf(""irconv error: %w"", err)";
   "ConvertFile: panic(rv)";
   "convertDocComments: panic(""unhandled 'doc' pragma: "" + pragma)"].
Proof. exact errors_located_sites. Qed.
Print Assumptions C06_errors_located_sites.

(* error_lines_filled: the line of every loader error is the Line of a bundle import, a rule or a filter expression; the three
   ops whose arguments irconv writes by hand (without a Line) have cases in newFilter that never locate anything at an argument;
   no irconv / compiler error is located at a variable that starts out nil *)
Theorem C06_error_lines_filled :
  gen_loader_line_exprs = ["bundle.Line"; "filter.Line"; "imp.Line"; "rule.Line"] /\
  (forall op, In op gen_irconv_lineless_ops -> exists c, In c gen_newfilter_arg_lines /\ fst c = op /\ snd c = []) /\
  gen_error_zero_locs = [].
Proof.
  split; [exact loader_line_exprs|split; [|exact error_zero_locs]].
  intros op Hin. apply arg_lines_unused_spec. pose proof lineless_args_unlocated as H. rewrite forallb_forall in H. now apply H.
Qed.
Print Assumptions C06_error_lines_filled.

(* binary_filter_terminates: for all comparisons, newBinaryExprFilter (its regenerated swap guard) calls itself at most once --
   Load cannot overflow the stack there -- and an accepted comparison has a variable property on the left and a constant or the
   same property on the right *)
Theorem C06_binary_filter_terminates :
  forall fuel eqop l r, binary_norm gen_swap_guard (2 + fuel) eqop l r = binary_norm gen_swap_guard 2 eqop l r /\
                        binary_norm gen_swap_guard 2 eqop l r <> None.
Proof. exact (binary_norm_terminates gen_swap_guard swap_guard_flips). Qed.
Print Assumptions C06_binary_filter_terminates.

Theorem C06_binary_filter_shape :
  forall eqop l r, binary_ok gen_swap_guard eqop l r = true ->
  exists l' r', binary_norm gen_swap_guard 2 eqop l r = Some (l', r') /\ is_lit l' = false /\ (is_lit r' = true \/ r' = l').
Proof. exact (binary_ok_shape gen_swap_guard). Qed.
Print Assumptions C06_binary_filter_shape.

Theorem C06_loader_panic_sites : gen_loader_panic_sites =
  ["loadRuleGroup: panic(fmt.Sprintf(""duplicated function %s after the typecheck"", l.group.Name))";
   "compile: panic(rv)";
   "internConstant: panic(""compiler error: int constant interned as interface{}"")"].
Proof. exact loader_panic_sites. Qed.
Print Assumptions C06_loader_panic_sites.

(* non-vacuity: rules that are accepted / rejected for each reason *)
Example ex_binary : map (fun x => gen_validate (mkVRule false [mkAlt true 4 ["x"; "y"]] [mkAtom [("VarTypeSize", "x")] [] x] None ["m"]))
    [ChkBinary true OLit OSize; ChkBinary false OLit OSize; ChkBinary true OLit OLit; ChkBinary true OText OText; ChkBinary true OLine OSize; ChkBinary false OValueInt OLit]
  = [true; false; false; true; false; true].
Proof. vm_compute. reflexivity. Qed.
Example ex_accept : gen_validate (mkVRule false [mkAlt true 4 ["x"; "y"]; mkAlt true 4 ["x"; "y"; "z"]]
    [mkAtom [("VarTypeOfKind", "x")] [] (ChkKind "integer"); mkAtom [("VarPure", "$$")] [] ChkNone; mkAtom [] [] (ChkVersion "1.16")] (Some "y") ["$x and $$ cost $5"; "$y"]) = true.
Proof. vm_compute. reflexivity. Qed.
Example ex_reject_at : gen_validate (mkVRule false [mkAlt true 4 ["x"; "y"]] [] (Some "z") ["m"]) = false.
Proof. vm_compute. reflexivity. Qed.
Example ex_reject_where_in_second_alt : gen_validate (mkVRule false [mkAlt true 4 ["x"; "y"]; mkAlt true 4 ["x"; "z"]] [mkAtom [("VarPure", "y")] [] ChkNone] None ["m"]) = false.
Proof. vm_compute. reflexivity. Qed.
Example ex_reject_template : gen_validate (mkVRule false [mkAlt true 4 ["x"; "y"]; mkAlt true 4 ["x"; "z"]] [] None ["y=$y"]) = false.
Proof. vm_compute. reflexivity. Qed.
Example ex_longest_name : template_vars "$xs$x$$x$" ["x"; "xs"] = ["xs"; "x"].
Proof. vm_compute. reflexivity. Qed.
Example ex_reject_longest : gen_validate (mkVRule false [mkAlt true 4 ["x"; "xs"]; mkAlt true 4 ["x"]] [] None ["$xs"]) = false.
Proof. vm_compute. reflexivity. Qed.
Example ex_reject_kind : gen_validate (mkVRule false [mkAlt true 4 ["x"]] [mkAtom [("VarTypeOfKind", "x")] [] (ChkKind "bool")] None ["m"]) = false.
Proof. vm_compute. reflexivity. Qed.
Example ex_reject_version : gen_validate (mkVRule false [mkAlt true 4 ["x"]] [mkAtom [] [] (ChkVersion "1.16.3")] None ["m"]) = false.
Proof. vm_compute. reflexivity. Qed.
Example ex_stmt_list_placed : place_of gen_place_cases 50%N = PTags [5; 8; 10]%N /\ gen_validate (mkVRule false [mkAlt true 50 ["x"]] [] None ["m"]) = true.
Proof. vm_compute. split; reflexivity. Qed.
Example ex_too_general_rejected : gen_validate (mkVRule false [mkAlt true 53 ["x"]] [] None ["m"]) = false.
Proof. vm_compute. reflexivity. Qed.
Example ex_versions : map version_ok ["1.16"; ""; "1"; "1.x"; "+1.-2"; "9223372036854775808.1"; "1.2.3"; "."] = [true; true; false; false; true; false; false; false].
Proof. vm_compute. reflexivity. Qed.

(* every op that takes a variable, applied to a variable no alternative binds, is rejected; to a bound one, accepted *)
Example ex_every_var_op_checked :
  forallb (fun o => implb (mentions_var o)
     (negb (gen_validate (mkVRule false [mkAlt true 4 ["x"; "y"]] [mkAtom [(op_name o, "nosuch")] [] ChkNone] None ["m"])) &&
      gen_validate (mkVRule false [mkAlt true 4 ["x"; "y"]] [mkAtom [(op_name o, "y")] [] ChkNone] None ["m"]))) gen_optab = true
  /\ Nat.leb 26 (List.length (filter mentions_var gen_optab)) = true.
Proof. vm_compute. split; reflexivity. Qed.
Example ex_identical_second_variable : gen_validate (mkVRule false [mkAlt true 4 ["x"; "y"]] [mkAtom [("VarTypeIdenticalTo", "x")] ["z"] ChkNone] None ["m"]) = false.
Proof. vm_compute. reflexivity. Qed.
(* a table that misses the flag on one op lets exactly that op's variable through: the loader accepts what the specification rejects *)
Example ex_leak_without_flag :
  let tab := map (fun o => if String.eqb (op_name o) "VarObjectIsGlobal" then mkOp (op_name o) (op_num o) (op_form o) (op_value_type o) false false false true else o) gen_optab in
  let r := mkVRule false [mkAlt true 4 ["x"; "y"]] [mkAtom [("VarObjectIsGlobal", "nosuch")] [] ChkNone] None ["m"] in
  flags_complete tab = false /\ rule_wf tab r = true /\
  validate gen_num_buckets gen_place_cases gen_kind_names gen_object_names gen_tag_names gen_swap_guard tab r = true /\
  gen_validate_spec r = false /\ gen_validate r = false.
Proof. vm_compute. repeat split; reflexivity. Qed.
(* a loader that keeps the Where texts it has built a filter for (and skips newFilter on a hit) accepts a group whose second rule
   repeats the first one's Where() over a pattern that does not bind the variable; the loader as it is rejects it *)
Example ex_text_cache_leaks :
  let r1 := mkVRule false [mkAlt true 4 ["x"; "y"]] [mkAtom [("VarPure", "x")] [] ChkNone] None ["m"] in
  let r2 := mkVRule false [mkAlt true 10 ["y"]] [mkAtom [("VarPure", "x")] [] ChkNone] None ["m"] in
  let cached := text_cache gen_optab (fun _ => "m[""x""].Pure") in
  load_groups gen_num_buckets gen_place_cases gen_kind_names gen_object_names gen_tag_names gen_swap_guard (list string) cached [] [[r1; r2]] = true /\
  validate_file gen_num_buckets gen_place_cases gen_kind_names gen_object_names gen_tag_names gen_swap_guard gen_optab [[r1; r2]] = false /\
  validate_file gen_num_buckets gen_place_cases gen_kind_names gen_object_names gen_tag_names gen_swap_guard gen_optab [[r1]; [r1]] = true /\
  ~ info_fresh gen_optab (list string) cached.
Proof.
  cbv zeta. repeat split; try (vm_compute; reflexivity).
  intros H. specialize (H ["m[""x""].Pure"] (mkVRule false [mkAlt true 10 ["y"]] [mkAtom [("VarPure", "x")] [] ChkNone] None ["m"])).
  vm_compute in H. discriminate.
Qed.
(* the obligation about argument lines is not vacuous: three ops have hand-written arguments, and a case that takes the line of
   its argument is refuted *)
Example ex_lineless_ops : gen_irconv_lineless_ops = ["FilterVarContainsOp"; "FilterVarFilterOp"; "FilterVarTypeIdenticalToOp"].
Proof. reflexivity. Qed.
Example ex_arg_line_refuted : arg_lines_unused [("FilterVarContainsOp", ["arg.Line"])] "FilterVarContainsOp" = false.
Proof. reflexivity. Qed.
