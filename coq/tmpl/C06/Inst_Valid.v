(* C06 -- obligations about the tables and code REGENERATED from /repo on this run (Gen_Place.v, Gen_Valid.v). *)
From Coq Require Import List String Bool ZArith NArith.
From RG.Load Require Import Place Validate.
From RGW Require Import Gen_Place Gen_Valid Gen_Errs.
Import ListNotations.
Local Open Scope string_scope.

(* every tag value a compiled pattern can have (the Tag of any entry of gogrep's operation table) is rejected with an error or filed into
   at least one bucket inside rulesByTag: loadSyntaxRule cannot index out of range and cannot lose a rule *)
Lemma place_total_gen : place_tags_ok gen_num_buckets gen_place_cases gen_pattern_tags = true.
Proof. vm_compute. reflexivity. Qed.

Lemma nodetags_dense : map snd gen_nodetags = all_tags (List.length gen_nodetags).
Proof. vm_compute. reflexivity. Qed.

Lemma place_loop_pinned : gen_place_loop =
  ["for _, tag := range dstTags { dst.rulesByTag[tag] = append(dst.rulesByTag[tag], result) }"; "dst.categorizedNum++"; "return nil"].
Proof. reflexivity. Qed.

(* the variable checks have the shape the model (Validate.v) was written against *)
Lemma checkBoundVars_pinned : gen_body_checkBoundVars =
  ["for filterVar := range filterInfo.Vars { if filterVar == ""$$"" { continue } if !bound(filterVar) { return l.errorf(rule.Line, nil, ""filter refers to a non-existing var %s"", filterVar) } }";
   "if rule.LocationVar != """" && rule.LocationVar != ""$$"" && !bound(rule.LocationVar) { return l.errorf(rule.Line, nil, ""location refers to a non-existing var %s"", rule.LocationVar) }";
   "return nil"].
Proof. reflexivity. Qed.

Lemma loadSyntaxRule_checks_pinned : gen_body_loadSyntaxRule =
  ["result := resultProto";
   "result.line = line";
   "pat, info, err := l.gogrepCompile(group, src)";
   "if err != nil { return l.errorf(rule.Line, err, ""parse match pattern"") }";
   "result.pat = pat";
   "err = l.checkBoundVars(rule, filterInfo, func(name string) bool { _, ok := info.Vars[name] return ok })";
   "if err != nil { return err }"].
Proof. reflexivity. Qed.

Lemma loadCommentRule_checks_pinned : gen_body_loadCommentRule =
  ["dst := l.res.universal";
   "pat, err := regexp.Compile(src)";
   "if err != nil { return l.errorf(rule.Line, err, ""compile regexp"") }";
   "err = l.checkBoundVars(rule, filterInfo, func(name string) bool { return pat.SubexpIndex(name) != -1 })";
   "if err != nil { return err }"].
Proof. reflexivity. Qed.

Lemma templateVars_pinned : gen_body_templateVars =
  ["var result []string";
   "for i := 0; i < len(template); i++ { if template[i] != '$' { continue } rest := template[i+1:] if strings.HasPrefix(rest, ""$"") { i++ continue } longest := """" for name := range vars { if len(name) > len(longest) && strings.HasPrefix(rest, name) { longest = name } } if longest != """" { result = append(result, longest) i += len(longest) } }";
   "return result"].
Proof. reflexivity. Qed.

Lemma checkTemplateVars_pinned : gen_body_checkTemplateVars =
  ["if len(rule.SyntaxPatterns)+len(rule.CommentPatterns) < 2 { return nil }";
   "if !strings.Contains(rule.ReportTemplate, ""$"") && !strings.Contains(rule.SuggestTemplate, ""$"") { return nil }";
   "var alternatives []map[string]struct{}";
   "for _, pat := range rule.SyntaxPatterns { _, info, err := l.gogrepCompile(group, pat.Value) if err != nil { return nil } alternatives = append(alternatives, info.Vars) }";
   "for _, pat := range rule.CommentPatterns { re, err := regexp.Compile(pat.Value) if err != nil { return nil } vars := make(map[string]struct{}) for _, name := range re.SubexpNames() { if name != """" { vars[name] = struct{}{} } } alternatives = append(alternatives, vars) }";
   "allVars := make(map[string]struct{})";
   "for _, vars := range alternatives { for name := range vars { allVars[name] = struct{}{} } }";
   "for _, template := range []string{rule.ReportTemplate, rule.SuggestTemplate} { for _, name := range templateVars(template, allVars) { for _, vars := range alternatives { if _, ok := vars[name]; !ok { return l.errorf(rule.Line, nil, ""template refers to a var %s that is not bound by every pattern"", name) } } } }";
   "return nil"].
Proof. reflexivity. Qed.

Lemma ParseGoVersion_pinned : gen_body_ParseGoVersion =
  ["var result GoVersion";
   "if version == """" { return GoVersion{}, nil }";
   "parts := strings.Split(version, ""."")";
   "if len(parts) != 2 { return result, fmt.Errorf(""invalid format: %s"", version) }";
   "major, err := strconv.Atoi(parts[0])";
   "if err != nil { return result, fmt.Errorf(""invalid major version part: %s: %s"", parts[0], err) }";
   "minor, err := strconv.Atoi(parts[1])";
   "if err != nil { return result, fmt.Errorf(""invalid minor version part: %s: %s"", parts[1], err) }";
   "result.Major = major";
   "result.Minor = minor";
   "return result, nil"].
Proof. reflexivity. Qed.

(* ---------------------------------------------------------------- what the loader keeps from one rule to the next *)
(* loadRule: the filterInfo of a rule is a NEW table (the only composite literal of that type), filled by newFilter from the rule's own
   Where expression whenever the rule has one -- no other condition --, and handed by value to the pattern loaders, which hand it
   to checkBoundVars (pinned above); loadRuleGroup runs loadRule on every rule in order and stops at the first error.  This is
   [info_fresh] of Validate.v for the state-free loader [no_state]. *)
Lemma loadRule_pinned : gen_body_loadRule =
  ["proto := goRule{ line: rule.Line, group: l.group, suggestion: rule.SuggestTemplate, msg: rule.ReportTemplate, location: rule.LocationVar, }";
   "if rule.DoFuncName != """" { doFn := l.state.env.GetFunc(l.file.PkgPath, rule.DoFuncName) if doFn == nil { return l.errorf(rule.Line, nil, ""can't find a compiled version of %s"", rule.DoFuncName) } proto.do = doFn }";
   "info := filterInfo{ Vars: make(map[string]struct{}), group: group, }";
   "if rule.WhereExpr.IsValid() { filter, err := l.newFilter(rule.WhereExpr, &info) if err != nil { return err } proto.filter = filter }";
   "if err := l.checkTemplateVars(group, rule); err != nil { return err }";
   "for _, pat := range rule.SyntaxPatterns { if err := l.loadSyntaxRule(group, proto, info, rule, pat.Value, pat.Line); err != nil { return err } }";
   "for _, pat := range rule.CommentPatterns { if err := l.loadCommentRule(proto, info, rule, pat.Value, pat.Line); err != nil { return err } }";
   "return nil"].
Proof. reflexivity. Qed.

Lemma loadRuleGroup_rules_pinned : gen_loadRuleGroup_rules =
  ["for i := range group.Rules { rule := &group.Rules[i] if err := l.loadRule(group, rule); err != nil { return err } }"].
Proof. reflexivity. Qed.

(* loadRuleGroup: the group is registered, its import table (m.Import) is a scope that is entered before the rules and left when
   the function returns -- on the error paths too --, the imports of the group are loaded into it, then the rules *)
Lemma loadRuleGroup_pinned : gen_body_loadRuleGroup =
  ["l.group = &GoRuleGroup{ Line: group.Line, Filename: l.filename, Name: group.Name, DocSummary: group.DocSummary, DocBefore: group.DocBefore, DocAfter: group.DocAfter, DocNote: group.DocNote, DocTags: group.DocTags, }";
   "if l.prefix != """" { l.group.Name = l.prefix + ""/"" + l.group.Name }";
   "if l.ctx.GroupFilter != nil && !l.ctx.GroupFilter(l.group) { return nil }";
   "if _, ok := l.res.groups[l.group.Name]; ok { panic(fmt.Sprintf(""duplicated function %s after the typecheck"", l.group.Name)) }";
   "l.res.groups[l.group.Name] = l.group";
   "l.itab.EnterScope()";
   "defer l.itab.LeaveScope()";
   "for _, imported := range group.Imports { l.itab.Load(imported.Name, imported.Path) }";
   "for i := range group.Rules { rule := &group.Rules[i] if err := l.loadRule(group, rule); err != nil { return err } }";
   "return nil"].
Proof. reflexivity. Qed.

Lemma filterInfo_pinned :
  gen_filterInfo_fields = ["Vars map[string]struct{}"; "group *ir.RuleGroup"] /\
  gen_filterInfo_literals = ["loadRule: filterInfo{ Vars: make(map[string]struct{}), group: group, }"].
Proof. split; reflexivity. Qed.

(* the state of the loader: its fields, and every assignment a method of the loader makes to something rooted at the loader.  None is
   made by loadRule or below it (newFilter, the pattern loaders, the checks): nothing a rule computes is kept for the next one.  The
   writes of loadRuleGroup are the GoRuleGroup of the group and its registration. *)
Lemma irLoader_fields_pinned : gen_irLoader_fields =
  ["state *engineState"; "ctx *LoadContext"; "itab *typematch.ImportsTab"; "pkg *types.Package"; "file *ir.File"; "gogrepFset *token.FileSet";
   "filename string"; "res *goRuleSet"; "importer *goImporter"; "group *GoRuleGroup"; "prefix string"; "importedPkg string";
   "imported []*goRuleSet"].
Proof. reflexivity. Qed.

Definition write_by (fn : string) (w : string) : bool := String.prefix (fn ++ ": ") w.

Lemma irLoader_writes_outside_rules :
  forallb (fun w => write_by "LoadFile" w || write_by "loadBundle" w || write_by "compileFilterFuncs" w || write_by "loadRuleGroup" w) gen_irLoader_writes = true.
Proof. vm_compute. reflexivity. Qed.

Lemma irLoader_group_writes : filter (write_by "loadRuleGroup") gen_irLoader_writes =
  ["loadRuleGroup: l.group = &GoRuleGroup{ Line: group.Line, Filename: l.filename, Name: group.Name, DocSummary: group.DocSummary, DocBefore: group.DocBefore, DocAfter: group.DocAfter, DocNote: group.DocNote, DocTags: group.DocTags, }";
   "loadRuleGroup: l.group.Name = l.prefix + ""/"" + l.group.Name";
   "loadRuleGroup: l.res.groups[l.group.Name] = l.group"].
Proof. vm_compute. reflexivity. Qed.

(* errors_located: apart from the two locating helpers themselves, the only places of the load path that build an error value
   without the rules-file location are wrappers around errors that carry it (parser / type checker / irconv / bundle file /
   custom declarations), and irconv re-raises only foreign panics *)
Lemma errors_located_sites : gen_unlocated_error_sites =
  ["importErrorf: return &ImportError{ msg: fmt.Sprintf(""%s:%d: %s"", l.filename, line, fmt.Sprintf(format, args...)), err: wrapped, }";
   "errorf: return fmt.Errorf(""%s:%d: %s"", l.filename, line, fmt.Sprintf(format, args...))";
   "errorf: return fmt.Errorf(""%s:%d: %s: %w"", l.filename, line, fmt.Sprintf(format, args...), wrapped)";
   "loadExternFile: return nil, fmt.Errorf(""%s: %w"", l.importedPkg, err)";
   "compileFilterFuncs: return fmt.Errorf(""parse custom decls: %w"", err)";
   "gogrepCompile: return gogrep.Compile(gogrepConfig)";
   "newFilter: return l.newBinaryExprFilter(filter, info)";
   "newBinaryExprFilter: return l.newBinaryExprFilter(newFilter, info)";
   "convertAST: return nil, nil, fmt.Errorf(""parse file error: %w"", err)";
   "convertAST: return nil, nil, fmt.Errorf(""typechecker error: %w"", err)";
   "convertAST: return nil, nil, fmt.Errorf(""irconv error: %w"", err)";
   "ConvertFile: panic(rv)";
   "convertDocComments: panic(""unhandled 'doc' pragma: "" + pragma)"].
Proof. reflexivity. Qed.

(* explicit panics of the loader and of the bytecode compiler that are not located errors: the duplicate-name panic of
   loadRuleGroup cannot be reached from a source file (irconv rejects equal-named groups, C18 pins that loop; LoadFile's model
   in C13 assumes distinct names), quasigo.compile re-raises foreign panics, internConstant guards an internal invariant *)
Lemma loader_panic_sites : gen_loader_panic_sites =
  ["loadRuleGroup: panic(fmt.Sprintf(""duplicated function %s after the typecheck"", l.group.Name))";
   "compile: panic(rv)";
   "internConstant: panic(""compiler error: int constant interned as interface{}"")"].
Proof. reflexivity. Qed.

(* located compile errors built from an interface-typed parameter of the enclosing function (a nil one crashes in Pos()):
   exactly the parameters that every caller passes a node of the function being compiled *)
Lemma quasigo_errorf_params : gen_quasigo_errorf_interface_params =
  ["compileStmt: stmt";
   "getLocal: v";
   "getLocal: v";
   "compileExpr: e";
   "compileExpr: e";
   "compileConstantValue: source";
   "compileConstantValue: source";
   "compileConstantValue: source";
   "compileConstantValue: source";
   "compileConstantValue: source";
   "compileConstantValue: source";
   "errorUnsupportedType: e"].
Proof. reflexivity. Qed.

(* the LINE of a loader error (Gen_Errs.v, go2coq errsitescoq): the loader locates its errors at the Line of an IR node -- a bundle
   import, a rule, a filter expression -- and irconv fills the Line of every IR node it builds except the three arguments it
   writes by hand (the sub-pattern of Contains, the variable of Type.IdenticalTo, the function of Filter).  The cases of
   newFilter for exactly those ops never take the line of an argument: neither `x.Line` for an x other than the filter, nor
   an unwrap helper (which reports at the line of the node it is given). *)
Lemma loader_line_exprs : gen_loader_line_exprs = ["bundle.Line"; "filter.Line"; "imp.Line"; "rule.Line"].
Proof. reflexivity. Qed.

Lemma ir_line_fields : gen_ir_line_fields = ["BundleImport"; "FilterExpr"; "PatternString"; "Rule"; "RuleGroup"].
Proof. reflexivity. Qed.

Lemma irconv_lineless : gen_irconv_lineless =
  ["convertFilterExprImpl: FilterVarContainsOp: {Op: ir.FilterStringOp, Value: pat}";
   "convertFilterExprImpl: FilterVarTypeIdenticalToOp: {Op: ir.FilterStringOp, Value: rhsVarname}";
   "convertFilterExprImpl: FilterVarFilterOp: {Op: ir.FilterFilterFuncRefOp, Value: funcName.String()}"].
Proof. reflexivity. Qed.

Definition arg_lines_unused (cases : list (string * list string)) (op : string) : bool :=
  match find (fun c => String.eqb (fst c) op) cases with
  | Some (_, []) => true
  | _ => false
  end.

Lemma lineless_args_unlocated : forallb (arg_lines_unused gen_newfilter_arg_lines) gen_irconv_lineless_ops = true.
Proof. vm_compute. reflexivity. Qed.

Lemma arg_lines_unused_spec : forall cases op, arg_lines_unused cases op = true ->
  exists c, In c cases /\ fst c = op /\ snd c = [].
Proof.
  intros cases op H. unfold arg_lines_unused in H.
  destruct (find (fun c => String.eqb (fst c) op) cases) as [[o u]|] eqn:E; [|discriminate].
  destruct u; [|discriminate]. apply find_some in E. destruct E as [Hin Heq]. cbn [fst] in Heq.
  exists (o, []). split; [assumption|]. split; [now apply String.eqb_eq|reflexivity].
Qed.

(* an error of irconv / of the bytecode compiler is located at a node; no such node is a variable that was declared without a
   value (and so is nil on the paths that do not assign it) *)
Lemma error_zero_locs : gen_error_zero_locs = [].
Proof. reflexivity. Qed.

(* newBinaryExprFilter: one recursive call, under the regenerated guard, with the two operands exchanged *)
Lemma newBinaryExprFilter_pinned : gen_body_newBinaryExprFilter =
  ["if filter.Op == ir.FilterAndOp || filter.Op == ir.FilterOrOp { result := matchFilter{src: filter.Src} lhs, err := l.newFilter(filter.Args[0], info) if err != nil { return result, err } rhs, err := l.newFilter(filter.Args[1], info) if err != nil { return result, err } if filter.Op == ir.FilterAndOp { result.fn = makeAndFilter(lhs, rhs) } else { result.fn = makeOrFilter(lhs, rhs) } return result, nil }";
   "if GUARD { switch filter.Args[0].Value.(type) { case string, int64: switch filter.Op { case ir.FilterEqOp, ir.FilterNeqOp: newFilter := filter newFilter.Args = []ir.FilterExpr{filter.Args[1], filter.Args[0]} return l.newBinaryExprFilter(newFilter, info) } } }";
   "result := matchFilter{src: filter.Src}";
   "var tok token.Token";
   "switch filter.Op { case ir.FilterEqOp: tok = token.EQL case ir.FilterNeqOp: tok = token.NEQ case ir.FilterGtOp: tok = token.GTR case ir.FilterGtEqOp: tok = token.GEQ case ir.FilterLtOp: tok = token.LSS case ir.FilterLtEqOp: tok = token.LEQ default: return result, l.errorf(filter.Line, nil, ""unsupported operator in binary expr: %s"", result.src) }";
   "lhs := filter.Args[0]";
   "rhs := filter.Args[1]";
   "for _, operand := range filter.Args { if operand.HasVar() { info.Vars[operand.Value.(string)] = struct{}{} } }";
   "var rhsValue constant.Value";
   "switch rhs.Op { case ir.FilterStringOp: rhsValue = constant.MakeString(rhs.Value.(string)) case ir.FilterIntOp: rhsValue = constant.MakeInt64(rhs.Value.(int64)) }";
   "switch lhs.Op { case ir.FilterVarLineOp: if rhsValue != nil { result.fn = makeLineConstFilter(result.src, lhs.Value.(string), tok, rhsValue) } else if rhs.Op == lhs.Op { result.fn = makeLineFilter(result.src, lhs.Value.(string), tok, rhs.Value.(string)) } case ir.FilterVarTypeSizeOp: if rhsValue != nil { result.fn = makeTypeSizeConstFilter(result.src, lhs.Value.(string), tok, rhsValue) } else if rhs.Op == lhs.Op { result.fn = makeTypeSizeFilter(result.src, lhs.Value.(string), tok, rhs.Value.(string)) } case ir.FilterVarValueIntOp: if rhsValue != nil { result.fn = makeValueIntConstFilter(result.src, lhs.Value.(string), tok, rhsValue) } else if rhs.Op == lhs.Op { result.fn = makeValueIntFilter(result.src, lhs.Value.(string), tok, rhs.Value.(string)) } case ir.FilterVarTextOp: if rhsValue != nil { result.fn = makeTextConstFilter(result.src, lhs.Value.(string), tok, rhsValue) } else if rhs.Op == lhs.Op { result.fn = makeTextFilter(result.src, lhs.Value.(string), tok, rhs.Value.(string)) } }";
   "if result.fn == nil { return result, l.errorf(filter.Line, nil, ""unsupported binary expr: %s"", result.src) }";
   "return result, nil"].
Proof. reflexivity. Qed.

(* the regenerated guard of that recursive call: a pair of operands that is swapped is not swapped back *)
Lemma swap_guard_flips : guard_flips gen_swap_guard.
Proof. intros a b. destruct a, b; vm_compute; congruence. Qed.

(* ---------------------------------------------------------------- the filter-op flag table (ir/filter_op.gen.go) *)
(* every op whose DSL form takes a variable (m[$Value]...) has flagHasVar: newFilter / newBinaryExprFilter record the variable of
   every such node, so checkBoundVars sees every variable a Where clause mentions *)
Lemma optab_flags_complete : flags_complete gen_optab = true.
Proof. vm_compute. reflexivity. Qed.

(* flagHasVar only on ops whose $Value is a variable name held as a string: filter.Value.(string) in newFilter cannot fail *)
Lemma optab_flags_sound : flags_sound gen_optab = true.
Proof. vm_compute. reflexivity. Qed.

(* binary ops have the two operands newBinaryExprFilter indexes, literal ops hold a string or an int64, the three classes are disjoint *)
Lemma optab_flags_shape : flags_shape gen_optab = true.
Proof. vm_compute. reflexivity. Qed.

(* the table is a function of the op: names distinct, numbers dense from 0 (the constants are the indices the generator wrote) *)
Lemma optab_names_distinct : nodupb (map op_name gen_optab) = true.
Proof. vm_compute. reflexivity. Qed.
Lemma optab_numbers_dense : map op_num gen_optab = seq 0 (List.length gen_optab).
Proof. vm_compute. reflexivity. Qed.

(* the flags are read through the three accessors only, and by the loader exactly at the sites the model was written against *)
Lemma flag_consts_pinned : gen_flag_consts = ["flagIsBinaryExpr uint64 = 1 << iota"; "flagIsBasicLit"; "flagHasVar"].
Proof. reflexivity. Qed.
Lemma flag_accessors_pinned : gen_flag_accessors =
  ["HasVar: return filterOpFlags[e.Op]&flagHasVar != 0";
   "IsBasicLit: return filterOpFlags[e.Op]&flagIsBasicLit != 0";
   "IsBinaryExpr: return filterOpFlags[e.Op]&flagIsBinaryExpr != 0"].
Proof. reflexivity. Qed.
Lemma flag_uses_pinned : gen_flag_uses =
  ["newFilter: filter.HasVar()";
   "newFilter: filter.IsBinaryExpr()";
   "newBinaryExprFilter: filter.Args[0].IsBasicLit()";
   "newBinaryExprFilter: filter.Args[1].IsBasicLit()";
   "newBinaryExprFilter: operand.HasVar()"].
Proof. reflexivity. Qed.

(* newFilter: records the variable of a flagged node first, hands binary ops over, recurses through Not with the same table of
   variables, records the second variable of Type.IdenticalTo by hand *)
Lemma newFilter_prologue_pinned : gen_newFilter_prologue =
  ["if filter.HasVar() { info.Vars[filter.Value.(string)] = struct{}{} }";
   "if filter.IsBinaryExpr() { return l.newBinaryExprFilter(filter, info) }";
   "result := matchFilter{src: filter.Src}"].
Proof. reflexivity. Qed.
Lemma newFilter_not_case_pinned : gen_newFilter_not_case =
  ["x, err := l.newFilter(filter.Args[0], info)";
   "if err != nil { return result, err }";
   "result.fn = makeNotFilter(result.src, x)"].
Proof. reflexivity. Qed.
Lemma newFilter_identical_case_pinned : gen_newFilter_identical_case =
  ["lhsVarname := filter.Value.(string)";
   "rhsVarname := filter.Args[0].Value.(string)";
   "info.Vars[rhsVarname] = struct{}{}";
   "result.fn = makeTypesIdenticalFilter(result.src, lhsVarname, rhsVarname)"].
Proof. reflexivity. Qed.

(* every op that takes a variable and is a predicate has a case in newFilter's switch; the four value-typed ones are the left
   operands newBinaryExprFilter knows (its pinned body above) *)
Lemma var_ops_handled :
  map op_name (filter (fun o => mentions_var o && negb (op_handled o)) gen_optab) = ["VarText"; "VarLine"; "VarValueInt"; "VarTypeSize"].
Proof. vm_compute. reflexivity. Qed.

Definition gen_validate := validate gen_num_buckets gen_place_cases gen_kind_names gen_object_names gen_tag_names gen_swap_guard gen_optab.
Definition gen_validate_spec := validate_spec gen_num_buckets gen_place_cases gen_kind_names gen_object_names gen_tag_names gen_swap_guard.
