(* Instance of RG.Locks for the lock protocol regenerated from /repo/ruleguard (Gen_Locks.v): re-proved on every check. *)
From Coq Require Import List NArith String Bool.
From RG.Locks Require Import Model Sites Cache Confine Progress Frozen.
From RGW Require Import Gen_Locks.
Import ListNotations.
Local Open Scope N_scope.

(* ---------------------------------------------------------------- names *)
Definition mutex_named (n : string) : option N :=
  option_map (fun e => fst (fst e)) (find (fun e => String.eqb (snd (fst e)) n) gen_mutexes).

Definition field_named (n : string) : option N :=
  option_map fst (find (fun e => String.eqb (snd e) n) gen_fields).

Definition field_name (f : N) : option string :=
  option_map snd (find (fun e => N.eqb (fst e) f) gen_fields).

Definition func_name (i : N) : string :=
  match find (fun e => N.eqb (fst e) i) gen_funcs with Some e => snd e | None => "?"%string end.

(* ---------------------------------------------------------------- the guard table *)
(* the reviewed table: which lock protects which field of the engine-wide state *)
Definition explicit_class (name : string) : option fclass :=
  if String.eqb name "engineState.typeByFQN" then option_map Guarded (mutex_named "engineState.typeByFQNMu")
  else if String.eqb name "engineState.pkgCache" then option_map Guarded (mutex_named "engineState.pkgCacheMu")
  else if String.eqb name "engine.state" then Some Frozen
  else if String.eqb name "engine.ruleSet" then Some Frozen
  else if String.eqb name "engineState.env" then Some Frozen
  else None.

(* a field that is not in the table: the lock that is held at every one of its access sites (lockset intersection),
   or Frozen (never written while Run calls are in flight) when there is none *)
Definition sites_of (f : N) := filter (fun s => N.eqb (snd (fst (fst s))) f) gen_sites.

Definition common_locks (f : N) : list N :=
  filter (fun m => forallb (fun s => holds m (snd s)) (sites_of f)) (map (fun e => fst (fst e)) gen_mutexes).

Definition inferred_class (f : N) : fclass :=
  match common_locks f with m :: _ => Guarded m | [] => Frozen end.

Definition guard (f : N) : fclass :=
  match field_name f with
  | Some n => match explicit_class n with Some c => c | None => inferred_class f end
  | None => Frozen
  end.

(* ---------------------------------------------------------------- obligations over the regenerated paths *)
Definition run_progs : list (list op) := map (fun p => map fst (snd p)) gen_run_paths.

Lemma sites_disciplined : disciplined guard run_progs = true.
Proof. vm_compute. reflexivity. Qed.

(* the hooks this check itself calls from many goroutines (instrumentation, build tag verif) obey the discipline too;
   other families' hooks are not part of the shipped code and are not judged here *)
Definition own_hook (n : string) : bool :=
  String.eqb n "VerifFindType" || String.eqb n "VerifTypeCache" || String.eqb n "VerifPkgCache".

Lemma own_hooks_disciplined :
  forallb (fun p : string * list (op * N) => negb (own_hook (fst p)) || ok guard [] (map fst (snd p))) gen_hook_paths
  && forallb (fun n => existsb (fun p : string * list (op * N) => String.eqb (fst p) n) gen_hook_paths)
             ["VerifFindType"; "VerifTypeCache"; "VerifPkgCache"]%string = true.
Proof. vm_compute. reflexivity. Qed.

(* the two caches are really guarded (the table above did not silently fall back) *)
Lemma caches_guarded :
  match field_named "engineState.typeByFQN", field_named "engineState.pkgCache" with
  | Some f1, Some f2 =>
      match guard f1, guard f2 with
      | Guarded m1, Guarded m2 => negb (N.eqb m1 m2)
      | _, _ => false
      end
  | _, _ => false
  end = true.
Proof. vm_compute. reflexivity. Qed.

(* the race-freedom theorem for the extracted protocol: ANY number of threads, each executing ANY of the extracted
   paths (Run, the cache functions, the natives, hooks ...), under ANY interleaving *)
Theorem run_paths_race_free :
  forall progs, incl progs run_progs ->
  forall s, reachable (init progs) s -> ~ race s.
Proof. apply (disciplined_set_race_free guard run_progs sites_disciplined). Qed.

Theorem run_paths_writer_excludes :
  forall progs, incl progs run_progs ->
  forall s, reachable (init progs) s ->
  forall m, (total (m, MW) (threads s) <= 1 /\ (total (m, MW) (threads s) = 1 -> total (m, MR) (threads s) = 0))%nat.
Proof.
  intros progs I. apply (writer_excludes guard).
  eapply disciplined_incl; [exact sites_disciplined | exact I].
Qed.

(* lock order: the type cache's mutex is taken before the package cache's (FindType imports under its write lock);
   any further mutex ranks after them in declaration order *)
Definition rank (m : N) : nat :=
  match mutex_named "engineState.typeByFQNMu", mutex_named "engineState.pkgCacheMu" with
  | Some a, Some b => if N.eqb m a then 0%nat else if N.eqb m b then 1%nat else (2 + N.to_nat m)%nat
  | _, _ => N.to_nat m
  end.

Lemma run_paths_ordered : all_ordered rank run_progs = true.
Proof. vm_compute. reflexivity. Qed.

(* no deadlock: whatever the interleaving, as long as some call is unfinished some call can take a step *)
Theorem run_paths_deadlock_free :
  forall progs, incl progs run_progs ->
  forall s, reachable (init progs) s ->
    (exists t, In t (threads s) /\ ~ finished t) -> exists s', step s s'.
Proof. apply (ordered_set_progress guard rank run_progs sites_disciplined run_paths_ordered). Qed.

(* the site table emitted by the translator is the one the paths give *)
Definition held_sub (a b : list (mutex * mode)) : bool := forallb (fun k => Nat.eqb (cnt k a) (cnt k b)) (a ++ b).

Definition nsite_eqb (a b : string * N * bool * list (mutex * mode)) : bool :=
  let '(fa, xa, wa, ha) := a in let '(fb, xb, wb, hb) := b in
  String.eqb fa fb && N.eqb xa xb && Bool.eqb wa wb && held_sub ha hb.

Definition computed_sites : list (string * N * bool * list (mutex * mode)) :=
  flat_map (fun p => map (fun s : site => let '(i, f, w, h) := s in (func_name i, f, w, h)) (path_sites [] (snd p))) gen_run_paths.

Lemma site_table_matches :
  forallb (fun s => existsb (nsite_eqb s) gen_sites) computed_sites
  && forallb (fun s => existsb (nsite_eqb s) computed_sites) gen_sites = true.
Proof. vm_compute. reflexivity. Qed.

Lemma site_table_disciplined :
  forallb (fun s : string * N * bool * list (mutex * mode) =>
             let '(_, f, w, h) := s in site_okb guard (0, f, w, h)) gen_sites = true.
Proof. vm_compute. reflexivity. Qed.

(* values of guarded reference-typed fields never leave their critical section *)
Lemma escapes_frozen :
  forallb (fun e : string * N => match guard (snd e) with Frozen => true | Guarded _ => false end) gen_escapes = true.
Proof. vm_compute. reflexivity. Qed.

(* ---------------------------------------------------------------- FindType follows the cache protocol *)
Definition findtype_paths : list (list op) :=
  map (fun p => map fst (snd p))
      (filter (fun p => String.eqb (fst p) "(*engineState).FindType") gen_run_paths).

Lemma findtype_paths_conform :
  match mutex_named "engineState.typeByFQNMu", field_named "engineState.typeByFQN" with
  | Some m, Some f =>
      negb (Nat.eqb (List.length findtype_paths) 0)
      && forallb (conforms m f) findtype_paths
      (* the dependency answer (no access), hit, miss+error and miss+store are all present *)
      && existsb (fun p => Nat.eqb (List.length (filter (on_mf m f) p)) 0) findtype_paths
      && existsb (fun p => Nat.eqb (List.length (filter (on_mf m f) p)) 3) findtype_paths
      && existsb (fun p => Nat.eqb (List.length (filter (on_mf m f) p)) 5) findtype_paths
      && existsb (fun p => Nat.leb 6 (List.length (filter (on_mf m f) p))) findtype_paths
  | _, _ => false
  end = true.
Proof. vm_compute. reflexivity. Qed.

(* nobody else writes the type cache while Run calls are in flight *)
Lemma typecache_writers :
  forallb (fun s : string * N * bool * list (mutex * mode) =>
             let '(fn, f, w, _) := s in
             negb (w && match field_named "engineState.typeByFQN" with Some x => N.eqb f x | None => true end)
             || String.eqb fn "(*engineState).FindType" || String.eqb fn "(*engineState).findTypeNoCache") gen_sites = true.
Proof. vm_compute. reflexivity. Qed.

(* ---------------------------------------------------------------- confinement of everything else *)
Definition per_run_owners : list string :=
  ["RunnerState"; "rulesRunner"; "filterParams"; "nodePath"; "astWalker"; "goImporter"; "matchData";
   "gogrep.MatcherState"; "typematch.MatcherState"; "quasigo.EvalEnv"; "quasigo.ValueStack";
   "xsrcimporter.srcImporter"]%string.

Definition guarded_fields : list (string * string) :=
  [("engineState", "typeByFQN"); ("engineState", "pkgCache")]%string.

Definition inventory : list (string * list string) := map (fun e => (fst e, map fst (snd e))) gen_structs.

Lemma run_writes_confined : forallb (confinedb per_run_owners guarded_fields inventory) gen_run_writes = true.
Proof. vm_compute. reflexivity. Qed.

(* ---------------------------------------------------------------- what is shared without a lock is read-only
   gen_run_writes now covers every package of the module that run-reachable code calls; gen_loadtime_types is the
   regenerated set of struct types reachable from engine.ruleSet / engineState.env / the captures of the filter closures *)

(* the scan is closed: a run-reachable function uses functions of scanned packages only, and none that is declared
   load-only (whose writes are therefore not in gen_run_writes) *)
Lemma run_xcalls_closed :
  forallb (fun x : string * string * string =>
             let '(_, pkg, callee) := x in str_in pkg gen_scanned_pkgs && negb (str_in callee gen_load_only)) gen_run_xcalls
  && negb (Nat.eqb (List.length gen_run_xcalls) 0) = true.
Proof. vm_compute. reflexivity. Qed.

(* the object graph really contains what Load builds (the reachability did not silently lose a branch) *)
Lemma loadtime_types_expected :
  forallb (fun n => str_in n gen_loadtime_types)
          ["goRuleSet"; "scopedGoRuleSet"; "goRule"; "goCommentRule"; "matchFilter"; "GoRuleGroup";
           "quasigo.Env"; "quasigo.Func"; "typematch.Pattern"; "typematch.pattern";
           "textmatch.containsLiteralMatcher"; "textmatch.prefixLiteralMatcher"; "textmatch.suffixLiteralMatcher";
           "textmatch.eqLiteralMatcher"; "textmatch.prefixRunePredMatcher";
           "dslTypesPackage"; "dslVarFilterContext"; "dslDoContext"; "dslTypesType"]%string
  && forallb (fun n => str_in n gen_loadtime_external) ["regexp.Regexp"; "gogrep.Pattern"; "types.Type"; "types.Interface"]%string
  (* every filter constructor is accounted for: the closures capture nothing but their parameters *)
  && forallb (fun n => existsb (fun e : string * list string => String.eqb (fst e) n) gen_filter_captures)
             ["makeTypeIsFilter"; "makeRootSinkTypeIsFilter"; "makeVarContainsFilter"; "makeCustomVarFilter"; "makeTextMatchesFilter";
              "makeFilePkgPathMatchesFilter"; "makeTypeImplementsFilter"]%string = true.
Proof. vm_compute. reflexivity. Qed.

(* no Load-time struct is an owner that confinement admits *)
Lemma loadtime_disjoint : disjointb per_run_owners guarded_fields gen_loadtime_types = true.
Proof. vm_compute. reflexivity. Qed.

(* Load-time structs are inventoried and carry no synchronisation primitive of their own (a lock or an atomic inside a
   pattern / matcher / compiled function would be shared state behind a protocol this model does not know) *)
Lemma loadtime_structs_plain :
  forallb (fun n => match find (fun e : string * list (string * string) => String.eqb (fst e) n) gen_structs with
                    | Some e => forallb (fun f : string * string => negb (has_sub "sync." (snd f)) && negb (has_sub "atomic." (snd f))) (snd e)
                    | None => false
                    end) gen_loadtime_types = true.
Proof. vm_compute. reflexivity. Qed.

(* values of other modules' types that Load creates are only used through methods documented as safe for concurrent
   use (regexp.Regexp: everything but the configuration method Longest; gogrep.Pattern: matching against a caller-owned
   MatcherState) *)
Definition ext_read_only (tp m : string) : bool :=
  if String.eqb tp "regexp.Regexp" then
    str_in m ["FindStringIndex"; "FindStringSubmatchIndex"; "FindIndex"; "FindSubmatchIndex"; "FindStringSubmatch"; "FindString";
              "MatchString"; "Match"; "SubexpNames"; "SubexpIndex"; "NumSubexp"; "String"]%string
  else if String.eqb tp "gogrep.Pattern" then str_in m ["MatchNode"; "NodeTag"]%string
  else false.

Lemma run_extcalls_read_only :
  forallb (fun x : string * string * string => let '(_, tp, m) := x in ext_read_only tp m) gen_run_extcalls
  && existsb (fun x : string * string * string => String.eqb (snd (fst x)) "gogrep.Pattern") gen_run_extcalls
  && existsb (fun x : string * string * string => String.eqb (snd (fst x)) "regexp.Regexp") gen_run_extcalls = true.
Proof. vm_compute. reflexivity. Qed.

(* a run stays on the goroutine of its caller: no run-reachable function of the scanned packages starts a goroutine (the
   per-run owners of run_state_confined are then accessed by one goroutine only) *)
Lemma run_spawns_no_goroutine : gen_run_gostmts = [].
Proof. vm_compute. reflexivity. Qed.

(* the scan looked into the packages that hold the Load-time objects' methods *)
Lemma scan_covers :
  forallb (fun n => str_in n gen_scanned_pkgs)
          ["ruleguard"; "ruleguard/quasigo"; "ruleguard/typematch"; "ruleguard/textmatch"; "internal/xtypes";
           "ruleguard/quasigo/stdlib/qstrings"; "ruleguard/quasigo/stdlib/qstrconv"; "ruleguard/quasigo/stdlib/qfmt"]%string
  && existsb (fun w : string * string * string => String.eqb (snd (fst w)) "typematch.MatcherState") gen_run_writes
  && existsb (fun w : string * string * string => String.eqb (snd (fst w)) "quasigo.ValueStack") gen_run_writes = true.
Proof. vm_compute. reflexivity. Qed.

(* ---------------------------------------------------------------- the natives
   bound once per engine (method values of struct literals, functions registered by the stdlib packages) and shared by
   all runs: gen_natives is the regenerated table, gen_native_impls the structs behind the method values *)
Lemma native_impls_are_loadtime :
  forallb (fun n => str_in n gen_loadtime_types) gen_native_impls && negb (Nat.eqb (List.length gen_native_impls) 0) = true.
Proof. vm_compute. reflexivity. Qed.

(* every native is a method of one of those structs or a function of a scanned package (so its body is in the scan) *)
Lemma natives_homes_known :
  forallb (fun n : string * string * string * string => str_in (snd n) gen_native_impls || str_in (snd n) gen_scanned_pkgs) gen_natives = true.
Proof. vm_compute. reflexivity. Qed.

Definition native_bound (q n : string) : bool :=
  existsb (fun e : string * string * string * string => String.eqb (fst (fst (fst e))) q && String.eqb (snd (fst (fst e))) n) gen_natives.

Lemma natives_expected :
  native_bound "*github.com/quasilyte/go-ruleguard/dsl.VarFilterContext" "GetType"
  && native_bound "*github.com/quasilyte/go-ruleguard/dsl.VarFilterContext" "GetInterface"
  && native_bound "*github.com/quasilyte/go-ruleguard/dsl.DoContext" "Var"
  && native_bound "github.com/quasilyte/go-ruleguard/dsl/types" "NewPointer"
  && native_bound "github.com/quasilyte/go-ruleguard/dsl/types" "Implements"
  && native_bound "github.com/quasilyte/go-ruleguard/dsl/types.Type" "Underlying"
  && native_bound "strings" "Replace" && native_bound "fmt" "Sprintf"
  && Nat.leb 40 (List.length gen_natives) = true.
Proof. vm_compute. reflexivity. Qed.

(* the natives keep nothing between calls: the structs behind them have no field but the pointer to the engine-wide
   state (whose fields are governed by the lock discipline) -- in particular no table in front of FindType, whose
   answers are answers for ONE package (RG.Locks.Front: such a table is unsound as soon as two packages disagree) *)
Lemma natives_stateless :
  forallb (fun n => match find (fun e : string * list (string * string) => String.eqb (fst e) n) gen_structs with
                    | Some e => forallb (fun f : string * string => String.eqb (snd f) "*engineState") (snd e)
                    | None => false
                    end) gen_native_impls = true.
Proof. vm_compute. reflexivity. Qed.

(* no value that contains a lock is copied anywhere in the scanned packages (a method with a value receiver on a struct
   with a mutex field locks the copy; go vet's copylocks, which the test suite does not run) *)
Lemma no_lock_copied : gen_lock_copies = [].
Proof. vm_compute. reflexivity. Qed.

(* every element write is attributed: none is left at "a reference that came in as a parameter or a call result" *)
Lemma no_untracked_element_writes :
  forallb (fun w : string * string * string => negb (String.eqb (snd (fst w)) "local-ref")) gen_run_writes = true.
Proof. vm_compute. reflexivity. Qed.

(* ---------------------------------------------------------------- the Load-time objects inside the lock model
   one Frozen field per Load-time struct type (numbered from lt_base, above the fields of engine / engineState): a thread of
   the real system is an extracted path with reads of such objects in between; the write-site scan shows that there is no
   write *)
Definition lt_base : N := 1000.

Fixpoint index_of (s : string) (l : list string) (i : N) : option N :=
  match l with
  | [] => None
  | x :: r => if String.eqb s x then Some i else index_of s r (i + 1)
  end.

Definition lt_field (o : string) : option N := option_map (N.add lt_base) (index_of o gen_loadtime_types 0).

Definition guard_lt (f : N) : fclass := if N.leb lt_base f then Frozen else guard f.

Lemma guard_lt_extends : forallb (fun e : N * string => N.ltb (fst e) lt_base) gen_fields = true.
Proof. vm_compute. reflexivity. Qed.

Lemma sites_disciplined_lt : disciplined guard_lt run_progs = true.
Proof. vm_compute. reflexivity. Qed.

Definition lt_write_sites : list (string * string * string) :=
  filter (fun w : string * string * string => match lt_field (snd (fst w)) with Some _ => true | None => false end) gen_run_writes.

Lemma no_loadtime_write_sites : lt_write_sites = [].
Proof. vm_compute. reflexivity. Qed.

Theorem run_with_loadtime_reads_race_free :
  forall progs, Forall (fun q => exists p, In p run_progs /\ with_frozen_reads guard_lt p q) progs ->
  forall s, reachable (init progs) s -> ~ race s.
Proof. apply (frozen_reads_race_free guard_lt run_progs sites_disciplined_lt). Qed.

(* Run treats what the caller hands in as read-only: no write site outside load-only code stores through a *RunContext
   or *Engine (several goroutines may share one RunContext), nor into go/ast, go/types or go/token objects *)
Definition caller_owned (owner : string) : bool :=
  String.eqb owner "RunContext" || String.eqb owner "Engine"
  || String.prefix "ast." owner || String.prefix "types." owner || String.prefix "token." owner.

Lemma run_arguments_read_only :
  forallb (fun w : string * string * string => negb (caller_owned (snd (fst w)))) gen_run_writes
  && existsb (fun e => String.eqb (fst e) "RunContext") gen_structs
  && existsb (fun e => String.eqb (fst e) "Engine") gen_structs = true.
Proof. vm_compute. reflexivity. Qed.

(* no function writes a package-level variable of ruleguard / quasigo *)
Lemma pkgvars_never_written : forallb (fun v : string * string * list string => match snd v with [] => true | _ => false end) gen_pkgvars = true.
Proof. vm_compute. reflexivity. Qed.

(* the engine-wide structs hold nothing but the reviewed fields, the two mutexes and the two caches *)
Lemma engine_inventory :
  map (fun e => (fst e, map fst (snd e))) (filter (fun e => String.eqb (fst e) "engine" || String.eqb (fst e) "engineState") gen_structs)
  = [("engine", ["state"; "ruleSet"]); ("engineState", ["env"; "typeByFQNMu"; "typeByFQN"; "pkgCacheMu"; "pkgCache"])]%string.
Proof. vm_compute. reflexivity. Qed.
