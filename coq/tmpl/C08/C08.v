(* C08 -- concurrent Run calls on one Engine: race-free lock protocol, linearizable type cache, per-run confinement.
   Props file: statements only; proofs are in RG.Locks.* (generic) and Inst_Locks.v (about the regenerated tables). *)
From Coq Require Import List NArith String Bool.
From RG.Locks Require Import Model Sites Cache Confine Progress Frozen Front.
From RGW Require Import Gen_Locks Inst_Locks.
Import ListNotations.
Local Open Scope N_scope.

(* generic: ANY number of threads, ANY interleaving *)
Theorem discipline_implies_race_free :
  forall (guard : field -> fclass) (progs : list (list op)),
    disciplined guard progs = true ->
    forall s, reachable (init progs) s -> ~ race s.
Proof. exact Model.discipline_implies_race_free. Qed.
Print Assumptions discipline_implies_race_free.

(* instance: every extracted path of the code that can run while Run calls are in flight obeys the discipline *)
Theorem sites_disciplined : disciplined Inst_Locks.guard run_progs = true.
Proof. exact Inst_Locks.sites_disciplined. Qed.
Print Assumptions sites_disciplined.

Theorem run_paths_race_free :
  forall progs, incl progs run_progs ->
  forall s, reachable (init progs) s -> ~ race s.
Proof. exact Inst_Locks.run_paths_race_free. Qed.
Print Assumptions run_paths_race_free.

(* generic: ordered + disciplined programs never deadlock on their own locks *)
Theorem ordered_implies_progress :
  forall (guard : field -> fclass) (rank : mutex -> nat) (progs : list (list op)),
    disciplined guard progs = true -> all_ordered rank progs = true ->
    forall s, reachable (init progs) s ->
      (exists t, In t (threads s) /\ ~ finished t) -> exists s', step s s'.
Proof. exact Progress.ordered_implies_progress. Qed.
Print Assumptions ordered_implies_progress.

Theorem run_paths_deadlock_free :
  forall progs, incl progs run_progs ->
  forall s, reachable (init progs) s ->
    (exists t, In t (threads s) /\ ~ finished t) -> exists s', step s s'.
Proof. exact Inst_Locks.run_paths_deadlock_free. Qed.
Print Assumptions run_paths_deadlock_free.

Theorem findtype_linearizable :
  forall (key val : Type) (key_eqb : key -> key -> bool),
    (forall a b, reflect (a = b) (key_eqb a b)) ->
  forall (oracle : key -> option val) (c0 : cache key val) (ks : list (key * depans val)) (s : cstate key val),
    (* no hypothesis about the dependencies' answers: they may differ from package to package and from the importer's *)
    sreach key_eqb oracle (cinit c0 ks) s ->
    (* every finished call returned what the sequential execution of the same calls returns *)
    (forall i x r, nth_error (calls s) i = Some x -> cpc x = Done r ->
                   nth_error (fst (run_seq key_eqb oracle c0 ks)) i = Some r) /\
    (* ... which is what the call returns when it is made alone on the initial cache *)
    (forall x r, In x (calls s) -> cpc x = Done r -> r = spec key_eqb oracle c0 (ckey x) (cdep x)) /\
    (* the cache extends the initial one and holds only correct entries *)
    good key_eqb oracle c0 (ccache s) /\
    (* an answer of the importer is in the cache *)
    (forall x v, In x (calls s) -> cpc x = Done (Some v) -> cdep x = None -> lookup key_eqb (ckey x) (ccache s) = Some v).
Proof. intros key val key_eqb H. exact (Cache.findtype_linearizable key val key_eqb H). Qed.
Print Assumptions findtype_linearizable.

Theorem findtype_paths_conform :
  match mutex_named "engineState.typeByFQNMu", field_named "engineState.typeByFQN" with
  | Some m, Some f => forallb (conforms m f) findtype_paths
  | _, _ => false
  end = true.
Proof.
  pose proof Inst_Locks.findtype_paths_conform as H.
  destruct (mutex_named "engineState.typeByFQNMu"); [|discriminate].
  destruct (field_named "engineState.typeByFQN"); [|discriminate].
  repeat (apply andb_prop in H; destruct H as [H ?]). assumption.
Qed.
Print Assumptions findtype_paths_conform.

Theorem run_state_confined :
  forall w, In w gen_run_writes -> confined per_run_owners guarded_fields inventory w.
Proof. exact (all_confined per_run_owners guarded_fields inventory gen_run_writes Inst_Locks.run_writes_confined). Qed.
Print Assumptions run_state_confined.

(* everything written during Run is owned by the run (or lock-guarded) -- hence nothing that Load built and concurrent
   Run calls share without a lock is written: no write site of any function that can execute during Run, in any package
   of the module such a function calls, stores into (takes the address of a field of, appends into a slice of, writes
   through a local alias of) a struct type reachable from the loaded rule set *)
Theorem loadtime_objects_read_only :
  forall w, In w gen_run_writes -> ~ In (snd (fst w)) gen_loadtime_types.
Proof.
  exact (loadtime_read_only per_run_owners guarded_fields inventory gen_loadtime_types gen_run_writes
           Inst_Locks.run_writes_confined Inst_Locks.loadtime_disjoint).
Qed.
Print Assumptions loadtime_objects_read_only.

(* ... so the threads of the real system are extracted paths with READS of Load-time objects in between, and for those:
   ANY number of threads, ANY path each, reads of ANY Load-time object at ANY points, ANY interleaving -- no data race *)
Theorem run_with_loadtime_reads_race_free :
  forall progs, Forall (fun q => exists p, In p run_progs /\ with_frozen_reads guard_lt p q) progs ->
  forall s, reachable (init progs) s -> ~ race s.
Proof. exact Inst_Locks.run_with_loadtime_reads_race_free. Qed.
Print Assumptions run_with_loadtime_reads_race_free.

Theorem no_loadtime_write_sites : lt_write_sites = [].
Proof. exact Inst_Locks.no_loadtime_write_sites. Qed.
Print Assumptions no_loadtime_write_sites.

(* the write-site scan is closed under the static calls that leave a package *)
Theorem run_scan_closed :
  forall caller pkg callee, In (caller, pkg, callee) gen_run_xcalls -> In pkg gen_scanned_pkgs /\ ~ In callee gen_load_only.
Proof.
  pose proof Inst_Locks.run_xcalls_closed as H. apply andb_prop in H. destruct H as [H _].
  rewrite forallb_forall in H. intros caller pkg callee Hin. specialize (H _ Hin). cbn beta iota in H.
  apply andb_prop in H. destruct H as [H1 H2]. split.
  - apply str_in_In. exact H1.
  - intro Hc. assert (E : str_in callee gen_load_only = true).
    { unfold str_in. rewrite existsb_exists. exists callee. split; [assumption | apply String.eqb_refl]. }
    rewrite E in H2. discriminate.
Qed.
Print Assumptions run_scan_closed.

Theorem run_spawns_no_goroutine : gen_run_gostmts = [].
Proof. exact Inst_Locks.run_spawns_no_goroutine. Qed.
Print Assumptions run_spawns_no_goroutine.

Theorem run_arguments_read_only :
  forall w, In w gen_run_writes -> caller_owned (snd (fst w)) = false.
Proof.
  pose proof Inst_Locks.run_arguments_read_only as H.
  apply andb_prop in H. destruct H as [H _]. apply andb_prop in H. destruct H as [H _].
  rewrite forallb_forall in H. intros w Hw. specialize (H w Hw). destruct (caller_owned (snd (fst w))); [discriminate | reflexivity].
Qed.
Print Assumptions run_arguments_read_only.

(* ---------------------------------------------------------------- the natives (bound once per engine, shared by all runs) *)
Theorem natives_are_loadtime_objects : forall n, In n gen_native_impls -> In n gen_loadtime_types.
Proof.
  pose proof Inst_Locks.native_impls_are_loadtime as H. apply andb_prop in H. destruct H as [H _].
  rewrite forallb_forall in H. intros n Hn. apply str_in_In. exact (H n Hn).
Qed.
Print Assumptions natives_are_loadtime_objects.

(* ... hence never written by code that runs during Run *)
Theorem native_structs_never_written : forall w, In w gen_run_writes -> ~ In (snd (fst w)) gen_native_impls.
Proof. intros w Hw Hn. exact (loadtime_objects_read_only w Hw (natives_are_loadtime_objects _ Hn)). Qed.
Print Assumptions native_structs_never_written.

Theorem natives_stateless :
  forall n, In n gen_native_impls ->
    exists fs, In (n, fs) gen_structs /\ forall f, In f fs -> snd f = "*engineState"%string.
Proof.
  pose proof Inst_Locks.natives_stateless as H. rewrite forallb_forall in H. intros n Hn. specialize (H n Hn).
  destruct (find (fun e : string * list (string * string) => String.eqb (fst e) n) gen_structs) as [[m fs]|] eqn:F; [|discriminate].
  apply find_some in F. destruct F as [Fin Fe]. cbn in Fe. apply String.eqb_eq in Fe. subst m.
  exists fs. split; [exact Fin|]. intros f Hf. cbn in H. rewrite forallb_forall in H. apply String.eqb_eq. exact (H f Hf).
Qed.
Print Assumptions natives_stateless.

Theorem no_lock_copied : gen_lock_copies = [].
Proof. exact Inst_Locks.no_lock_copied. Qed.
Print Assumptions no_lock_copied.

(* generic: a table keyed by the name alone in front of a lookup whose answer depends on the calling package is
   invisible iff the answers are context-free; otherwise two calls suffice to show it, and their order matters *)
Theorem front_sound_if_context_free :
  forall (key val ctx : Type) (key_eqb : key -> key -> bool), (forall a b, reflect (a = b) (key_eqb a b)) ->
  forall answer : ctx -> key -> option val, (forall p q k, answer p k = answer q k) ->
  forall ops, run_front key_eqb answer [] ops = lone_answers answer ops.
Proof. intros key val ctx key_eqb H. exact (Front.front_sound_if_context_free key val ctx key_eqb H). Qed.
Print Assumptions front_sound_if_context_free.

Theorem front_unsound_if_contexts_disagree :
  forall (key val ctx : Type) (key_eqb : key -> key -> bool), (forall a b, reflect (a = b) (key_eqb a b)) ->
  forall (answer : ctx -> key -> option val) p q k v w, answer p k = Some v -> answer q k = Some w -> v <> w ->
    run_front key_eqb answer [] [(p, k); (q, k)] <> lone_answers answer [(p, k); (q, k)].
Proof. intros key val ctx key_eqb H. exact (Front.front_unsound_if_contexts_disagree key val ctx key_eqb H). Qed.
Print Assumptions front_unsound_if_contexts_disagree.

(* ---------------------------------------------------------------- the hypotheses are satisfiable, the notions not vacuous *)
Example guard_ex (f : field) : fclass := if N.eqb f 0 then Guarded 7 else Frozen.

(* a disciplined reader/writer pair *)
Example disciplined_example :
  disciplined guard_ex [[RLock 7; Read 0; RUnlock 7]; [Lock 7; Write 0; Read 1; Unlock 7]; [Read 1]] = true.
Proof. reflexivity. Qed.

(* the check rejects: unguarded access, write under a read lock, store after the unlock, write to a frozen field *)
Example undisciplined_examples :
  map (fun p => ok guard_ex [] p)
      [[Read 0]; [RLock 7; Write 0; RUnlock 7]; [Lock 7; Unlock 7; Write 0]; [Write 1]; [Lock 7; Write 0]]
  = [false; false; false; false; false].
Proof. reflexivity. Qed.

(* a race is a reachable thing in this model: two unguarded writers *)
Example race_is_reachable : exists s, reachable (init [[Write 0]; [Write 0]]) s /\ race s.
Proof.
  exists (init [[Write 0]; [Write 0]]). split; [constructor|].
  exists [], (T [] [Write 0]), [], (T [] [Write 0]), [], 0, true, true. cbn. repeat split; auto.
Qed.

(* and so is an interleaving in which a reader runs between another thread's unlock and late store *)
Example late_store_races : exists s, reachable (init [[Lock 7; Unlock 7; Write 0]; [RLock 7; Read 0; RUnlock 7]]) s /\ race s.
Proof.
  eexists. split.
  - eapply reach_step. eapply reach_step. eapply reach_step. apply reach_refl.
    + apply (step_at [] _ [_]). apply ts_lock; reflexivity.
    + apply (step_at [] _ [_]). apply ts_unlock. reflexivity.
    + apply (step_at [_] _ []). apply ts_rlock. reflexivity.
  - exists [], (T [] [Write 0]), [], (T [(7, MR)] [Read 0; RUnlock 7]), [], 0, true, false. cbn. repeat split; auto.
Qed.

(* the read-only theorem is not vacuous: a memo field in a shared pattern object is rejected, the same store into the
   per-run matcher state is admitted *)
Example memo_in_shared_pattern_rejected :
  map (confinedb per_run_owners guarded_fields inventory)
      [("typematch.(*Pattern).MatchIdentical", "typematch.Pattern", "lastType");
       ("quasigo.eval", "quasigo.Func", "locals");
       ("(*rulesRunner).runRules", "goRule", "hits");
       ("typematch.(*Pattern).matchIdentical", "typematch.MatcherState", "typeMatches")]%string
  = [false; false; false; true].
Proof. vm_compute. reflexivity. Qed.

(* a thread that reads Load-time objects between its lock operations is a thread of the theorem; one write to such an
   object anywhere in a path and the discipline check rejects it -- and two such writers do race in the model *)
Example loadtime_reads_admitted :
  with_frozen_reads guard_lt [RLock 0; RUnlock 0] [Read 1000; RLock 0; Read 1003; RUnlock 0; Read 1001].
Proof. repeat (first [apply wfr_nil | apply wfr_keep | apply wfr_ins; [reflexivity|]]). Qed.

Example loadtime_write_rejected : ok guard_lt [] [Read 1000; Write 1000] = false.
Proof. apply (ok_rejects_frozen_write guard_lt [Read 1000] 1000 [] []). reflexivity. Qed.

Example loadtime_writers_race : exists s, reachable (init [[Write 1000]; [Read 1000]]) s /\ race s.
Proof.
  exists (init [[Write 1000]; [Read 1000]]). split; [constructor|].
  exists [], (T [] [Write 1000]), [], (T [] [Read 1000]), [], 1000, true, false. cbn. repeat split; auto.
Qed.

(* a lock-order inversion deadlocks in this model (and is rejected by the order check) *)
Example inversion_rejected :
  all_ordered (fun m => N.to_nat m) [[Lock 1; Lock 2; Unlock 2; Unlock 1]; [Lock 2; Lock 1; Unlock 1; Unlock 2]] = false.
Proof. reflexivity. Qed.

(* the cache protocol: a concrete oracle, two concurrent misses of one key *)
Example cache_example :
  let oracle := fun k : N => if N.eqb k 5 then None else Some (k * 2) in
  fst (run_seq N.eqb oracle [(1, 100)] [(1, None); (2, None); (5, None); (2, Some (Some 4)); (6, Some None)])
  = [Some 100; Some 4; None; Some 4; None].
Proof. reflexivity. Qed.

(* sequentially, in any order and after any history, FindType answers what it answers alone *)
Theorem history_independent :
  forall (key val ctx : Type) (key_eqb : key -> key -> bool),
    (forall a b, reflect (a = b) (key_eqb a b)) ->
  forall (oracle : key -> option val) (dep : ctx -> key -> option (option val)),
    forall c0 ops, fst (run_dep key_eqb oracle dep c0 ops) = map (lone key_eqb oracle dep c0) ops.
Proof. intros key val ctx key_eqb H. exact (Cache.history_independent key val ctx key_eqb H). Qed.
Print Assumptions history_independent.

(* two packages whose dependencies resolve one import path differently: each gets its own answer, in any order, and
   nothing is remembered engine-wide -- while a name-keyed table in front of the same lookup serves the first answer to both *)
Example conflicting_dependencies_answered_per_package :
  let imp := fun k : N => @None N in
  let dep := fun (p : N) (k : N) => if N.eqb k 7 then Some (Some (10 + p)) else None in
  run_dep N.eqb imp dep [] [(1, 7); (2, 7); (1, 7); (3, 7)] = ([Some 11; Some 12; Some 11; Some 13], [])
  /\ run_front N.eqb (fun p k => lone N.eqb imp dep [] (p, k)) [] [(1, 7); (2, 7); (1, 7); (3, 7)] = [Some 11; Some 11; Some 11; Some 11].
Proof. split; reflexivity. Qed.

(* a package whose dependencies resolve a name differently from the importer gets ITS answer, also after the importer's
   answer was cached for a package that does not depend on it *)
Example dependency_answer_beats_cached_importer_answer :
  let imp := fun k : N => if N.eqb k 7 then Some 70 else None in
  let dep := fun (p : bool) (k : N) => if p && N.eqb k 7 then Some (Some 1) else None in
  run_dep N.eqb imp dep [] [(false, 7); (true, 7); (false, 7)] = ([Some 70; Some 1; Some 70], [(7, 70)]).
Proof. reflexivity. Qed.

(* a name only the dependencies of some packages resolve: answered for them, an error for the others, whatever the order *)
Example dependency_answers_are_not_cached :
  let imp := fun k : N => if N.eqb k 9 then Some 90 else None in
  let dep := fun (p : bool) (k : N) => if p && N.eqb k 7 then Some (Some 1) else None in
  run_dep N.eqb imp dep [] [(true, 7); (false, 7); (false, 9); (true, 7)] = ([Some 1; None; Some 90; Some 1], [(9, 90)]).
Proof. reflexivity. Qed.
