(* C17 -- proofs about the tables and combinator closures REGENERATED from /repo on this run (Gen_FilterTables.v). *)
From Coq Require Import List ZArith Bool String Lia.
From RG.Base Require Import Outcome.
From RG.Filters Require Import FilterIR FilterAlgebra LoaderState ValueSources.
From RGW Require Import Gen_FilterTables.
Import ListNotations.
Local Open Scope string_scope.

(* the three closures of filters.go are Go's !, && and || with left-to-right short circuit *)
Lemma gen_combinators_ok : combinators_ok gen_combinators.
Proof.
  unfold combinators_ok. split; [|split]; cbn [gen_combinators c_not c_and c_or]; intros.
  - unfold gen_makeNotFilter, spec_not. destruct (x tt) as [[|]|]; reflexivity.
  - unfold gen_makeAndFilter, spec_and. destruct (l tt) as [[|]|]; reflexivity.
  - unfold gen_makeOrFilter, spec_or. destruct (l tt) as [[|]|]; reflexivity.
Qed.

(* the finite obligations on the regenerated dispatch tables (token -> op -> token is the identity on the six
   comparison tokens, exactly == and != are swapped, && / || / ! reach their closures, every comparable value
   reaches the closure pair of its own kind, variable-variable comparisons are guarded by equal kinds, ...) *)
Lemma gen_tables_ok : tables_okb gen_tables = true.
Proof. vm_compute. reflexivity. Qed.

(* the loader reads the rhs constant from the very ops the converter folds constants into *)
Lemma gen_const_ops_agree :
  String.eqb gen_load_rhs_str_op (t_const_str gen_tables) && String.eqb gen_load_rhs_int_op (t_const_int gen_tables) = true.
Proof. vm_compute. reflexivity. Qed.

(* every op constant has a distinct name and number *)
Lemma gen_ops_distinct :
  nodupb (map (fun x => fst (fst x)) gen_filter_ops) = true /\
  NoDup (map (fun x => snd (fst x)) gen_filter_ops).
Proof.
  split; [vm_compute; reflexivity|].
  apply (NoDup_count_occ' Z.eq_dec). intros z Hin.
  repeat (destruct Hin as [<-|Hin]; [vm_compute; reflexivity|]). destruct Hin.
Qed.

(* filter construction keeps no state: newFilter and the loader methods it reaches write no irLoader field and no
   package-level variable and read only the loader's configuration (list regenerated from ir_loader.go) *)
Lemma gen_loader_stateless : loader_stateless_okb gen_loader_state = true /\ loader_reach_okb gen_loader_reach = true.
Proof. split; vm_compute; reflexivity. Qed.

(* what the code that runs per match stores beyond the call (regenerated from filters.go, utils.go and the methods of
   filterParams) is the audited list: no table, counter or slot that carries an answer from one match to the next *)
Lemma gen_run_state_ok : run_state_okb gen_run_state = true.
Proof. vm_compute. reflexivity. Qed.

(* a rule keeps one compiled filter, consulted by the match handlers only; operands are consulted by the combinators only *)
Lemma gen_filter_consults_ok : filter_consults_okb gen_filter_consults = true.
Proof. vm_compute. reflexivity. Qed.

(* the eight comparison closures and the helpers they share are, statement for statement, the audited ones from which
   eval's comparison cases are transcribed *)
Lemma gen_cmp_closures_ok : cmp_closures_okb gen_cmp_closures = true.
Proof. vm_compute. reflexivity. Qed.

(* where the Text of a capture and the value of a literal in a local predicate function come from: nodeText / fileBytes /
   printNode, the nodeText field of the filter parameters, the text renderMessage interpolates and expandMacro's literal switch
   are the audited ones; integer literals are read with base 0 into 64 bits *)
Lemma gen_value_sources_ok : value_sources_okb gen_value_sources = true.
Proof. vm_compute. reflexivity. Qed.

Lemma gen_macro_int_params_ok : macro_int_params_okb gen_macro_int_base gen_macro_int_bits = true.
Proof. vm_compute. reflexivity. Qed.

Lemma gen_macro_int_literal p body : wf_lit p body = true -> (lit_value p body < two63)%N ->
  parse_int (Z.to_N gen_macro_int_base) (Z.to_N gen_macro_int_bits) (spell p body) = Some (Z.of_N (lit_value p body)).
Proof.
  pose proof gen_macro_int_params_ok as H. unfold macro_int_params_okb in H. apply andb_prop in H. destruct H as [H1 H2].
  apply Z.eqb_eq in H1. apply Z.eqb_eq in H2. rewrite H1, H2. exact (go_literal_is_base0 p body).
Qed.

Definition compile_gen := compile gen_tables.
Definition eval_gen := eval gen_combinators.
