(* Property C17 -- theorems only. Each is closed by `exact` of a lemma of RG.Filters.FilterAlgebra instantiated with
   the dispatch tables and the combinator closures REGENERATED from /repo on this run (Gen_FilterTables.v, obligations
   discharged in Inst_C17.v).

   Reading guide.  [compile_gen d] is the loaded filter the engine builds for the Where() expression d
   (irconv.convertFilterExprImpl followed by ir_loader.newFilter/newBinaryExprFilter; None = load error).
   [eval_gen E f] is the verdict of the loaded filter f on a match whose environment is E (what go/types, the file
   set and the source text say about the captures; the verdicts of the non-comparison predicates); Panic = the run
   crashes. [reports ... f ms] are the matches among ms that a rule with filter f reports. *)
From Coq Require Import List ZArith Bool String Lia.
From RG.Base Require Import Outcome.
From RG.Filters Require Import FilterIR FilterAlgebra LoaderState ValueSources FilterChains.
From RGW Require Import Gen_FilterTables Inst_C17.
Import ListNotations.
Local Open Scope string_scope.

(* ---------------------------------------------------------------- connectives are compiled compositionally *)
Theorem C17_paren_transparent : forall d, compile_gen (DParen d) = compile_gen d.
Proof. exact (compile_paren gen_tables). Qed.
Print Assumptions C17_paren_transparent.

Theorem C17_not_compiles : forall d, compile_gen (DUnary "NOT" d) = option_map LNot (compile_gen d).
Proof. exact (compile_not gen_tables gen_tables_ok). Qed.
Print Assumptions C17_not_compiles.

Theorem C17_and_compiles : forall x y, compile_gen (DBinary "LAND" x y) =
  match compile_gen x, compile_gen y with Some f, Some g => Some (LAnd f g) | _, _ => None end.
Proof. exact (compile_and gen_tables gen_tables_ok). Qed.
Print Assumptions C17_and_compiles.

Theorem C17_or_compiles : forall x y, compile_gen (DBinary "LOR" x y) =
  match compile_gen x, compile_gen y with Some f, Some g => Some (LOr f g) | _, _ => None end.
Proof. exact (compile_or gen_tables gen_tables_ok). Qed.
Print Assumptions C17_or_compiles.

(* ---------------------------------------------------------------- !F, F && G, F || G on one match *)
Theorem C17_not_complement : forall E f b, eval_gen E f = Ok b -> eval_gen E (LNot f) = Ok (negb b).
Proof. exact (not_complement gen_combinators gen_combinators_ok). Qed.
Print Assumptions C17_not_complement.

Theorem C17_and_intersection : forall E f g a b,
  eval_gen E f = Ok a -> eval_gen E g = Ok b -> eval_gen E (LAnd f g) = Ok (a && b).
Proof. exact (and_intersection gen_combinators gen_combinators_ok). Qed.
Print Assumptions C17_and_intersection.

Theorem C17_or_union : forall E f g a b,
  eval_gen E f = Ok a -> eval_gen E g = Ok b -> eval_gen E (LOr f g) = Ok (a || b).
Proof. exact (or_union gen_combinators gen_combinators_ok). Qed.
Print Assumptions C17_or_union.

(* short circuit: no hypothesis on g -- it may reject, accept or panic, it is not consulted *)
(* ---------------------------------------------------------------- chains: F || G || H ..., F && G && H ... of any length and grouping *)
(* an ||-tree means the sequence of its leaves, left to right, up to the first one that accepts or panics -- all operands *)
Theorem C17_or_tree_is_sequence : forall E f, eval_gen E f = seq_or gen_combinators E (or_leaves f).
Proof. exact (or_tree_is_sequence gen_combinators gen_combinators_ok). Qed.
Print Assumptions C17_or_tree_is_sequence.

Theorem C17_and_tree_is_sequence : forall E f, eval_gen E f = seq_and gen_combinators E (and_leaves f).
Proof. exact (and_tree_is_sequence gen_combinators gen_combinators_ok). Qed.
Print Assumptions C17_and_tree_is_sequence.

Theorem C17_or_chain_union : forall E fs vs, Forall2 (fun f v => eval_gen E f = Ok v) fs vs ->
  seq_or gen_combinators E fs = Ok (existsb (fun v => v) vs).
Proof. exact (or_chain_union gen_combinators). Qed.
Print Assumptions C17_or_chain_union.

Theorem C17_and_chain_intersection : forall E fs vs, Forall2 (fun f v => eval_gen E f = Ok v) fs vs ->
  seq_and gen_combinators E fs = Ok (forallb (fun v => v) vs).
Proof. exact (and_chain_intersection gen_combinators). Qed.
Print Assumptions C17_and_chain_intersection.

Theorem C17_or_chain_short_circuit : forall E pre f post,
  Forall (fun g => eval_gen E g = Ok false) pre -> eval_gen E f = Ok true -> seq_or gen_combinators E (pre ++ f :: post)%list = Ok true.
Proof. exact (or_chain_short_circuit gen_combinators). Qed.
Print Assumptions C17_or_chain_short_circuit.

Theorem C17_and_chain_short_circuit : forall E pre f post,
  Forall (fun g => eval_gen E g = Ok true) pre -> eval_gen E f = Ok false -> seq_and gen_combinators E (pre ++ f :: post)%list = Ok false.
Proof. exact (and_chain_short_circuit gen_combinators). Qed.
Print Assumptions C17_and_chain_short_circuit.

(* a chain of Text == c leaves may be folded into one set test exactly when all leaves read ONE capture ... *)
Theorem C17_text_set_sound_one_var : forall E x t cs, m_str E true x = Ok (Known t) -> cs <> [] ->
  seq_or gen_combinators E (map (fun c => text_eq_leaf (x, c)) cs) = text_in_set E x cs.
Proof. exact (text_set_sound_one_var gen_combinators). Qed.
Print Assumptions C17_text_set_sound_one_var.

Theorem C17_text_notin_sound_one_var : forall E x t cs, m_str E true x = Ok (Known t) -> cs <> [] ->
  seq_and gen_combinators E (map (fun c => text_neq_leaf (x, c)) cs) = text_notin_set E x cs.
Proof. exact (text_notin_sound_one_var gen_combinators). Qed.
Print Assumptions C17_text_notin_sound_one_var.

(* ... and remembering the first leaf's capture only is refuted: x == "a" || y == "b" || x == "c" with x = "q", y = "b" *)
Theorem C17_text_set_first_var_refuted :
  let ps := [("x", "a"); ("y", "b"); ("x", "c")] in
  seq_or spec_combinators demo_env (map text_eq_leaf ps) = Ok true /\
  text_in_set demo_env (first_var ps) (map snd ps) = Ok false /\
  seq_and spec_combinators demo_env (map text_neq_leaf ps) = Ok false /\
  text_notin_set demo_env (first_var ps) (map snd ps) = Ok true.
Proof. exact text_set_first_var_refuted. Qed.
Print Assumptions C17_text_set_first_var_refuted.

Theorem C17_and_short_circuit : forall E f g, eval_gen E f = Ok false -> eval_gen E (LAnd f g) = Ok false.
Proof. exact (and_short_circuit gen_combinators gen_combinators_ok). Qed.
Print Assumptions C17_and_short_circuit.

Theorem C17_or_short_circuit : forall E f g, eval_gen E f = Ok true -> eval_gen E (LOr f g) = Ok true.
Proof. exact (or_short_circuit gen_combinators gen_combinators_ok). Qed.
Print Assumptions C17_or_short_circuit.

Theorem C17_and_consults_right_when_undecided : forall E f g, eval_gen E f = Ok true -> eval_gen E (LAnd f g) = eval_gen E g.
Proof. exact (and_consults_right gen_combinators gen_combinators_ok). Qed.
Print Assumptions C17_and_consults_right_when_undecided.

Theorem C17_or_consults_right_when_undecided : forall E f g, eval_gen E f = Ok false -> eval_gen E (LOr f g) = eval_gen E g.
Proof. exact (or_consults_right gen_combinators gen_combinators_ok). Qed.
Print Assumptions C17_or_consults_right_when_undecided.

Theorem C17_left_operand_first : forall E f g w, eval_gen E f = Panic w ->
  eval_gen E (LAnd f g) = Panic w /\ eval_gen E (LOr f g) = Panic w /\ eval_gen E (LNot f) = Panic w.
Proof.
  exact (fun E f g w H => conj (and_left_first gen_combinators gen_combinators_ok E f g w H)
                         (conj (or_left_first gen_combinators gen_combinators_ok E f g w H)
                               (not_propagates_panic gen_combinators gen_combinators_ok E f w H))).
Qed.
Print Assumptions C17_left_operand_first.

(* corollaries, for all operands (including rejecting-for-unknown-reasons and panicking ones) *)
Theorem C17_double_negation : forall E f, eval_gen E (LNot (LNot f)) = eval_gen E f.
Proof. exact (double_negation gen_combinators gen_combinators_ok). Qed.
Print Assumptions C17_double_negation.

Theorem C17_de_morgan_and : forall E f g, eval_gen E (LNot (LAnd f g)) = eval_gen E (LOr (LNot f) (LNot g)).
Proof. exact (de_morgan_and gen_combinators gen_combinators_ok). Qed.
Print Assumptions C17_de_morgan_and.

Theorem C17_de_morgan_or : forall E f g, eval_gen E (LNot (LOr f g)) = eval_gen E (LAnd (LNot f) (LNot g)).
Proof. exact (de_morgan_or gen_combinators gen_combinators_ok). Qed.
Print Assumptions C17_de_morgan_or.

(* ---------------------------------------------------------------- report sets of rules over one pattern *)
Theorem C17_reports_not_is_complement : forall (M : Type) (envof : M -> menv) f ms,
  Forall (runs_ok gen_combinators M envof f) ms ->
  forall m, In m ms -> (In m (reports gen_combinators M envof (LNot f) ms) <-> ~ In m (reports gen_combinators M envof f ms)).
Proof. exact (reports_not gen_combinators gen_combinators_ok). Qed.
Print Assumptions C17_reports_not_is_complement.

Theorem C17_reports_and_is_intersection : forall (M : Type) (envof : M -> menv) f g ms,
  Forall (runs_ok gen_combinators M envof f) ms ->
  Forall (fun m => accepts gen_combinators M envof f m = true -> runs_ok gen_combinators M envof g m) ms ->
  forall m, In m (reports gen_combinators M envof (LAnd f g) ms) <->
            In m (reports gen_combinators M envof f ms) /\ In m (reports gen_combinators M envof g ms).
Proof. exact (reports_and gen_combinators gen_combinators_ok). Qed.
Print Assumptions C17_reports_and_is_intersection.

Theorem C17_reports_or_is_union : forall (M : Type) (envof : M -> menv) f g ms,
  Forall (runs_ok gen_combinators M envof f) ms ->
  Forall (fun m => accepts gen_combinators M envof f m = false -> runs_ok gen_combinators M envof g m) ms ->
  forall m, In m (reports gen_combinators M envof (LOr f g) ms) <->
            In m (reports gen_combinators M envof f ms) \/ In m (reports gen_combinators M envof g ms).
Proof. exact (reports_or gen_combinators gen_combinators_ok). Qed.
Print Assumptions C17_reports_or_is_union.

(* ---------------------------------------------------------------- comparisons: compilation *)
(* m["x"].Line / .Type.Size / .Value.Int() / .Text  <tok>  constant : the closure of that kind, with that token *)
Theorem C17_cmp_compiles : forall k x t c, In t cmp_tokens -> const_matches k c ->
  compile_gen (DBinary t (operand k x) (const_dexpr c)) = Some (LCmpConst k x t c).
Proof. exact (compile_cmp_const gen_tables gen_tables_ok). Qed.
Print Assumptions C17_cmp_compiles.

(* == and != do not care on which side the constant is written *)
Theorem C17_eq_neq_swap : forall k x t c, t = "EQL" \/ t = "NEQ" -> const_matches k c ->
  compile_gen (DBinary t (const_dexpr c) (operand k x)) = compile_gen (DBinary t (operand k x) (const_dexpr c)).
Proof. exact (compile_cmp_const_left_swapped gen_tables gen_tables_ok). Qed.
Print Assumptions C17_eq_neq_swap.

(* an ordering with the constant on the left is refused when the rules are loaded, never silently mirrored *)
Theorem C17_ordering_constant_left_is_load_error : forall k x t c, In t ["LSS"; "LEQ"; "GTR"; "GEQ"] ->
  compile_gen (DBinary t (const_dexpr c) (operand k x)) = None.
Proof. exact (compile_cmp_const_left_ordering_rejected gen_tables gen_tables_ok). Qed.
Print Assumptions C17_ordering_constant_left_is_load_error.

Theorem C17_cmp_var_compiles : forall k x y t, In t cmp_tokens ->
  compile_gen (DBinary t (operand k x) (operand k y)) = Some (LCmpVar k x t y).
Proof. exact (compile_cmp_var gen_tables gen_tables_ok). Qed.
Print Assumptions C17_cmp_var_compiles.

Theorem C17_cmp_mixed_kinds_is_load_error : forall k k' x y t, In t cmp_tokens ->
  operand_op gen_tables k <> operand_op gen_tables k' ->
  compile_gen (DBinary t (operand k x) (operand k' y)) = None.
Proof. exact (compile_cmp_var_mixed_rejected gen_tables gen_tables_ok). Qed.
Print Assumptions C17_cmp_mixed_kinds_is_load_error.

(* ---------------------------------------------------------------- comparisons: semantics *)
(* the verdict is the Go operator on the underlying value: integers by the order of Z ... *)
Theorem C17_cmp_is_go_operator_int : forall E k x t v c b, k <> KText ->
  m_int E k true x = Ok (Known v) -> z_cmp t v c = Some b -> eval_gen E (LCmpConst k x t (CInt c)) = Ok b.
Proof. exact (cmp_is_go_operator_int gen_combinators). Qed.
Print Assumptions C17_cmp_is_go_operator_int.

Theorem C17_int_operators_are_the_order_of_Z : forall a b,
  z_cmp "EQL" a b = Some (a =? b)%Z /\ z_cmp "NEQ" a b = Some (negb (a =? b)%Z) /\
  z_cmp "LSS" a b = Some (a <? b)%Z /\ z_cmp "LEQ" a b = Some (a <=? b)%Z /\
  z_cmp "GTR" a b = Some (a >? b)%Z /\ z_cmp "GEQ" a b = Some (a >=? b)%Z.
Proof. exact z_cmp_is_order. Qed.
Print Assumptions C17_int_operators_are_the_order_of_Z.

(* ... and strings bytewise, lexicographically *)
Theorem C17_cmp_is_go_operator_text : forall E x t v c b,
  m_str E true x = Ok (Known v) -> s_cmp t v c = Some b -> eval_gen E (LCmpConst KText x t (CStr c)) = Ok b.
Proof. exact (cmp_is_go_operator_text gen_combinators). Qed.
Print Assumptions C17_cmp_is_go_operator_text.

Theorem C17_string_operators_are_the_bytewise_order : forall a b,
  s_cmp "EQL" a b = Some (String.eqb a b) /\ s_cmp "NEQ" a b = Some (negb (String.eqb a b)) /\
  s_cmp "LSS" a b = Some (String.ltb a b) /\ s_cmp "LEQ" a b = Some (String.leb a b) /\
  s_cmp "GTR" a b = Some (String.ltb b a) /\ s_cmp "GEQ" a b = Some (String.leb b a).
Proof. exact s_cmp_is_order. Qed.
Print Assumptions C17_string_operators_are_the_bytewise_order.

Theorem C17_cmp_var_is_go_operator_int : forall E k x y t a b r, k <> KText ->
  m_int E k false x = Ok (Known a) -> m_int E k false y = Ok (Known b) -> z_cmp t a b = Some r ->
  eval_gen E (LCmpVar k x t y) = Ok r.
Proof. exact (cmp_var_is_go_operator_int gen_combinators). Qed.
Print Assumptions C17_cmp_var_is_go_operator_int.

Theorem C17_cmp_var_is_go_operator_text : forall E x y t a b r,
  m_str E false x = Ok (Known a) -> m_str E false y = Ok (Known b) -> s_cmp t a b = Some r ->
  eval_gen E (LCmpVar KText x t y) = Ok r.
Proof. exact (cmp_var_is_go_operator_text gen_combinators). Qed.
Print Assumptions C17_cmp_var_is_go_operator_text.

(* x < c agrees with !(x >= c) whenever the value is known; likewise <= / > and == / != *)
Theorem C17_lt_iff_not_ge_known : forall E k x t v c, k <> KText -> In t cmp_tokens ->
  m_int E k true x = Ok (Known v) ->
  eval_gen E (LCmpConst k x t (CInt c)) = eval_gen E (LNot (LCmpConst k x (complement_tok t) (CInt c))).
Proof. exact (lt_iff_not_ge_known_int gen_combinators gen_combinators_ok). Qed.
Print Assumptions C17_lt_iff_not_ge_known.

Theorem C17_lt_iff_not_ge_known_text : forall E x t v c, In t cmp_tokens ->
  m_str E true x = Ok (Known v) ->
  eval_gen E (LCmpConst KText x t (CStr c)) = eval_gen E (LNot (LCmpConst KText x (complement_tok t) (CStr c))).
Proof. exact (lt_iff_not_ge_known_text gen_combinators gen_combinators_ok). Qed.
Print Assumptions C17_lt_iff_not_ge_known_text.

(* an unknown value (Value.Int() of a non-constant, Type.Size of a type parameter) rejects x < c and x >= c alike *)
Theorem C17_unknown_rejects_both : forall E k x c, k <> KText -> m_int E k true x = Ok Unknown ->
  eval_gen E (LCmpConst k x "LSS" (CInt c)) = Ok false /\ eval_gen E (LCmpConst k x "GEQ" (CInt c)) = Ok false /\
  eval_gen E (LNot (LCmpConst k x "GEQ" (CInt c))) = Ok true.
Proof. exact (unknown_rejects_both gen_combinators gen_combinators_ok). Qed.
Print Assumptions C17_unknown_rejects_both.

(* ---------------------------------------------------------------- a filter is a function of its expression alone *)
(* what newFilter and the methods it reaches touch besides their arguments (regenerated): nothing is written, only
   the loader's configuration is read -- no memo table, no counter, no "previous filter" *)
Theorem C17_loader_keeps_no_state : forall fn x w, In (fn, x, w) gen_loader_state -> w = false /\ In x loader_config.
Proof. exact (loader_stateless_spec gen_loader_state (proj1 gen_loader_stateless)). Qed.
Print Assumptions C17_loader_keeps_no_state.

(* the Where() expression is kept as ONE compiled filter (goRule.filter) and consulted by the match handlers only, its operands by
   the combinator closures only: no operand is pulled out in front of the pattern match to decide for a whole file or node *)
Theorem C17_filter_kept_once_consulted_per_match : forall fn x, In (fn, x) gen_filter_consults -> In (fn, x) doc_filter_consults.
Proof. exact (filter_consults_spec gen_filter_consults gen_filter_consults_ok). Qed.
Print Assumptions C17_filter_kept_once_consulted_per_match.

(* ---------------------------------------------------------------- a comparison is a function of the match alone *)
(* every place where the per-match code writes storage that outlives the call is one of the audited three (the capture name a
   custom filter is asked about, the capture preset of a sub-search, a local of a load-time helper): nothing remembers a value
   from one match for the next *)
Theorem C17_filters_keep_no_state_between_matches : forall fn x, In (fn, x) gen_run_state -> In (fn, x) doc_run_state.
Proof. exact (run_state_spec gen_run_state gen_run_state_ok). Qed.
Print Assumptions C17_filters_keep_no_state_between_matches.

(* were sizes remembered per type: any key that determines the size is invisible for every sequence of questions ... *)
Theorem C17_size_memo_transparent : forall (K : Type) (key : ptype -> K) (keqb : K -> K -> bool),
  (forall a b, keqb (key a) (key b) = true -> pt_size a = pt_size b) -> forall l, calls pt_size key keqb [] l = map pt_size l.
Proof. exact (@size_memo_transparent). Qed.
Print Assumptions C17_size_memo_transparent.

(* ... and the printed form of a type is not such a key: of two distinct types that print alike (equally named local types of
   two functions, a local type shadowing a package-level one) the second asked about gets the size of the first, so
   `x.Type.Size == y.Type.Size` holds for them whatever their sizes *)
Theorem C17_size_memo_by_printed_type_unsound : forall a b,
  pt_print b = pt_print a -> pt_size a <> pt_size b ->
  calls pt_size pt_print String.eqb [] [a; b] <> map pt_size [a; b] /\
  calls pt_size pt_print String.eqb [] [a; b] = [pt_size a; pt_size a].
Proof. intros a b Hp Hs. split; [now apply size_memo_by_print_unsound|now apply size_memo_by_print_equates]. Qed.
Print Assumptions C17_size_memo_by_printed_type_unsound.

Theorem C17_comparison_closures_as_audited : cmp_closures_okb gen_cmp_closures = true.
Proof. exact gen_cmp_closures_ok. Qed.
Print Assumptions C17_comparison_closures_as_audited.

(* ---------------------------------------------------------------- where the compared values come from *)
(* the Text of a capture is nodeText of it -- the text a report message shows for `$x` -- and the functions behind it, as well as
   expandMacro's re-creation of literal values, are the audited ones (RG.Filters.ValueSources) *)
Theorem C17_value_sources_as_audited :
  value_sources_okb gen_value_sources = true /\ macro_int_params_okb gen_macro_int_base gen_macro_int_bits = true.
Proof. exact (conj gen_value_sources_ok gen_macro_int_params_ok). Qed.
Print Assumptions C17_value_sources_as_audited.

(* `Text == c` / `Text != c` accept exactly when the reported text is / is not c: for every file (bytes readable or not),
   every capture, every constant *)
Theorem C17_text_eq_is_reported_text : forall file nodes E x c,
  eval_gen (text_env file nodes E) (LCmpConst KText x "EQL" (CStr c)) = Ok (String.eqb (node_text file (nodes x)) c) /\
  eval_gen (text_env file nodes E) (LCmpConst KText x "NEQ" (CStr c)) = Ok (negb (String.eqb (node_text file (nodes x)) c)).
Proof. exact (text_eq_is_reported_text gen_combinators). Qed.
Print Assumptions C17_text_eq_is_reported_text.

(* what the extent of a capture says about its Text: its length when the file's bytes can be read back, nothing otherwise --
   deciding `Text == c` from End()-Pos() first is sound on the former files only *)
Theorem C17_text_length_is_extent_on_readable_files : forall file n,
  in_file file n = true -> String.length (node_text file n) = extent n.
Proof. exact node_text_length_readable. Qed.
Print Assumptions C17_text_length_is_extent_on_readable_files.

Theorem C17_extent_shortcut_sound_on_readable_files : forall file n c,
  in_file file n = true -> eq_by_extent file n c = String.eqb (node_text file n) c.
Proof. exact eq_by_extent_sound_readable. Qed.
Print Assumptions C17_extent_shortcut_sound_on_readable_files.

Theorem C17_extent_shortcut_unsound_witness :
  exists n c, in_file "" n = false /\ String.eqb (node_text "" n) c = true /\ eq_by_extent "" n c = false.
Proof. exact eq_by_extent_unsound_unreadable. Qed.
Print Assumptions C17_extent_shortcut_unsound_witness.

(* an integer literal in the body of a local predicate function means its Go value: every literal of the Go grammar (decimal,
   legacy octal, 0o, 0b, 0x, with underscores) below 2^63, read the way expandMacro reads it on this tree *)
Theorem C17_macro_int_literal_is_go_value : forall p body, wf_lit p body = true -> (lit_value p body < two63)%N ->
  parse_int (Z.to_N gen_macro_int_base) (Z.to_N gen_macro_int_bits) (spell p body) = Some (Z.of_N (lit_value p body)).
Proof. exact gen_macro_int_literal. Qed.
Print Assumptions C17_macro_int_literal_is_go_value.

Theorem C17_macro_int_base10_refuted :
  parse_int 0 64 "0644" = Some 420%Z /\ parse_int 10 64 "0644" = Some 644%Z /\
  parse_int 0 64 "0x1F" = Some 31%Z /\ parse_int 10 64 "0x1F" = None /\
  parse_int 0 64 "1_000" = Some 1000%Z /\ parse_int 10 64 "1_000" = None.
Proof. exact base10_misreads_legacy_octal. Qed.
Print Assumptions C17_macro_int_base10_refuted.

(* so the groups of a file are loaded independently: together = one by one *)
Theorem C17_load_together_is_one_by_one : forall gs,
  load_groups gen_tables gs = flat_map (fun g => load_groups gen_tables [g]) gs.
Proof. exact (load_together_is_one_by_one gen_tables). Qed.
Print Assumptions C17_load_together_is_one_by_one.

Theorem C17_load_groups_pointwise : forall gs n,
  nth_error (load_groups gen_tables gs) n = option_map (load gen_tables) (nth_error gs n).
Proof. exact (load_groups_pointwise gen_tables). Qed.
Print Assumptions C17_load_groups_pointwise.

(* a memo table in front of the loader is invisible, for every sequence of filters, iff its key determines the filter *)
Theorem C17_memo_transparent : forall (K : Type) (key : fexpr -> K) (keqb : K -> K -> bool),
  key_determines (load gen_tables) key keqb -> forall l, calls (load gen_tables) key keqb [] l = map (load gen_tables) l.
Proof. exact (fun K key keqb => memo_transparent (load gen_tables) key keqb). Qed.
Print Assumptions C17_memo_transparent.

Theorem C17_memo_unsound_witness : forall (K : Type) (key : fexpr -> K) (keqb : K -> K -> bool) a a',
  keqb (key a') (key a) = true -> load gen_tables a <> load gen_tables a' ->
  calls (load gen_tables) key keqb [] [a; a'] <> map (load gen_tables) [a; a'].
Proof. exact (fun K key keqb => memo_unsound_witness (load gen_tables) key keqb). Qed.
Print Assumptions C17_memo_unsound_witness.

(* ---------------------------------------------------------------- non-vacuity *)
(* m["x"].Type.Size > limit under `const limit = 8` and under `const limit = 64`: one spelling, two filters; a table
   keyed by the spelling hands the second group the first group's closure *)
Definition demo_size_gt (limit : Z) : fexpr :=
  FE "FilterGtOp" VNone [FE "FilterVarTypeSizeOp" (VStr "x") []; FE "FilterIntOp" (VInt limit) []].

Example c17_demo_spelling_is_not_a_key :
  spelling gen_tables (demo_size_gt 8) = spelling gen_tables (demo_size_gt 64) /\
  load gen_tables (demo_size_gt 8) = Some (LCmpConst KSize "x" "GTR" (CInt 8)) /\
  load gen_tables (demo_size_gt 64) = Some (LCmpConst KSize "x" "GTR" (CInt 64)) /\
  calls (load gen_tables) (spelling gen_tables) fexpr_eqb [] [demo_size_gt 8; demo_size_gt 64]
    = [Some (LCmpConst KSize "x" "GTR" (CInt 8)); Some (LCmpConst KSize "x" "GTR" (CInt 8))].
Proof. repeat split; vm_compute; reflexivity. Qed.

(* the full expression is a key that determines the filter (here: on the two demo filters) *)
Example c17_demo_expression_is_a_key :
  calls (load gen_tables) (fun f => f) fexpr_eqb [] [demo_size_gt 8; demo_size_gt 64; demo_size_gt 8]
    = map (load gen_tables) [demo_size_gt 8; demo_size_gt 64; demo_size_gt 8].
Proof. vm_compute. reflexivity. Qed.

Definition demo_env (line : Z) (iv : obs Z) : menv :=
  {| m_int := fun k _ _ => match k with KLine => Ok (Known line) | KValueInt => Ok iv | _ => Ok (Known 8%Z) end;
     m_str := fun _ _ => Ok (Known "abc");
     m_atom := fun op _ _ => if String.eqb op "FilterVarFilterOp" then Panic PExplicit else Ok (String.eqb op "FilterVarPureOp") |}.

(* m["x"].Line < 10 && !(m["x"].Text == "abd") || m["x"].Filter(panics), constant folded and parenthesised *)
Definition demo_dsl : dexpr :=
  DBinary "LOR"
    (DBinary "LAND" (DBinary "LSS" (DSel "Line" "x") (DInt 10))
                    (DUnary "NOT" (DParen (DBinary "EQL" (DStr "abd") (DSel "Text" "x")))))
    (DCall "Filter" "x" [DIdent "panics"]).

Example c17_demo_compiles : compile_gen demo_dsl =
  Some (LOr (LAnd (LCmpConst KLine "x" "LSS" (CInt 10)) (LNot (LCmpConst KText "x" "EQL" (CStr "abd"))))
            (LAtom "FilterVarFilterOp" (VStr "x") [FE "FilterFilterFuncRefOp" (VStr "panics") []])).
Proof. vm_compute. reflexivity. Qed.

(* line 3: the left operand decides, the panicking custom filter is not consulted; line 30: it is, and the run panics *)
Example c17_demo_short_circuit :
  option_map (eval_gen (demo_env 3 Unknown)) (compile_gen demo_dsl) = Some (Ok true) /\
  option_map (eval_gen (demo_env 30 Unknown)) (compile_gen demo_dsl) = Some (Panic PExplicit).
Proof. split; vm_compute; reflexivity. Qed.

Example c17_demo_unknown : forall c,
  eval_gen (demo_env 1 Unknown) (LCmpConst KValueInt "x" "LSS" (CInt c)) = Ok false /\
  eval_gen (demo_env 1 Unknown) (LCmpConst KValueInt "x" "GEQ" (CInt c)) = Ok false.
Proof. intros c. split; reflexivity. Qed.

Example c17_demo_each :
  eval_gen (demo_env 1 (Each [Some 1%Z; Some 5%Z])) (LCmpConst KValueInt "x" "LSS" (CInt 6)) = Ok true /\
  eval_gen (demo_env 1 (Each [Some 1%Z; None])) (LCmpConst KValueInt "x" "LSS" (CInt 6)) = Ok false /\
  eval_gen (demo_env 1 (Each [Some 1%Z; Some 7%Z])) (LCmpConst KValueInt "x" "LSS" (CInt 6)) = Ok false.
Proof. repeat split; vm_compute; reflexivity. Qed.

Example c17_demo_mixed_kinds : compile_gen (DBinary "EQL" (DSel "Type.Size" "x") (DSel "Line" "y")) = None.
Proof. vm_compute. reflexivity. Qed.

(* `sink(g( 1,2 ))` analysed from memory: the capture spans 9 bytes, its Text is the 7 bytes the printer makes of it *)
Example c17_demo_text_of_an_unsaved_file :
  let n := {| tn_from := 40; tn_to := 49; tn_printed := "g(1, 2)" |} in
  let E := text_env "" (fun _ => n) (demo_env 1 Unknown) in
  extent n = 9 /\ node_text "" n = "g(1, 2)" /\
  eval_gen E (LCmpConst KText "x" "EQL" (CStr "g(1, 2)")) = Ok true /\
  eval_gen E (LCmpConst KText "x" "NEQ" (CStr "g(1, 2)")) = Ok false /\
  eval_gen E (LCmpConst KText "x" "EQL" (CStr "g( 1,2 )")) = Ok false.
Proof. vm_compute. repeat split. Qed.

Example c17_demo_file_mode_literal :
  spell PLegacy [dd 6; dd 4; dd 4] = "0644" /\
  parse_int (Z.to_N gen_macro_int_base) (Z.to_N gen_macro_int_bits) "0644" = Some 420%Z.
Proof. vm_compute. split; reflexivity. Qed.
