(* Property C11 -- theorems only. Each is closed by `exact` of a lemma proved about the fast-path selection
   (compileOptimized) and the matchers (matchers.go) REGENERATED from /repo on this run. *)
From Coq Require Import List ZArith Lia Bool Arith.
From RG.Base Require Import Outcome GoSlice.
From RG.Regex Require Import Utf8 Regex FastPath GoOps Capture Matcher History Ordered.
From RGW Require Import Gen_Textmatch Inst_Textmatch.
Import ListNotations.
Local Open Scope Z_scope.

Section C11.
(* package unicode / regexp/syntax: trusted, and checked on every run (every rune; the parse of every table entry) *)
Variable fold_rel : rune -> rune -> bool.      (* unicode.SimpleFold orbits: how regexp matches a FoldCase literal *)
Variable pred_fn : pred_id -> rune -> bool.    (* unicode.IsUpper, unicode.IsLower, ... *)
Variable parses_to : bytes -> regex -> Prop.   (* syntax.Parse(s, syntax.Perl) = re *)
(* every entry of the REGENERATED table of prefix classes: the pattern string parses to `^` + one class, the class is what the
   entry's predicate decides for all runes, and the predicate rejects the decoder's error value. Discharged for the
   observed classes / predicates of this run in Hyp_Instance.v (C11_prefix_table_sound). *)
Hypothesis table_sound : forall s p re, table_find s gen_prefix_table = Some p -> parses_to s re ->
  exists rg, re = Concat [BeginText; CharClass rg] /\ (forall c, in_ranges rg c = pred_fn p c) /\ pred_fn p rune_error = false.

(* fast paths never change the answer: whenever compileOptimized returns a matcher for the syntax tree of the pattern,
   Match and MatchString accept an input (ANY byte string, valid UTF-8 or not) iff an unanchored regexp search of
   that tree over the decoded input succeeds *)
Theorem C11_fast_path_equiv :
  forall s re mt, parses_to s re -> gen_compileOptimized s re = Ok (Some mt) ->
  forall b, bytes_ok b ->
    (gen_match_bytes pred_fn mt b = true <-> search fold_rel re (decode b)) /\
    (gen_match_string pred_fn mt b = true <-> search fold_rel re (decode b)).
Proof. exact (gen_fast_path_equiv fold_rel pred_fn parses_to table_sound). Qed.

(* ... equivalently: they compute the same boolean as the reference matcher of the relation (executable on both sides) *)
Theorem C11_fast_path_is_reference_matcher :
  forall s re mt, parses_to s re -> gen_compileOptimized s re = Ok (Some mt) ->
  forall b, bytes_ok b ->
    gen_match_bytes pred_fn mt b = searchb fold_rel re (decode b) /\
    gen_match_string pred_fn mt b = searchb fold_rel re (decode b).
Proof. exact (gen_fast_path_is_searchb fold_rel pred_fn parses_to table_sound). Qed.
End C11.
Print Assumptions C11_fast_path_equiv.
Print Assumptions C11_fast_path_is_reference_matcher.

(* the matching relation in which the theorems are stated is decided by an executable matcher; that matcher is compared
   with regexp.MustCompile on every generated pattern on every run, so the relation is validated, not merely trusted *)
Theorem C11_relation_is_executable :
  forall fold_rel re l, searchb fold_rel re l = true <-> search fold_rel re l.
Proof. exact searchb_correct. Qed.
Print Assumptions C11_relation_is_executable.

(* the selection is total (re.Sub[i] is never out of range) and equals the specified selection *)
Theorem C11_selection_is_spec : forall s re, gen_compileOptimized s re = Ok (spec_select gen_prefix_table s re).
Proof. exact gen_select_is_spec. Qed.
Print Assumptions C11_selection_is_spec.

Theorem C11_selection_total : forall s re, exists r, gen_compileOptimized s re = Ok r.
Proof. exact gen_select_total. Qed.
Print Assumptions C11_selection_total.

(* literal fast paths are only ever built from case-sensitive literals whose runes round-trip through UTF-8 *)
Theorem C11_literal_paths_only_plain :
  forall s re v,
  (gen_compileOptimized s re = Ok (Some (MContains v)) \/ gen_compileOptimized s re = Ok (Some (MPrefix v)) \/
   gen_compileOptimized s re = Ok (Some (MSuffix v)) \/ gen_compileOptimized s re = Ok (Some (MEq v))) ->
  exists rs, v = encode rs /\ Forall plain_rune rs /\ (re = Literal false rs \/ In (Literal false rs) (subs re)).
Proof. exact gen_literal_paths_only_plain. Qed.
Print Assumptions C11_literal_paths_only_plain.

(* call sites: Text.Matches / File().Name.Matches / File().PkgPath.Matches return exactly the compiled pattern's verdict
   on the node text / base file name / package path, and the loader hands over what textmatch.Compile / regexp.Compile
   returned (read off filters.go and ir_loader.go on this run) *)
Theorem C11_predicate_call_sites : forallb snd gen_match_sites = true /\ (11 <= List.length gen_match_sites)%nat.
Proof. exact match_sites_hold. Qed.
Print Assumptions C11_predicate_call_sites.

(* histories of runs through one reused RunnerState: a predicate whose verdict does not depend on the state it finds (the
   call-site facts above: the closures read the compiled pattern and this run's text only, and nothing else survives a
   Run()) gives, in every run of every history from every state, the verdict of that run's own context -- and only such
   predicates do. A site that keeps its first answer (memo_site) answers all later runs with it. *)
Theorem C11_history_independent :
  forall (state ctx : Type) (f : site state ctx) (spec : ctx -> bool),
    stateless f spec <-> (forall st h, run_history f st h = map spec h).
Proof. intros; split; [apply stateless_history|apply history_stateless]. Qed.
Print Assumptions C11_history_independent.

Theorem C11_pure_predicate_history :
  forall (state ctx : Type) (g : ctx -> bool) (st : state) (h : list ctx), run_history (pure_site g) st h = map g h.
Proof. exact pure_site_history. Qed.

Theorem C11_memoised_predicate_keeps_first_answer :
  forall (ctx : Type) (g : ctx -> bool) c h, run_history (memo_site g) None (c :: h) = g c :: map (fun _ => g c) h.
Proof. exact @memo_site_keeps_first. Qed.

(* byte strings vs rune sequences (UTF-8 self-synchronisation), proved, not assumed *)
Theorem C11_contains_bytes_iff_runes :
  forall rs b, bytes_ok b -> Forall plain_rune rs ->
  (containsb (encode rs) b = true <-> exists i, (i <= length (decode b))%nat /\ lit_at rs (decode b) i).
Proof. exact contains_iff. Qed.
Print Assumptions C11_contains_bytes_iff_runes.

(* regexpHasCaptureGroups (shared with C12): the walk with its `found` flag answers "the tree has a capture node" *)
Theorem C11_has_capture_correct : forall re, walk_found re false = true <-> contains_capture re.
Proof. exact has_capture_correct. Qed.
Print Assumptions C11_has_capture_correct.

(* why the FoldCase test matters: without it the literal path would be wrong (the defect fixed in /repo) *)
Theorem C11_fold_literal_differs :
  forall fold_rel a c, fold_rel a c = true -> search fold_rel (Literal true [a]) [c].
Proof. exact fold_literal_matches_variant. Qed.

(* what a normalisation in front of the selection may drop: a starred item at either end of a concatenation (`.*foo`, `foo.*`)
   never changes the answer of an unanchored search, for every tree, every input and every starred expression ... *)
Theorem C11_unanchored_search_ignores_outer_stars :
  forall fold_rel r rs l,
  (search fold_rel (Concat (Star r :: rs)) l <-> search fold_rel (Concat rs) l) /\
  (search fold_rel (Concat (rs ++ [Star r])) l <-> search fold_rel (Concat rs) l).
Proof. intros fr r rs l. split; [apply search_drop_leading_star|apply search_drop_trailing_star]. Qed.
Print Assumptions C11_unanchored_search_ignores_outer_stars.

(* ... but an anchor between the star and the end of the pattern takes that away: `^.*foo` is "foo on the first line", `foo.*$`
   "foo on the last line" (inputs "x\nfoo", "foo\nx"); only a dot that matches the newline makes them containment *)
Example c11_anchored_any_is_not_containment :
  let nf : rune -> rune -> bool := fun _ _ => false in
  let foo := Literal false [102; 111; 111] in
  ~ search nf (Concat [BeginText; Star AnyCharNotNL; foo]) [120; 10; 102; 111; 111] /\
  ~ search nf (Concat [foo; Star AnyCharNotNL; EndText]) [102; 111; 111; 10; 120] /\
  search nf foo [120; 10; 102; 111; 111] /\ search nf foo [102; 111; 111; 10; 120] /\
  search nf (Concat [BeginText; Star AnyChar; foo]) [120; 10; 102; 111; 111] /\
  search nf (Concat [foo; Star AnyChar; EndText]) [102; 111; 111; 10; 120].
Proof. exact anchored_any_is_not_containment. Qed.

(* two literals with a dot-star in between (`foo.*bar`, `defer .*\.Unlock\(\)`): what a search decides, on positions of the input --
   SOME occurrence of the first literal, an occurrence of the second at or behind its end, no line break in between (for every
   input and every pair of literals; with a dot that matches the newline the last condition goes away). A fast path that answers the
   shape with substring searches has to meet this; the first occurrence of the first literal does not settle the answer. *)
Theorem C11_dot_star_between_literals_is_same_line :
  forall fold_rel l a b,
  (search fold_rel (Concat [Literal false a; Star AnyCharNotNL; Literal false b]) l <->
   exists i k, lit_at a l i /\ lit_at b l k /\ (i + length a <= k)%nat /\ (k <= length l)%nat /\ same_line l (i + length a) k) /\
  (search fold_rel (Concat [Literal false a; Star AnyChar; Literal false b]) l <->
   exists i k, lit_at a l i /\ lit_at b l k /\ (i + length a <= k)%nat /\ (k <= length l)%nat).
Proof. intros fr l a b. split; [apply search_lit_anynl_lit|apply search_lit_any_lit]. Qed.
Print Assumptions C11_dot_star_between_literals_is_same_line.

(* "foo\nfoo bar" matches `foo.*bar` (the SECOND foo), "foo\nbar" does not, `(?s)foo.*bar` matches it *)
Example c11_dot_star_between_literals :
  let nf : rune -> rune -> bool := fun _ _ => false in
  let foo := Literal false [102; 111; 111] in
  let bar := Literal false [98; 97; 114] in
  search nf (Concat [foo; Star AnyCharNotNL; bar]) [102; 111; 111; 10; 102; 111; 111; 32; 98; 97; 114] /\
  ~ search nf (Concat [foo; Star AnyCharNotNL; bar]) [102; 111; 111; 10; 98; 97; 114] /\
  search nf (Concat [foo; Star AnyChar; bar]) [102; 111; 111; 10; 98; 97; 114].
Proof. exact dot_star_between_literals. Qed.

(* non-vacuity: every path is selected for some tree, the hypotheses are satisfiable, and a matcher really runs *)
Example c11_paths :
  gen_compileOptimized [102;111;111] (Literal false [102;111;111]) = Ok (Some (MContains [102;111;111])) /\
  gen_compileOptimized [] (Concat [Star AnyCharNotNL; Literal false [102]; Star AnyCharNotNL]) = Ok (Some (MContains [102])) /\
  gen_compileOptimized [] (Concat [BeginText; Literal false [248]]) = Ok (Some (MPrefix [195;184])) /\
  gen_compileOptimized [] (Concat [Literal false [102]; EndText]) = Ok (Some (MSuffix [102])) /\
  gen_compileOptimized [] (Concat [BeginText; Literal false [102]; EndText]) = Ok (Some (MEq [102])) /\
  gen_compileOptimized pat_upper (Concat [BeginText; CharClass [(65, 90)]]) = Ok (Some (MPrefixPred PredIsUpper)) /\
  gen_compileOptimized [] (Literal true [70]) = Ok None /\
  gen_compileOptimized [] (Literal false [65533]) = Ok None /\
  gen_compileOptimized [] (Concat [BeginText; Literal false [55296]]) = Ok None /\
  gen_compileOptimized [] (Concat [Star AnyChar; Literal false [102]; Star AnyCharNotNL]) = Ok None.
Proof. repeat split; vm_compute; reflexivity. Qed.

(* the hypothesis on the table is satisfiable for the table of the current source, whatever entries it has: a toy unicode
   (three classes) and the parses that go with it *)
Example c11_hypotheses_satisfiable :
  let pred_rg := fun p => match p with PredIsUpper => [(65, 90)] | PredIsLower => [(97, 122)] | _ => [(48, 57)] end in
  let pred_fn := fun p c => in_ranges (pred_rg p) c in
  let parses := map (fun e : bytes * pred_id => (fst e, Concat [BeginText; CharClass (pred_rg (snd e))])) gen_prefix_table in
  (forall s p re, table_find s gen_prefix_table = Some p -> agrees_with parses s re ->
     exists rg, re = Concat [BeginText; CharClass rg] /\ (forall c, in_ranges rg c = pred_fn p c) /\ pred_fn p rune_error = false) /\
  gen_match_bytes pred_fn (MPrefixPred PredIsUpper) [70; 111] = true /\
  gen_match_bytes pred_fn (MPrefixPred PredIsUpper) [] = false /\
  gen_match_bytes pred_fn (MContains [102;111;111]) [255; 102;111;111] = true /\
  gen_match_string pred_fn (MSuffix [102;111;111]) [102;111;111; 10] = false.
Proof.
  cbv zeta. split; [|repeat split].
  apply table_check_sound. vm_compute. reflexivity.
Qed.

(* the decision procedure behind C11_prefix_table_sound is not vacuous: a table entry whose predicate is not the class of
   its pattern string is refused (`^\d` is [0-9]; a predicate that also accepts U+0660..U+0669 is another set) *)
Example c11_wrong_entry_refused :
  entry_ok (fun _ => [(48, 57); (1632, 1641)]) [([94; 92; 100], Concat [BeginText; CharClass [(48, 57)]])] ([94; 92; 100], PredIsDigit) = false /\
  entry_ok (fun _ => [(48, 57)]) [([94; 92; 100], Concat [BeginText; CharClass [(48, 57)]])] ([94; 92; 100], PredIsDigit) = true /\
  (* a class that contains U+FFFD is refused as well: the matcher would accept the empty input *)
  entry_ok (fun _ => [(0, 1114111)]) [([94; 46], Concat [BeginText; CharClass [(0, 1114111)]])] ([94; 46], PredIsPrint) = false.
Proof. repeat split; vm_compute; reflexivity. Qed.
