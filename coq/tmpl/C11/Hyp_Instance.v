(* C11: the hypothesis of C11_fast_path_equiv about the table of prefix classes, DISCHARGED for this run.
   Obs_Unicode.v is written by the check from what the harness observed on this run:
     obs_pred_rg p : the range table of the unicode predicate p, obtained by calling unicode.IsX on every rune
                     0..0x10FFFF(+16) (maximal runs, so canonical);
     obs_parses    : for every pattern string of the regenerated table, the tree syntax.Parse returns.
   The comparison below covers ALL runes (FastPath.table_check_sound). *)
From Coq Require Import List ZArith Lia Bool Arith.
From RG.Base Require Import Outcome GoSlice.
From RG.Regex Require Import Utf8 Regex FastPath GoOps Matcher.
From RGW Require Import Gen_Textmatch Inst_Textmatch Obs_Unicode.
Import ListNotations.
Local Open Scope Z_scope.

Definition obs_pred (p : pred_id) (c : rune) : bool := in_ranges (obs_pred_rg p) c.

(* every entry of the regenerated table: its pattern string parses to `^` + one class, that class is the range table of the
   entry's predicate, and U+FFFD is outside *)
Theorem C11_prefix_table_sound : forallb (entry_ok obs_pred_rg obs_parses) gen_prefix_table = true.
Proof. vm_compute. reflexivity. Qed.

(* fast_path_equiv with the table hypothesis discharged: what is left is that syntax.Parse agrees with the observed parses
   on the table's pattern strings and that unicode.IsX is obs_pred (both observed for every rune on this run) *)
Theorem C11_fast_path_equiv_observed :
  forall (fold_rel : rune -> rune -> bool) (parses_to : bytes -> regex -> Prop),
  (forall s re, parses_to s re -> agrees_with obs_parses s re) ->
  forall s re mt, parses_to s re -> gen_compileOptimized s re = Ok (Some mt) ->
  forall b, bytes_ok b ->
    (gen_match_bytes obs_pred mt b = true <-> search fold_rel re (decode b)) /\
    (gen_match_string obs_pred mt b = true <-> search fold_rel re (decode b)).
Proof.
  intros fold_rel parses_to Hag. apply (gen_fast_path_equiv fold_rel obs_pred parses_to).
  intros s p re Hf Hp. apply (table_check_sound obs_pred_rg obs_parses gen_prefix_table C11_prefix_table_sound s p re Hf).
  apply Hag. exact Hp.
Qed.
Print Assumptions C11_fast_path_equiv_observed.
