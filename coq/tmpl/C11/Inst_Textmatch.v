(* C11: the selection and the matchers REGENERATED from ruleguard/textmatch on this run are the specified ones.
   Together with RG.Regex.FastPath.spec_select_equiv this gives fast_path_equiv for the current source. *)
From Coq Require Import List ZArith Lia Bool Arith.
From RG.Base Require Import Outcome GoSlice.
From RG.Regex Require Import Utf8 Regex FastPath GoOps Matcher.
From RGW Require Import Gen_Textmatch.
Import ListNotations.
Local Open Scope Z_scope.

(* the rune test of the regenerated helper is the model's plain_runeb *)
Lemma gen_plain_is_spec rs : gen_isPlainLiteral rs = forallb plain_runeb rs.
Proof.
  unfold gen_isPlainLiteral. induction rs as [|r rs IH]; [reflexivity|]. cbn [forallb]. rewrite IH. f_equal.
  unfold plain_runeb, valid_rune, rune_error.
  destruct (r =? 65533) eqn:E1; destruct (0 <=? r) eqn:E2; destruct (r <? 55296) eqn:E3;
  destruct (57343 <? r) eqn:E4; destruct (57344 <=? r) eqn:E5; destruct (r <=? 1114111) eqn:E6;
  cbn; try reflexivity; lia.
Qed.

Ltac split_ifs :=
  repeat match goal with
         | |- context [if ?c then _ else _] => destruct c eqn:?
         end.

Lemma gen_isLit_spec re :
  gen_isLit re = Ok (match plain_lit re with Some _ => true | None => false end).
Proof.
  unfold gen_isLit, o_and, bind. destruct re; cbn [op_of op_eqb fold_of runes_of plain_lit negb]; try reflexivity.
  rewrite gen_plain_is_spec. destruct fold; cbn [negb]; [reflexivity|].
  destruct (forallb plain_runeb rs); reflexivity.
Qed.

Lemma gen_isAny_spec re : gen_isAny re = Ok (is_any re).
Proof.
  unfold gen_isAny, o_and, bind. destruct re; cbn; try reflexivity. destruct re; reflexivity.
Qed.

Lemma gen_isBegin_spec re : gen_isBegin re = Ok (is_begin re).
Proof. destruct re; reflexivity. Qed.
Lemma gen_isEnd_spec re : gen_isEnd re = Ok (is_end re).
Proof. destruct re; reflexivity. Qed.

Lemma lit_matcher_plain k re :
  lit_matcher k re = match plain_lit re with Some _ => Some (k (encode (runes_of re))) | None => None end.
Proof.
  unfold lit_matcher. destruct re; cbn; try reflexivity. destruct fold; cbn; [reflexivity|].
  destruct (forallb plain_runeb rs); reflexivity.
Qed.

(* the regenerated selection never panics and is the specified selection, for every pattern string and every syntax tree *)
Theorem gen_select_is_spec s re : gen_compileOptimized s re = Ok (spec_select gen_prefix_table s re).
Proof.
  unfold gen_compileOptimized, spec_select.
  destruct (table_find s gen_prefix_table) as [p_|]; cbn [option_map]; (destruct re; try reflexivity).
  all: try (
    (* Literal *)
    cbn [spec_shape]; rewrite lit_matcher_plain;
    cbn [bind]; rewrite !gen_isLit_spec;
    destruct (plain_lit (Literal fold rs)); reflexivity).
  all: (* Concat *)
    destruct rs as [|a [|b [|c [|d rs]]]]; try reflexivity.
  all: cbn [spec_shape]; rewrite !lit_matcher_plain;
       unfold o_and, sub_at; cbn [bind subs nth_error op_of op_eqb length Nat.eqb];
       rewrite ?gen_isLit_spec, ?gen_isBegin_spec, ?gen_isEnd_spec, ?gen_isAny_spec; cbn [bind];
       repeat match goal with
              | |- context [is_any ?x] => destruct (is_any x) eqn:?
              | |- context [is_begin ?x] => destruct (is_begin x) eqn:?
              | |- context [is_end ?x] => destruct (is_end x) eqn:?
              | |- context [plain_lit ?x] => destruct (plain_lit x) eqn:?
              end; try reflexivity.
  (* what is left is contradictory: a node cannot be both ^ / $ and a literal *)
  all: repeat match goal with
              | H : is_begin ?x = true |- _ => apply is_begin_inv in H; subst x
              | H : is_end ?x = true |- _ => apply is_end_inv in H; subst x
              end; discriminate.
Qed.

(* matchers.go: both entry points are the specified matcher *)
Theorem gen_match_bytes_is_spec pred_fn mt b : gen_match_bytes pred_fn mt b = run_matcher pred_fn mt b.
Proof. destruct mt; cbn; unfold go_contains, go_has_prefix, go_has_suffix, go_equal; try reflexivity; apply bytes_eqb_sym || reflexivity. Qed.

Theorem gen_match_string_is_spec pred_fn mt b : gen_match_string pred_fn mt b = run_matcher pred_fn mt b.
Proof. destruct mt; cbn; unfold go_contains, go_has_prefix, go_has_suffix, go_equal; try reflexivity; apply bytes_eqb_sym || reflexivity. Qed.

(* ------------------------------------------------------------------ fast_path_equiv for the regenerated code *)
Lemma eq_true_iff_l (a b : bool) : a = b -> (a = true <-> b = true).
Proof. intros ->. reflexivity. Qed.

Section Equiv.
Variable fold_rel : rune -> rune -> bool.
Variable pred_fn : pred_id -> rune -> bool.
Variable parses_to : bytes -> regex -> Prop.
Hypothesis table_sound : forall s p re, table_find s gen_prefix_table = Some p -> parses_to s re ->
  exists rg, re = Concat [BeginText; CharClass rg] /\ (forall c, in_ranges rg c = pred_fn p c) /\ pred_fn p rune_error = false.

Lemma gen_fast_path_equiv s re mt :
  parses_to s re -> gen_compileOptimized s re = Ok (Some mt) ->
  forall b, bytes_ok b ->
    (gen_match_bytes pred_fn mt b = true <-> search fold_rel re (decode b)) /\
    (gen_match_string pred_fn mt b = true <-> search fold_rel re (decode b)).
Proof.
  intros Hp Hs b Hb. rewrite gen_select_is_spec in Hs. injection Hs as Hs.
  pose proof (spec_select_equiv fold_rel pred_fn parses_to gen_prefix_table table_sound s re mt Hp Hs b Hb) as H.
  split; (eapply iff_trans; [apply eq_true_iff_l|exact H]).
  - apply gen_match_bytes_is_spec.
  - apply gen_match_string_is_spec.
Qed.

(* the same statement with an executable right-hand side: the matcher answers exactly what the (proved correct)
   reference matcher for the relation answers on the decoded input *)
Lemma gen_fast_path_is_searchb s re mt :
  parses_to s re -> gen_compileOptimized s re = Ok (Some mt) ->
  forall b, bytes_ok b ->
    gen_match_bytes pred_fn mt b = searchb fold_rel re (decode b) /\
    gen_match_string pred_fn mt b = searchb fold_rel re (decode b).
Proof.
  intros Hp Hs b Hb. destruct (gen_fast_path_equiv s re mt Hp Hs b Hb) as [H1 H2].
  split; apply Bool.eq_true_iff_eq; rewrite searchb_correct; assumption.
Qed.
End Equiv.

Lemma gen_select_total s re : exists r, gen_compileOptimized s re = Ok r.
Proof. eexists. apply gen_select_is_spec. Qed.

(* a fast path is taken only for case-sensitive literals all of whose runes round-trip through UTF-8 *)
Lemma gen_literal_paths_only_plain s re v :
  (gen_compileOptimized s re = Ok (Some (MContains v)) \/ gen_compileOptimized s re = Ok (Some (MPrefix v)) \/
   gen_compileOptimized s re = Ok (Some (MSuffix v)) \/ gen_compileOptimized s re = Ok (Some (MEq v))) ->
  exists rs, v = encode rs /\ Forall plain_rune rs /\
    (re = Literal false rs \/ In (Literal false rs) (subs re)).
Proof.
  rewrite !gen_select_is_spec. unfold spec_select.
  destruct (spec_shape re) as [mt|] eqn:E.
  2:{ destruct (table_find s gen_prefix_table); cbn [option_map]; intros [H|[H|[H|H]]]; discriminate. }
  intros H. assert (Hmt : mt = MContains v \/ mt = MPrefix v \/ mt = MSuffix v \/ mt = MEq v).
  { destruct H as [H|[H|[H|H]]]; injection H as ->; auto. }
  clear H. destruct re; cbn [spec_shape] in E; try discriminate.
  - apply lit_matcher_inv in E as (rs' & -> & Hp & ->). exists rs'.
    destruct Hmt as [H|[H|[H|H]]]; try discriminate H. injection H as <-. auto.
  - destruct rs as [|a [|b [|c [|d rs]]]]; try discriminate.
    + destruct (is_begin a).
      * apply lit_matcher_inv in E as (rs' & -> & Hp & ->). exists rs'.
        destruct Hmt as [H|[H|[H|H]]]; try discriminate H. injection H as <-. cbn. intuition auto.
      * destruct (is_end b); [|discriminate].
        apply lit_matcher_inv in E as (rs' & -> & Hp & ->). exists rs'.
        destruct Hmt as [H|[H|[H|H]]]; try discriminate H. injection H as <-. cbn. intuition auto.
    + destruct (is_any a && is_any c).
      * apply lit_matcher_inv in E as (rs' & -> & Hp & ->). exists rs'.
        destruct Hmt as [H|[H|[H|H]]]; try discriminate H. injection H as <-. cbn. intuition auto.
      * destruct (is_begin a && is_end c); [|discriminate].
        apply lit_matcher_inv in E as (rs' & -> & Hp & ->). exists rs'.
        destruct Hmt as [H|[H|[H|H]]]; try discriminate H. injection H as <-. cbn. intuition auto.
Qed.

(* the three predicate call sites hand the text to the compiled pattern and return its verdict unchanged; the loader
   compiles Text.Matches with textmatch.Compile and the File() predicates with regexp.Compile and passes the result on;
   a reused RunnerState holds nothing that could keep an answer, the runner object is overwritten wholesale by every Run()
   and the predicates read this run's context and file name *)
Lemma match_sites_hold : forallb snd gen_match_sites = true /\ (11 <= List.length gen_match_sites)%nat.
Proof. split; [vm_compute; reflexivity|vm_compute; lia]. Qed.
