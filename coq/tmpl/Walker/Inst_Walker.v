(* Walker family (C01 C09 C16): the generic theorems instantiated with the tables REGENERATED from /repo on this
   run (Gen_AstSchema: go/ast's own walk order; Gen_Walker: ruleguard/ast_walker.go:walk; Gen_WalkTags: gogrep's
   nodetag.FromNode).  The finite obligations are closed by vm_compute; everything else is the generic proof. *)
From Coq Require Import List NArith Bool Arith Lia.
From RG.Ast Require Import Tree Walker WalkerProof WalkSpec WfCheck.
From RGW Require Import Gen_AstSchema Gen_Walker Gen_WalkTags.
Import ListNotations.

Definition AF : nat := 400.

Fixpoint lookup {A} (l : list (N * A)) (k : N) : option A :=
  match l with [] => None | (k', a) :: l' => if N.eqb k' k then Some a else lookup l' k end.

Definition in_kinds (k : N) : bool := existsb (N.eqb k) gen_kinds.

(* restricted to the kinds that can occur below an *ast.File *)
Definition gen_table (k : N) : list act :=
  if in_kinds k then match lookup gen_walker k with Some a => a | None => [] end else [].
Definition gen_tag (k : N) : option N := if in_kinds k then lookup gen_tag_of_kind k else None.
Definition gen_sch (k : N) : list (N * bool) :=
  if in_kinds k then match lookup gen_schema k with Some a => a | None => [] end else [].

Definition gen_spec : N -> kspec := spec_of gen_k_IfStmt gen_f_Body gen_f_Else gen_k_FuncDecl gen_tag gen_sch.

Definition dflt_spec : kspec := {| ktag := None; kfields := []; kdead := fun _ _ d => d; ksetf := false |}.

(* ---- the per-run finite obligation: every kind's action list, run in all six flag configurations, visits with
   the kind's tag, walks exactly the go/ast child fields in order (comment-only fields optional), under the dead flag
   the C16 specification demands, with the node as current function exactly below a FuncDecl, and leaves flag,
   function and node path as it found them ---- *)
Lemma kinds_ok : forallb (fun k => kind_ok AF gen_frame (gen_table k) (gen_spec k)) gen_kinds = true.
Proof. vm_compute. reflexivity. Qed.

Lemma dflt_ok : kind_ok AF gen_frame [] dflt_spec = true.
Proof. vm_compute. reflexivity. Qed.

Lemma special_kinds_listed : in_kinds gen_k_IfStmt = true /\ in_kinds gen_k_FuncDecl = true /\ in_kinds gen_k_File = true.
Proof. vm_compute. auto. Qed.

Lemma in_kinds_false k : ~ In k gen_kinds -> in_kinds k = false.
Proof.
  intros H. unfold in_kinds. destruct (existsb (N.eqb k) gen_kinds) eqn:E; [|reflexivity].
  apply existsb_exists in E as (x & Hx & He). apply N.eqb_eq in He. subst x. contradiction.
Qed.

Lemma in_kinds_In k : in_kinds k = true -> In k gen_kinds.
Proof. unfold in_kinds. intros E. apply existsb_exists in E as (x & Hx & He). apply N.eqb_eq in He. now subst x. Qed.

Lemma outside k : ~ In k gen_kinds -> gen_table k = [] /\ gen_spec k = dflt_spec.
Proof.
  intros H. pose proof (in_kinds_false k H) as Hk. destruct special_kinds_listed as (Hif & Hfd & _).
  assert (k <> gen_k_IfStmt) by (intros ->; apply H; now apply in_kinds_In).
  assert (k <> gen_k_FuncDecl) by (intros ->; apply H; now apply in_kinds_In).
  split.
  - unfold gen_table. now rewrite Hk.
  - unfold gen_spec, spec_of, gen_tag, gen_sch, dflt_spec. rewrite Hk.
    destruct (N.eqb_spec k gen_k_IfStmt); [contradiction|]. destruct (N.eqb_spec k gen_k_FuncDecl); [contradiction|].
    reflexivity.
Qed.

Lemma table_ok : forall k, kind_ok AF gen_frame (gen_table k) (gen_spec k) = true.
Proof. exact (table_ok_all AF gen_frame gen_table gen_spec gen_kinds dflt_spec kinds_ok dflt_ok outside). Qed.

(* a walk of a typed-nil pointer would dereference nil in the callee's case: every optional pointer field
   whose kind has a case in the walker is nil-guarded *)
Definition nil_hazards : list (N * N * N) :=
  filter (fun t => match t with (k, f, target) =>
            existsb (fun u => N.eqb (fst u) k && N.eqb (snd u) f) gen_unguarded_walks &&
            match gen_table target with [] => false | _ => true end end) gen_optional_ptr_fields.
Lemma no_nil_hazard : nil_hazards = [].
Proof. vm_compute. reflexivity. Qed.

(* ---- the walker of this run, on every tree ---- *)
Definition model_walk (fuel : nat) (n : node) (st : wst) (E : list ev) : rres :=
  walk AF gen_frame gen_table nopanic fuel n st E.

Theorem walker_correct : forall fuel n st E,
  wf gen_spec n -> (height n < fuel)%nat ->
  model_walk fuel n st E = ROk st (E ++ events gen_spec n (w_dead st) (w_func st) (w_stack st)).
Proof. exact (walk_correct AF gen_frame gen_table gen_spec table_ok). Qed.

Definition gen_emit := emit gen_k_IfStmt gen_f_Body gen_f_Else gen_k_FuncDecl gen_tag.
Definition gen_dead_of := dead_of gen_k_IfStmt gen_f_Body gen_f_Else.
Definition gen_func_of := func_of gen_k_FuncDecl.
Definition gen_offered := offered gen_tag.

(* closed form: one event per tagged node, pre-order, each with the flag / function / path of its position *)
Theorem walker_closed_form : forall fuel n st E,
  wf gen_spec n -> (height n < fuel)%nat ->
  model_walk fuel n st E = ROk st (E ++ flat_map (gen_emit (w_dead st) (w_func st) (w_stack st)) (ctx_preorder n)).
Proof.
  intros. rewrite walker_correct by assumption. unfold gen_spec, gen_emit. now rewrite events_by_context.
Qed.

(* the run of a file as rulesRunner.run sets it up: flag false, no current function, empty node path *)
Definition st0 : wst := {| w_dead := false; w_func := None; w_stack := [] |}.

(* ---- name lookups, for examples and for the correspondence files ---- *)
From Coq Require Import String.
Fixpoint index_of (s : string) (l : list string) (i : N) : N :=
  match l with [] => 9999%N | x :: l' => if String.eqb x s then i else index_of s l' (N.succ i) end.
Definition kidx (s : string) : N := index_of s gen_kind_names 0%N.
Definition fidx (s : string) : N := index_of s gen_field_names 0%N.
Definition tidx (s : string) : N := index_of s gen_tag_names 0%N.

(* ---- a concrete well-formed tree exercising the mechanism (non-vacuity) ----
     func f() { if <false> { a } else { b }; c }       ids: a=8  b=11  c=13
   File0[Name: Ident1; Decls: FuncDecl2[Name: Ident3; Type: FuncType4; Body: Block5[List: If6(cond=false)[Cond: Ident7;
     Body: Block8'[...]]]]] *)
Local Open Scope string_scope.
Definition nd (k : string) (i : N) (ch : list (string * node)) : node :=
  Node (kidx k) i None (map (fun p => (fidx (fst p), snd p)) ch).
Definition demo_if (c : option bool) : node :=
  Node (kidx "IfStmt") 6 c
    [ (fidx "Cond", nd "Ident" 7 []);
      (fidx "Body", nd "BlockStmt" 8 [("List", nd "ExprStmt" 9 [("X", nd "Ident" 10 [])])]);
      (fidx "Else", nd "BlockStmt" 11 [("List", nd "ExprStmt" 12 [("X", nd "Ident" 13 [])])]) ].
Definition demo_tree (c : option bool) : node :=
  nd "File" 0
    [ ("Name", nd "Ident" 1 []);
      ("Decls", nd "FuncDecl" 2
         [ ("Name", nd "Ident" 3 []);
           ("Type", nd "FuncType" 4 []);
           ("Body", nd "BlockStmt" 5
              [ ("List", demo_if c);
                ("List", nd "ExprStmt" 14 [("X", nd "Ident" 15 [])]) ]) ]) ].
Close Scope string_scope.

Lemma demo_wf c : wf gen_spec (demo_tree c).
Proof. apply wfb_sound. destruct c as [[|]|]; vm_compute; reflexivity. Qed.

(* ---- executable comparison of the model with the implementation's recorded visits (correspondence files) ---- *)
Local Open Scope N_scope.
Fixpoint nlist_eqb (a b : list N) : bool :=
  match a, b with [], [] => true | x :: a', y :: b' => N.eqb x y && nlist_eqb a' b' | _, _ => false end.
Definition optn_eqb (a b : option N) : bool :=
  match a, b with None, None => true | Some x, Some y => N.eqb x y | _, _ => false end.
Definition ev_eqb (a b : ev) : bool :=
  N.eqb (e_id a) (e_id b) && N.eqb (e_tag a) (e_tag b) && Bool.eqb (e_dead a) (e_dead b) &&
  optn_eqb (e_func a) (e_func b) && nlist_eqb (e_path a) (e_path b).
Fixpoint first_diff (a b : list ev) (i : N) : option N :=
  match a, b with
  | [], [] => None
  | x :: a', y :: b' => if ev_eqb x y then first_diff a' b' (N.succ i) else Some i
  | _, _ => Some i
  end.
Definition wst_eqb (a b : wst) : bool :=
  Bool.eqb (w_dead a) (w_dead b) && optn_eqb (w_func a) (w_func b) && nlist_eqb (w_stack a) (w_stack b).
Definition E (i t : N) (d : bool) (f : option N) (p : list N) : ev :=
  {| e_id := i; e_tag := t; e_dead := d; e_func := f; e_path := p |}.
Definition St (d : bool) (f : option N) (p : list N) : wst := {| w_dead := d; w_func := f; w_stack := p |}.

(* result codes: 0 agree; 1 tree not well-formed w.r.t. the generated schema; 2 visits differ at index;
   3 context after the walk differs; 4 the model has no result *)
Definition check_walk (T : node) (st : wst) (hook : list ev) : N * N :=
  if negb (wfb gen_spec T) then (1, 0) else
  match model_walk (S (height T)) T st [] with
  | ROk st' evs => if negb (wst_eqb st' st) then (3, 0)
                   else match first_diff evs hook 0 with None => (0, 0) | Some i => (2, i) end
  | _ => (4, 0)
  end.
(* the callback panics at the visit of node pid: same visits up to there, node path unwound *)
Definition check_panic (T : node) (st : wst) (pid : N) (hook : list ev) (after_stack : list N) : N * N :=
  match walk AF gen_frame gen_table (fun e => N.eqb (e_id e) pid) (S (height T)) T st [] with
  | RPanic stk evs => if negb (nlist_eqb stk after_stack) then (3, 0)
                      else match first_diff evs hook 0 with None => (0, 0) | Some i => (2, i) end
  | _ => (4, 0)
  end.
