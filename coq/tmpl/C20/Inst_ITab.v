(* C20: obligations about the import table's data structure as TRANSLATED from ruleguard/typematch on this run
   (Gen_ITab.v: struct field, constructor, Lookup / Load / EnterScope / LeaveScope over the Go-level vocabulary of
   RG.Types.ITabGo). Each translated method refines the corresponding operation of the model of RG.Types.ImportsTab under
   the abstraction "the slice of maps, reversed" -- so the model's theorems (balance, most-recent-live-binding) are theorems
   about the translated source. *)
From Coq Require Import List String Bool ZArith Lia.
From RG.Base Require Import Outcome.
From RG.Types Require Import ImportsTab ITabGo.
From RGW Require Import Gen_ITab.
Import ListNotations.
Local Open Scope string_scope.

Lemma itab_is_a_slice_of_maps : gen_itab_field = ("imports", "[]map[string]string")
  /\ gen_itab_method_set = ["EnterScope"; "LeaveScope"; "Load"; "Lookup"].
Proof. split; reflexivity. Qed.

Lemma new_refines init : abs (gen_new init) = [init].
Proof. reflexivity. Qed.

Lemma lookup_refines t name : gen_lookup t name = Ok (lookup (abs t) name).
Proof.
  unfold gen_lookup.
  assert (E : loop_down (glen t - 1) (fun i => bind (gidx t i) (fun m =>
                match gmap_get m name with Some p => Ok (Some p) | None => Ok None end)) = ref_lookup t name).
  { unfold ref_lookup, loop_down. apply down_first_ext. intros k _. destruct (gidx t (Z.of_nat k)) as [m|w]; cbn; [|reflexivity].
    destruct (gmap_get m name); reflexivity. }
  rewrite E, ref_lookup_refines. cbn. destruct (lookup (abs t) name); reflexivity.
Qed.

Lemma load_refines t name path : omap abs (gen_load t name path) = load (abs t) name path.
Proof. exact (ref_load_refines t name path). Qed.

Lemma enter_refines t : abs (gen_enter t) = enter (abs t).
Proof. exact (ref_enter_refines t). Qed.

Lemma leave_refines t : omap abs (gen_leave t) = leave (abs t).
Proof. exact (ref_leave_refines t). Qed.

(* scripts over the translated operations *)
Definition gen_exec := g_exec gen_load gen_enter gen_leave.

Lemma gen_exec_refines ops t : omap abs (gen_exec t ops) = exec (abs t) ops.
Proof. apply g_exec_refines; [exact load_refines|exact enter_refines|exact leave_refines]. Qed.

Lemma gen_script_balanced ops t : wf_script 0 ops = true -> gen_exec t ops = Ok t.
Proof. apply g_script_balanced; [exact load_refines|exact enter_refines|exact leave_refines]. Qed.

(* a lookup through the translated Lookup after any history of translated operations on NewImportsTab(init) *)
Lemma gen_lookup_is_most_recent_live_binding init h t name :
  gen_exec (gen_new init) h = Ok t -> gen_lookup t name = Ok (hist_lookup 0 (rev h) name init).
Proof.
  intros E. rewrite lookup_refines. f_equal.
  pose proof (gen_exec_refines h (gen_new init)) as R. rewrite E in R. cbn [omap] in R. rewrite new_refines in R.
  symmetry in R. apply (lookup_is_most_recent_live_binding init h (abs t) name R).
Qed.
