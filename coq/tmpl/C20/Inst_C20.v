(* C20: obligations about code and tables REGENERATED from /repo (and the stdinfo module its go.mod selects) on this run
   (Gen_C20.v, go2coq c20tables). *)
From Coq Require Import List ZArith Bool String Lia.
From RG.Base Require Import Outcome.
From RG.Types Require Import ImportsTab StdTab.
From RGW Require Import Gen_C20.
Import ListNotations.
Local Open Scope string_scope.

(* ---- the engine's base table *)
(* an import table is created in exactly two places (Load, LoadFromIR), both seeded with stdinfo.PathByName itself *)
Lemma base_table_is_PathByName :
  gen_itab_creators = [("ruleguard/engine.go", "engine.Load", "stdinfo.PathByName");
                       ("ruleguard/engine.go", "engine.LoadFromIR", "stdinfo.PathByName")].
Proof. reflexivity. Qed.

(* ... and stdinfo.PathByName / PackagesList are the two literals read below (the package has no code that could change them) *)
Lemma stdinfo_tables_are_the_literals :
  gen_stdinfo_exports = [("PathByName", "generatedPathByName"); ("PackagesList", "generatedPackagesList")].
Proof. reflexivity. Qed.

(* the table changes only inside loadRuleGroup: scope entered, its exit deferred, Import()s loaded -- the shape load_group models *)
Lemma table_changes_only_in_loadRuleGroup :
  gen_itab_mutators = [("ruleguard/ir_loader.go", "irLoader.loadRuleGroup", "EnterScope");
                       ("ruleguard/ir_loader.go", "irLoader.loadRuleGroup", "defer LeaveScope");
                       ("ruleguard/ir_loader.go", "irLoader.loadRuleGroup", "Load")].
Proof. reflexivity. Qed.

(* names are looked up by the three resolvers of the model and nowhere else *)
Definition known_lookup (s : string * string * string) : bool :=
  existsb (fun k => String.eqb (fst k) (fst (fst s)) && String.eqb (snd k) (snd (fst s)))
    [("ruleguard/ir_loader.go", "irLoader.unwrapFuncRefExpr"); ("ruleguard/ir_loader.go", "irLoader.unwrapInterfaceExpr");
     ("ruleguard/typematch/typematch.go", "parseExpr")].
Lemma lookups_are_the_modelled_resolvers :
  forallb known_lookup gen_itab_lookups = true /\
  forallb (fun k => existsb (fun s => String.eqb (snd (fst s)) k) gen_itab_lookups)
          ["irLoader.unwrapFuncRefExpr"; "irLoader.unwrapInterfaceExpr"; "parseExpr"] = true.
Proof. split; vm_compute; reflexivity. Qed.

(* a parsed type pattern is the resolution of a string under ONE import table: nothing of the engine keeps patterns
   outside the filter closure they were parsed for (no cache that would have to be keyed by the table) *)
Lemma no_store_of_parsed_patterns : gen_pattern_holders = [].
Proof. reflexivity. Qed.

(* ---- the table itself *)
Definition engine_std : scope := gen_path_by_name.

Lemma std_keys_bound_once : NoDup (map fst engine_std).
Proof. apply nodupb_sound. vm_compute. reflexivity. Qed.

Lemma std_table_checked : table_okb gen_packages_list engine_std = true.
Proof. vm_compute. reflexivity. Qed.

(* every name the table binds is bound to a std package of that name, and to the most commonly imported one *)
Lemma std_defaults_documented : forall n p, sassoc n engine_std = Some p -> documented_default gen_packages_list n p.
Proof. exact (table_ok gen_packages_list engine_std std_table_checked). Qed.

(* the bound path really ends in the name *)
Lemma std_paths_end_in_their_name : forallb (fun np => String.eqb (base (snd np)) (fst np)) engine_std = true.
Proof. vm_compute. reflexivity. Qed.

(* the base names shared by several std packages, all of them, and what each means *)
Lemma std_ambiguous_names :
  ambiguous_names gen_packages_list = ["pprof"; "rand"; "scanner"; "template"] /\
  map (fun n => sassoc n engine_std) ["pprof"; "rand"; "scanner"; "template"] =
    [Some "runtime/pprof"; Some "math/rand"; Some "go/scanner"; Some "text/template"].
Proof. split; vm_compute; reflexivity. Qed.

(* rebuilding the table from PackagesList with "the last entry wins" is NOT the documented table *)
Lemma std_last_wins_is_not_documented :
  last_wins gen_packages_list "rand" = Some "crypto/rand" /\ sassoc "rand" engine_std = Some "math/rand".
Proof. split; vm_compute; reflexivity. Qed.

(* the engine's base table is the single scope [engine_std] *)
Lemma base_lookup n : lookup [engine_std] n = sassoc n engine_std.
Proof. cbn [lookup]. destruct (sassoc n engine_std); reflexivity. Qed.

Lemma base_lookup_documented : forall n p, lookup [engine_std] n = Some p -> documented_default gen_packages_list n p.
Proof. intros n p H. rewrite base_lookup in H. exact (std_defaults_documented n p H). Qed.
