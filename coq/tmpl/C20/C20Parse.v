(* Property C20, "a name that cannot be resolved is a load error", for a qualified name ANYWHERE inside a type string --
   theorems only. The clauses are those of typematch.parseExpr as transcribed on this run (Gen_Parse.v); the generic theory
   is RG.Types.TypeExprParse. *)
From Coq Require Import List String Bool.
From RG.Base Require Import Outcome.
From RG.Types Require Import ImportsTab TypeExprParse.
From RGW Require Import Gen_Parse Inst_Parse.
Import ListNotations.
Local Open Scope string_scope.


(* for every clause of the type switch, every node, every result of the recursive calls and every outcome of the conditions
   that do not test a sub-pattern for nil: when the clause returns a pattern, the recursive call on EVERY type child of the node
   (pointer / slice / array element, map key and element, channel element, every parameter, result, field, embedded method
   set) returned non-nil, and the pattern stores no nil *)
Theorem C20_every_clause_passes_nil_upwards : forall kind body, In (kind, body) gen_parse_clauses ->
  forall rec oracle e p, (forall x q, rec x = Some q -> nonil q = true) ->
  run_clause rec oracle e body = Some p ->
  nonil p = true /\ Forall (fun c => rec c <> None) (sig_children (ast_sig kind) e).
Proof. exact clause_passes_nil_upwards. Qed.
Print Assumptions C20_every_clause_passes_nil_upwards.

(* a qualified name whose package the import table does not bind -- in whatever position, at whatever depth -- makes the whole
   type string unparsable (typematch.Parse: "can't convert ... type expression" -> the rule's load error) *)
Theorem C20_unbound_name_anywhere_is_unparsable : forall lk orc e, unbound_in lk e -> forall n, parse_type_expr lk orc n e = None.
Proof. exact unbound_name_anywhere_is_unparsable. Qed.
Print Assumptions C20_unbound_name_anywhere_is_unparsable.

(* in the terms of the resolver model: `pkg.T` somewhere inside the type expression with resolve (RTypePat pkg T) = None --
   then the translated parser answers nil AND the model's request for the whole string (RTypeExpr, any list of names that
   contains this one) is unresolvable, hence (C20_unresolvable_is_load_error) the group fails to load *)
Theorem C20_unresolvable_name_anywhere_is_a_load_error : forall world t g orc e pkg name qs,
  has_qname e pkg name -> ~ (pkg = "unsafe" /\ name = "Pointer") ->
  resolve world t (RTypePat pkg name) = None ->
  In (pkg, name) qs ->
  (forall n, parse_type_expr (lookup t) orc n e = None) /\
  resolve world t (RTypeExpr qs) = None /\
  (g_skip g = false -> In (RTypeExpr qs) (g_reqs g) -> forall t2, load_all (enter t2) (g_imports g) = Ok t ->
   group_result world t2 g = GFailed).
Proof. exact unresolvable_name_anywhere_is_a_load_error. Qed.
Print Assumptions C20_unresolvable_name_anywhere_is_a_load_error.

(* whatever is parsed stores no nil sub-pattern (what MatchIdentical would dereference during Run) *)
Theorem C20_parsed_patterns_store_no_nil : forall lk orc n e p, parse_type_expr lk orc n e = Some p -> nonil p = true.
Proof. exact parsed_patterns_no_nil. Qed.
Print Assumptions C20_parsed_patterns_store_no_nil.

(* the leaf itself: the translated *ast.SelectorExpr clause is the model's resolver for type patterns (the table, only the table) *)
Theorem C20_leaf_resolves_through_the_table : forall world t pkg name,
  ~ (pkg = "unsafe" /\ name = "Pointer") ->
  gen_case_selector (lookup t) (qualified pkg name) =
  match resolve world t (RTypePat pkg name) with Some (ResType p n) => Some (GNamed p n) | _ => None end.
Proof. exact selector_is_the_models_resolve. Qed.
Print Assumptions C20_leaf_resolves_through_the_table.

(* ---- the hypotheses are satisfiable, the conclusions not vacuous: map[string][]*io.Reader parses when io is bound ... *)
Definition ident (s : string) : texpr := TE "Ident" s [].
Definition ex_type (pkg : string) : texpr :=
  TE "MapType" "" [("Key", ident "string"); ("Value", TE "ArrayType" "" [("Elt", TE "StarExpr" "" [("X", qualified pkg "Reader")])])].
Definition ex_lk (pkg : string) : option string := if String.eqb pkg "io" then Some "io" else None.
(* conditions: an identifier is a builtin type name; an array type without a length is a slice *)
Definition ex_orc (e : texpr) (k : nat) : bool := true.

Example c20_parse_resolvable :
  parse_type_expr ex_lk ex_orc 8 (ex_type "io") =
  Some (GP "opMap" [Some (GP "opBuiltinType" []); Some (GP "opSlice" [Some (GP "opPointer" [Some (GNamed "io" "Reader")])])]).
Proof. vm_compute. reflexivity. Qed.
(* ... and is nil when the name at depth 3 is not bound *)
Example c20_parse_unresolvable : parse_type_expr ex_lk ex_orc 8 (ex_type "nosuchpkg") = None /\ has_qname (ex_type "nosuchpkg") "nosuchpkg" "Reader".
Proof.
  split; [vm_compute; reflexivity|].
  eapply Q_child; [discriminate|right; left; reflexivity|]. eapply Q_child; [discriminate|left; reflexivity|].
  eapply Q_child; [discriminate|left; reflexivity|]. apply Q_qualified.
Qed.
