(* C20: obligations about typematch.parseExpr as TRANSCRIBED from /repo on this run (Gen_Parse.v, go2coq c20parse). *)
From Coq Require Import List String Bool.
From RG.Base Require Import Outcome.
From RG.Types Require Import ImportsTab TypeExprParse.
From RGW Require Import Gen_Parse.
Import ListNotations.
Local Open Scope string_scope.

(* every clause of the type switch passes the nil-flow checker: a recursive call on every type child, each tested for nil
   before the clause builds its pattern, nothing untested appended to a slice of sub-patterns *)
Lemma every_clause_passes_nil_upwards : clauses_ok gen_parse_clauses = true.
Proof. vm_compute. reflexivity. Qed.

(* the clause for *ast.SelectorExpr: `pkg.T` with an unbound package name is nil ... *)
Lemma selector_unbound_is_nil lk e : unbound_selector lk e -> gen_case_selector lk e = None.
Proof.
  intros (_ & x & HX & HK & HL & HU). unfold gen_case_selector. rewrite HX, HK. rewrite String.eqb_refl. cbn [negb].
  destruct (String.eqb (te_text x) "unsafe" && String.eqb (te_text e) "Pointer")%bool eqn:U.
  - apply andb_true_iff in U as [U1 U2]. apply String.eqb_eq in U1. apply String.eqb_eq in U2. exfalso. apply HU. split; assumption.
  - rewrite HL. reflexivity.
Qed.

(* ... it stores no sub-pattern at all ... *)
Lemma selector_stores_no_nil lk e p : gen_case_selector lk e = Some p -> nonil p = true.
Proof.
  unfold gen_case_selector. destruct (hd_error (labelled e "X")) as [x|]; [|discriminate].
  destruct (negb (String.eqb (te_kind x) "Ident")); [discriminate|].
  destruct (String.eqb (te_text x) "unsafe" && String.eqb (te_text e) "Pointer")%bool.
  - intros H. inversion H; subst. reflexivity.
  - destruct (lk (te_text x)); [|discriminate]. intros H. inversion H; subst. reflexivity.
Qed.

(* ... and a bound one is opNamed{what the table says, the name as written}: the model's `resolve` for type patterns *)
Lemma selector_is_the_models_resolve world t pkg name :
  ~ (pkg = "unsafe" /\ name = "Pointer") ->
  gen_case_selector (lookup t) (qualified pkg name) =
  match resolve world t (RTypePat pkg name) with Some (ResType p n) => Some (GNamed p n) | _ => None end.
Proof.
  intros NU. unfold gen_case_selector, qualified, labelled. cbn [te_kids filter fst snd]. rewrite String.eqb_refl.
  cbn [map snd hd_error te_kind te_text]. rewrite String.eqb_refl. cbn [negb].
  destruct (String.eqb pkg "unsafe" && String.eqb name "Pointer")%bool eqn:U.
  - apply andb_true_iff in U as [U1 U2]. apply String.eqb_eq in U1. apply String.eqb_eq in U2. exfalso. apply NU. split; assumption.
  - cbn [resolve]. destruct (lookup t pkg); reflexivity.
Qed.

Definition parse_type_expr (lk : string -> option string) (orc : texpr -> nat -> bool) (n : nat) (e : texpr) : option gpat :=
  parse_fuel gen_parse_clauses gen_case_selector lk orc n e.

Lemma clause_passes_nil_upwards kind body : In (kind, body) gen_parse_clauses ->
  forall rec oracle e p, (forall x q, rec x = Some q -> nonil q = true) ->
  run_clause rec oracle e body = Some p ->
  nonil p = true /\ Forall (fun c => rec c <> None) (sig_children (ast_sig kind) e).
Proof.
  intros Hin rec oracle e p Hrec Hrun.
  pose proof every_clause_passes_nil_upwards as OK. unfold clauses_ok in OK. rewrite forallb_forall in OK. specialize (OK _ Hin).
  cbn [fst snd] in OK. apply andb_true_iff in OK as [_ OK].
  exact (clause_ok_sound rec oracle e (ast_sig kind) Hrec body p OK Hrun).
Qed.

Lemma unbound_name_anywhere_is_unparsable lk orc e : unbound_in lk e -> forall n, parse_type_expr lk orc n e = None.
Proof.
  intros U n. unfold parse_type_expr.
  exact (unbound_name_is_unparsable gen_parse_clauses gen_case_selector lk orc every_clause_passes_nil_upwards
           (selector_unbound_is_nil lk) (selector_stores_no_nil lk) e U n).
Qed.

Lemma parsed_patterns_no_nil lk orc n e p : parse_type_expr lk orc n e = Some p -> nonil p = true.
Proof.
  unfold parse_type_expr.
  exact (parsed_patterns_store_no_nil gen_parse_clauses gen_case_selector lk orc every_clause_passes_nil_upwards (selector_stores_no_nil lk) n e p).
Qed.

Lemma unresolvable_name_anywhere_is_a_load_error world t g orc e pkg name qs :
  has_qname e pkg name -> ~ (pkg = "unsafe" /\ name = "Pointer") ->
  resolve world t (RTypePat pkg name) = None ->
  In (pkg, name) qs ->
  (forall n, parse_type_expr (lookup t) orc n e = None) /\
  resolve world t (RTypeExpr qs) = None /\
  (g_skip g = false -> In (RTypeExpr qs) (g_reqs g) -> forall t2, load_all (enter t2) (g_imports g) = Ok t ->
   group_result world t2 g = GFailed).
Proof.
  intros HQ NU R Hin.
  assert (L : lookup t pkg = None) by (cbn [resolve] in R; destruct (lookup t pkg); [discriminate|reflexivity]).
  split; [|split].
  - apply unbound_name_anywhere_is_unparsable. exact (has_qname_unbound (lookup t) e pkg name HQ L NU).
  - apply (proj2 (type_expr_unresolvable_iff world t qs)). exists pkg, name. split; assumption.
  - intros Hs Hr t2 E. apply unresolvable_is_load_error; [exact Hs|]. exists (RTypeExpr qs), t. split; [exact Hr|]. split; [exact E|].
    apply (proj2 (type_expr_unresolvable_iff world t qs)). exists pkg, name. split; assumption.
Qed.
