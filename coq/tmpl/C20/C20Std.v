(* Property C20 -- theorems about the REGENERATED base table (proved in Inst_C20.v over Gen_C20.v, which go2coq c20tables
   produced on this run from /repo and the stdinfo module its go.mod selects). Theorems only. *)
From Coq Require Import List ZArith Bool String.
From RG.Base Require Import Outcome.
From RG.Types Require Import ImportsTab StdTab.
From RGW Require Import Gen_C20 Inst_C20.
Import ListNotations.
Local Open Scope string_scope.

(* both loaders start from stdinfo.PathByName itself, i.e. from the table `engine_std` regenerated below *)
Theorem C20_base_table_is_stdinfo_PathByName :
  gen_itab_creators = [("ruleguard/engine.go", "engine.Load", "stdinfo.PathByName");
                       ("ruleguard/engine.go", "engine.LoadFromIR", "stdinfo.PathByName")] /\
  gen_stdinfo_exports = [("PathByName", "generatedPathByName"); ("PackagesList", "generatedPackagesList")].
Proof. exact (conj base_table_is_PathByName stdinfo_tables_are_the_literals). Qed.
Print Assumptions C20_base_table_is_stdinfo_PathByName.

(* for EVERY base name: what the base table binds it to is a std package of that name, and among the std packages of that
   name the most commonly imported one ("template" is text/template, "rand" is math/rand, ...) *)
Theorem C20_std_defaults_are_the_documented_ones :
  forall n p, lookup [engine_std] n = Some p -> documented_default gen_packages_list n p.
Proof. exact base_lookup_documented. Qed.
Print Assumptions C20_std_defaults_are_the_documented_ones.

Theorem C20_std_ambiguous_names :
  ambiguous_names gen_packages_list = ["pprof"; "rand"; "scanner"; "template"] /\
  map (fun n => sassoc n engine_std) ["pprof"; "rand"; "scanner"; "template"] =
    [Some "runtime/pprof"; Some "math/rand"; Some "go/scanner"; Some "text/template"].
Proof. exact std_ambiguous_names. Qed.
Print Assumptions C20_std_ambiguous_names.

(* the documented precedence on the engine's real base table: Import() of the group > this table > the name as written *)
Theorem C20_resolution_on_the_engine_table : forall world g r s',
  load_all (enter [engine_std]) (g_imports g) = Ok (s' :: [engine_std]) ->
  (forall n, sassoc n s' = last_import (g_imports g) n) ->
  typepat_known world (g_imports g) engine_std r ->
  resolve world (s' :: [engine_std]) r = doc_resolve world (g_imports g) engine_std r.
Proof. intros world g r s'. exact (resolution_is_documented world engine_std g r s'). Qed.
Print Assumptions C20_resolution_on_the_engine_table.

(* the table is changed only by loadRuleGroup (enter, deferred leave, Import()s): the shape load_group models; and nothing
   keeps parsed patterns across filters (a pattern is a string resolved under one table) *)
Theorem C20_table_discipline_sites :
  gen_itab_mutators = [("ruleguard/ir_loader.go", "irLoader.loadRuleGroup", "EnterScope");
                       ("ruleguard/ir_loader.go", "irLoader.loadRuleGroup", "defer LeaveScope");
                       ("ruleguard/ir_loader.go", "irLoader.loadRuleGroup", "Load")] /\
  gen_pattern_holders = [].
Proof. exact (conj table_changes_only_in_loadRuleGroup no_store_of_parsed_patterns). Qed.
Print Assumptions C20_table_discipline_sites.

(* non-vacuity: a group without imports on the engine's table resolves template / rand to the documented packages *)
Example c20std_import_less_group :
  let w := world_of [("text/template", "Template", KOther); ("html/template", "Template", KOther); ("math/rand", "Rand", KOther);
                     ("math/rand", "Source", KIface ["Int63"])] in
  group_result w [engine_std] (Group false [] [RTypePat "template" "Template"; RTypePat "rand" "Rand"; RIface (IQual "rand" "Source")])
  = GLoaded [ResType "text/template" "Template"; ResType "math/rand" "Rand"; ResIface "math/rand" "Source"] /\
  group_result w [engine_std] (Group false [("template", "html/template")] [RTypePat "template" "Template"])
  = GLoaded [ResType "html/template" "Template"].
Proof. vm_compute. split; reflexivity. Qed.
