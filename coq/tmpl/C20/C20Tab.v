(* Property C20 -- theorems about the import table's data structure as translated from the source on this run. *)
From Coq Require Import List String Bool ZArith.
From RG.Base Require Import Outcome.
From RG.Types Require Import ImportsTab ITabGo.
From RGW Require Import Gen_ITab Inst_ITab.
Import ListNotations.
Local Open Scope string_scope.

(* the translated Lookup / Load / EnterScope / LeaveScope ARE the model's operations (the slice of maps read innermost-first) *)
Theorem C20_translated_table_refines_the_model : forall t,
  (forall name, gen_lookup t name = Ok (lookup (abs t) name)) /\
  (forall name path, omap abs (gen_load t name path) = load (abs t) name path) /\
  abs (gen_enter t) = enter (abs t) /\
  omap abs (gen_leave t) = leave (abs t).
Proof. intros t. repeat split; [apply lookup_refines|apply load_refines|apply enter_refines|apply leave_refines]. Qed.
Print Assumptions C20_translated_table_refines_the_model.

(* whatever a well-bracketed history binds -- any names, any number of times per scope, any nesting -- the real table (its
   slice of maps) is afterwards what it was before *)
Theorem C20_translated_table_is_balanced : forall ops t, wf_script 0 ops = true -> gen_exec t ops = Ok t.
Proof. exact gen_script_balanced. Qed.
Print Assumptions C20_translated_table_is_balanced.

Theorem C20_translated_lookup_is_most_recent_live_binding : forall init h t name,
  gen_exec (gen_new init) h = Ok t -> gen_lookup t name = Ok (hist_lookup 0 (rev h) name init).
Proof. exact gen_lookup_is_most_recent_live_binding. Qed.
Print Assumptions C20_translated_lookup_is_most_recent_live_binding.

Theorem C20_table_is_a_slice_of_maps : gen_itab_field = ("imports", "[]map[string]string")
  /\ gen_itab_method_set = ["EnterScope"; "LeaveScope"; "Load"; "Lookup"].
Proof. exact itab_is_a_slice_of_maps. Qed.

Example c20_translated_two_bindings_of_one_name :
  gen_exec (gen_new [("template", "text/template")])
    [OEnter; OLoad "template" "html/template"; OLoad "template" "text/template"; OLeave] = Ok [[("template", "text/template")]]
  /\ bind (gen_exec (gen_new [("template", "text/template")]) [OEnter; OLoad "template" "html/template"])
          (fun t => gen_lookup t "template") = Ok (Some "html/template").
Proof. vm_compute. split; reflexivity. Qed.
