(* Property C20, "a fully-qualified path/to/pkg.T denotes that package's T regardless of imports": where the name is cut --
   theorems only (the cut is engineState.FindType's as translated on this run, Gen_Fqn.v; the model is RG.Types.FqnSplit). *)
From Coq Require Import List ZArith Bool String Ascii.
From RG.Base Require Import Outcome.
From RG.Types Require Import GoStrings ImportsTab FqnSplit.
From RGW Require Import Gen_Fqn Inst_Fqn.
Import ListNotations.
Local Open Scope string_scope.

(* whatever the package path looks like -- dots in the host name, in a middle element, in the last element (gopkg.in/yaml.v3),
   several of them, no slash at all --, FindType cuts `path.Name` into exactly (path, Name) *)
Theorem C20_fqn_is_cut_at_its_last_dot : forall path name, no_dot name = true -> gen_split_fqn (path ++ "." ++ name) = Some (path, name).
Proof. intros path name H. rewrite translated_cut_is_the_models. apply split_fqn_spec. exact H. Qed.
Print Assumptions C20_fqn_is_cut_at_its_last_dot.

(* ... and whatever it answers is such a cut: the object name has no dot and the two halves make up the string *)
Theorem C20_fqn_cut_is_exact : forall fqn p n, gen_split_fqn fqn = Some (p, n) -> fqn = p ++ "." ++ n /\ no_dot n = true.
Proof. intros fqn p n. rewrite translated_cut_is_the_models. apply split_fqn_inv. Qed.
Print Assumptions C20_fqn_cut_is_exact.

(* a string without a dot is no fully-qualified name (FindType's error; Implements then falls back to the import table) *)
Theorem C20_fqn_without_dot_is_rejected : forall fqn, gen_split_fqn fqn = None <-> no_dot fqn = true.
Proof. intros fqn. rewrite translated_cut_is_the_models. apply split_fqn_none. Qed.
Print Assumptions C20_fqn_without_dot_is_rejected.

(* the model's request for a fully-qualified interface name is IFqn of that cut, and it resolves without the import table *)
Theorem C20_fqn_means_that_package_regardless_of_imports : forall world t1 t2 path name, no_dot name = true ->
  exists r, fqn_req (path ++ "." ++ name) = Some r /\ r = RIface (IFqn path name) /\ resolve world t1 r = resolve world t2 r /\
            resolve world t1 r = find_iface world path name.
Proof.
  intros world t1 t2 path name H. exists (RIface (IFqn path name)). unfold fqn_req. rewrite (split_fqn_spec path name H).
  repeat split; reflexivity.
Qed.
Print Assumptions C20_fqn_means_that_package_regardless_of_imports.

Theorem C20_fqn_halves_feed_exact_lookups :
  gen_fqn_uses = [("findDependency", "currentPkg, pkgPath"); ("lookupType", "directDep, pkgPath, objectName");
                  ("importer.Import", "pkgPath"); ("lookupType", "pkg, pkgPath, objectName")].
Proof. exact (proj2 halves_feed_the_lookup). Qed.

(* every cache FindType consults or fills is keyed by the whole fully-qualified string (the per-importer one together with the
   asking package): an answer is never served for another name with the same last element or the same package *)
Theorem C20_fqn_caches_are_keyed_by_the_whole_name :
  gen_fqn_cache_keys = [("importer.depTypes", "depTypeKey{pkg: currentPkg, fqn: fqn}"); ("state.typeByFQN", "fqn")] /\
  gen_fqn_key_structs = [("depTypeKey", "pkg *types.Package; fqn string")].
Proof. exact (proj2 caches_are_keyed_by_the_whole_name). Qed.

Example c20_fqn_examples :
  gen_split_fqn "gopkg.in/yaml.v3.Marshaler" = Some ("gopkg.in/yaml.v3", "Marshaler") /\
  gen_split_fqn "example.com/c20/lib/multi.dot.v2.Iface" = Some ("example.com/c20/lib/multi.dot.v2", "Iface") /\
  gen_split_fqn "example.com/c20/lib/v1.2/plain.T" = Some ("example.com/c20/lib/v1.2/plain", "T") /\
  gen_split_fqn "io.Reader" = Some ("io", "Reader") /\ gen_split_fqn "Reader" = None.
Proof. vm_compute. repeat split; reflexivity. Qed.
