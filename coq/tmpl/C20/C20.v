(* Property C20 -- theorems only (proved in RG.Types.ImportsTab over the model of the scoped import table, group loading
   and the three resolvers; every run executes the model on the harness' rules files against the real Load). *)
From Coq Require Import List String Bool.
From RG.Base Require Import Outcome.
From RG.Types Require Import ImportsTab.
Import ListNotations.
Local Open Scope string_scope.

(* after loading a group on any path (skipped by GroupFilter, loaded, failed) the import table is the table before *)
Theorem C20_scope_balanced : forall world t g, exists r, load_group world t g = Ok (t, r).
Proof. exact scope_balanced. Qed.
Print Assumptions C20_scope_balanced.

(* every group of a file resolves exactly as it would alone on the base table: no Import() of another group, in any
   order, skipped or not, reaches it *)
Theorem C20_imports_do_not_leak : forall world t gs, exists rs,
  load_file world t gs = Ok (t, rs) /\
  Forall2 (fun g r => r = group_result world t g) (firstn (List.length rs) gs) rs.
Proof. exact imports_do_not_leak. Qed.
Print Assumptions C20_imports_do_not_leak.

(* Import() of the current group > stdlib default > the name as written, for all three resolvers *)
Theorem C20_resolution_is_documented : forall world std g r s',
  load_all (enter [std]) (g_imports g) = Ok (s' :: [std]) ->
  (forall n, sassoc n s' = last_import (g_imports g) n) ->
  typepat_known world (g_imports g) std r ->
  resolve world (s' :: [std]) r = doc_resolve world (g_imports g) std r.
Proof. exact resolution_is_documented. Qed.
Print Assumptions C20_resolution_is_documented.

Theorem C20_group_resolves_documented : forall world std g,
  g_skip g = false -> Forall (typepat_known world (g_imports g) std) (g_reqs g) ->
  group_result world [std] g =
    match (fix go rs := match rs with
                        | [] => Some []
                        | r :: rest => match doc_resolve world (g_imports g) std r with
                                       | None => None
                                       | Some x => match go rest with Some xs => Some (x :: xs) | None => None end
                                       end
                        end) (g_reqs g) with
    | Some xs => GLoaded xs
    | None => GFailed
    end.
Proof. exact group_resolves_documented. Qed.
Print Assumptions C20_group_resolves_documented.

Theorem C20_unresolvable_is_load_error : forall world t g,
  g_skip g = false ->
  (exists r t2, In r (g_reqs g) /\ load_all (enter t) (g_imports g) = Ok t2 /\ resolve world t2 r = None) ->
  group_result world t g = GFailed.
Proof. exact unresolvable_is_load_error. Qed.
Print Assumptions C20_unresolvable_is_load_error.

(* a type string with several qualified names (`map[foo.K]io.Reader`, a name under any type constructor) is unresolvable
   exactly when one of its names is, wherever that name sits (the translated parser agrees: C20Parse.v) *)
Theorem C20_type_string_unresolvable_iff_a_name_is : forall world t qs,
  resolve world t (RTypeExpr qs) = None <-> exists pkg name, In (pkg, name) qs /\ resolve world t (RTypePat pkg name) = None.
Proof. exact type_expr_unresolvable_iff. Qed.
Print Assumptions C20_type_string_unresolvable_iff_a_name_is.

(* ---- the table itself, under arbitrary scripted histories (EnterScope / Load / LeaveScope in any nesting, any name bound any
   number of times per scope); every run executes `exec` on the harness' scripts against the real typematch.ImportsTab *)
Theorem C20_script_balanced : forall ops t, wf_script 0 ops = true -> exec t ops = Ok t.
Proof. exact script_balanced. Qed.
Print Assumptions C20_script_balanced.

(* a lookup answers with the most recent binding of the name whose scope has not been left, else with the initial table *)
Theorem C20_lookup_is_most_recent_live_binding : forall init h t name,
  exec [init] h = Ok t -> lookup t name = hist_lookup 0 (rev h) name init.
Proof. exact lookup_is_most_recent_live_binding. Qed.
Print Assumptions C20_lookup_is_most_recent_live_binding.

(* loadRuleGroup's effect on the table is the script EnterScope; Load...; LeaveScope, hence balanced whatever it imports *)
Theorem C20_group_is_a_balanced_script : forall imps t,
  load_all (enter t) imps = exec (enter t) (import_ops imps) /\ exec t (group_script imps) = Ok t.
Proof. intros imps t. split; [apply load_all_is_exec|apply group_script_balanced]. Qed.
Print Assumptions C20_group_is_a_balanced_script.

Example c20_script_two_bindings_of_one_name :
  wf_script 0 [OEnter; OLoad "template" "html/template"; OLoad "template" "text/template"; OLeave; OEnter; OLeave] = true /\
  show_trace ["text/template"; "html/template"] ["template"] [("template", "text/template")]
             [OEnter; OLoad "template" "html/template"; OLoad "template" "text/template"; OLeave; OEnter; OLeave]
  = ["0"; "1"; "0"; "0"; "0"; "0"].
Proof. vm_compute. split; reflexivity. Qed.

(* ---- a concrete world: stdlib io and a third-party package with the same base name *)
Definition w : string -> string -> option tkind :=
  world_of [("io", "Reader", KIface ["Read"]); ("io", "Writer", KIface ["Write"]);
            ("example.com/io", "Reader", KIface ["ReadFake"]); ("example.com/io", "Writer", KOther);
            ("example.com/a/foo", "T", KOther); ("example.com/b/foo", "T", KOther)].
Definition std : list (string * string) := [("io", "io")].
Definition g_fake := Group false [("io", "example.com/io")] [RIface (IQual "io" "Reader"); RTypePat "io" "Reader"; RFuncRef "io" "Reader" "ReadFake"].
Definition g_std := Group false [] [RIface (IQual "io" "Reader"); RTypePat "io" "Reader"; RFuncRef "io" "Reader" "Read"].
Definition g_skip_fake := Group true [("io", "example.com/io")] [RIface (IQual "io" "Reader")].
Definition g_both := Group false [("foo", "example.com/a/foo"); ("foo", "example.com/b/foo")] [RTypePat "foo" "T"].

Example c20_import_overrides_stdlib_then_is_gone :
  load_file w [std] [g_fake; g_std] =
  Ok ([std], [GLoaded [ResIface "example.com/io" "Reader"; ResType "example.com/io" "Reader"; ResMethod "example.com/io" "Reader" "ReadFake"];
              GLoaded [ResIface "io" "Reader"; ResType "io" "Reader"; ResMethod "io" "Reader" "Read"]]).
Proof. vm_compute. reflexivity. Qed.
Example c20_skipped_group_leaves_nothing :
  load_file w [std] [g_skip_fake; g_std] =
  Ok ([std], [GSkipped; GLoaded [ResIface "io" "Reader"; ResType "io" "Reader"; ResMethod "io" "Reader" "Read"]]).
Proof. vm_compute. reflexivity. Qed.
Example c20_last_import_wins : group_result w [std] g_both = GLoaded [ResType "example.com/b/foo" "T"].
Proof. vm_compute. reflexivity. Qed.
Example c20_unresolvable_fails :
  group_result w [std] (Group false [("io", "example.com/io")] [RIface (IQual "io" "Writer")]) = GFailed /\
  group_result w [std] (Group false [] [RTypePat "foo" "T"]) = GFailed /\
  group_result w [std] (Group false [] [RFuncRef "io" "Reader" "ReadFake"]) = GFailed.
Proof. vm_compute. repeat split; reflexivity. Qed.
Example c20_type_string_with_two_names :
  group_result w [std] (Group false [("foo", "example.com/a/foo")] [RTypeExpr [("io", "Reader"); ("foo", "T")]]) =
    GLoaded [ResTypes [("io", "Reader"); ("example.com/a/foo", "T")]] /\
  group_result w [std] (Group false [] [RTypeExpr [("io", "Reader"); ("foo", "T")]]) = GFailed /\
  load_file w [std] [Group false [("foo", "example.com/a/foo")] [RTypeExpr [("foo", "T"); ("io", "Reader")]]; Group false [] [RTypeExpr [("io", "Reader"); ("foo", "T")]]] =
    Ok ([std], [GLoaded [ResTypes [("example.com/a/foo", "T"); ("io", "Reader")]]; GFailed]).
Proof. vm_compute. repeat split; reflexivity. Qed.
(* recorded finding type-pattern-unknown-name-accepted: a type pattern naming something the package does not declare loads *)
Theorem C20_unknown_type_name_accepted_refuted :
  group_result w [std] (Group false [] [RTypePat "io" "NoSuchType"]) = GLoaded [ResType "io" "NoSuchType"] /\
  doc_resolve w [] std (RTypePat "io" "NoSuchType") = None.
Proof. vm_compute. split; reflexivity. Qed.
