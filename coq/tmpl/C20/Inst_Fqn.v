(* C20: obligations about engineState.FindType's cut of a fully-qualified name, as TRANSLATED from /repo on this run
   (Gen_Fqn.v, go2coq c20fqn). *)
From Coq Require Import List ZArith Bool String Ascii.
From RG.Base Require Import Outcome.
From RG.Types Require Import GoStrings ImportsTab FqnSplit.
From RGW Require Import Gen_Fqn.
Import ListNotations.
Local Open Scope string_scope.

(* pos := strings.LastIndexByte(fqn, '.'); fqn[:pos]; fqn[pos+1:]  IS the model's cut at the last dot, for every string *)
Lemma translated_cut_is_the_models fqn : gen_split_fqn fqn = split_fqn fqn.
Proof. exact (split_by_last_index_is_split_fqn fqn). Qed.

(* the first half is the package that is looked up among the dependencies / imported, the second the name looked up in its
   scope; nothing else is done with them *)
Lemma halves_feed_the_lookup :
  gen_fqn_halves = ("pkgPath", "objectName") /\
  gen_fqn_uses = [("findDependency", "currentPkg, pkgPath"); ("lookupType", "directDep, pkgPath, objectName");
                  ("importer.Import", "pkgPath"); ("lookupType", "pkg, pkgPath, objectName")].
Proof. split; reflexivity. Qed.

(* lookupType: the object of exactly that name in the package's scope; findDependency: the dependency with exactly that path *)
Lemma helpers_are_exact_lookups :
  gen_lookup_type = "func(pkg *types.Package, pkgPath, objectName string) (types.Type, error) :: obj := pkg.Scope().Lookup(objectName) ;; if obj == nil { return nil, fmt.Errorf(""%s is not found in %s"", objectName, pkgPath) } ;; return obj.Type(), nil" /\
  gen_find_dependency = "func(pkg *types.Package, path string) *types.Package :: if pkg.Path() == path { return pkg } ;; for _, imported := range pkg.Imports() { if dep := findDependency(imported, path); dep != nil && dep.Complete() { return dep } } ;; return nil".
Proof. split; reflexivity. Qed.

(* the block that asks the dependencies of the package being checked runs only with a package and a name that HAS a dot (so the
   halves it slices out are the halves of gen_split_fqn); and what FindType remembers is remembered under the WHOLE name: the
   engine-wide cache under the string as written, the per-importer cache of dependency answers under (asking package, string as
   written) -- the key type has these two fields and no other. A key made of less (the object name, the package path) serves
   the answer for one name to a lookup of another name. *)
Lemma caches_are_keyed_by_the_whole_name :
  gen_fqn_dep_guard = "currentPkg != nil && pos != -1" /\
  gen_fqn_cache_keys = [("importer.depTypes", "depTypeKey{pkg: currentPkg, fqn: fqn}"); ("state.typeByFQN", "fqn")] /\
  gen_fqn_key_structs = [("depTypeKey", "pkg *types.Package; fqn string")].
Proof. repeat split; reflexivity. Qed.
