(* C12: handleCommentMatch AS TRANSLATED FROM THE SOURCE (Gen_C12Handler), instantiated on CommentSpec's rules, match data
   and nodes and on the model world (CommentHandler.mworld). Definitions only: the executed model of the correspondence
   runs uses gen_handle_w whether or not the proofs of Inst_CommentHandler.v still go through. *)
From Coq Require Import List ZArith Lia Bool Arith.
From RG.Base Require Import Outcome GoInt GoSlice.
From RG.Regex Require Import Utf8.
From RG.Engine Require Import TruncateSpec RenderSpec RenderLoop CommentSpec CommentLoop CommentHandler.
From RGW Require Import Gen_C12Handler.
Import ListNotations.
Local Open Scope Z_scope.

(* a node value is an option mnode (None = nil); calling Pos() / End() on nil panics *)
Definition nv_pos (nv : option mnode) : outcome Z := match nv with Some nd => Ok (n_pos nd) | None => Panic PNilDeref end.
Definition nv_end (nv : option mnode) : outcome Z := match nv with Some nd => Ok (n_end nd) | None => Panic PNilDeref end.

(* the filter of a rule on the filter parameters' match; renderMessage on match data *)
Definition filter_on (re_match : bytes -> bytes -> option bool) (src : bytes) (r : crule) (m : mdata) : outcome bool :=
  match md_node m with Some whole => eval_filter re_match src (c_filter r) whole (md_caps m) | None => Panic PNilDeref end.
Definition render_on (l : Z) (tpl : bytes) (m : mdata) (trunc : bool) : outcome bytes :=
  match md_node m with
  | Some whole => Ok (render_msg (if trunc then Some l else None) (ccaps_of (md_caps m)) (n_text whole) (n_fix whole) tpl)
  | None => Panic PNilDeref
  end.
Definition captured_on (m : mdata) (v : bytes) : option mnode :=
  match md_node m with Some whole => var_node v whole (md_caps m) | None => None end.
Definition loc_of (r : crule) : bytes := match r_loc (c_rule r) with Some v => v | None => [] end.   (* rule.base.location, "" = none *)

Definition gen_handle_w (re_match : bytes -> bytes -> option bool) (l : Z) (src : bytes)
           (r : crule) (m : mdata) (w : mworld) : outcome (bool * mworld) :=
  gen_handleCommentMatch (R := crule) (M := mdata) (NV := option mnode) (SG := Z * Z * bytes) (INFO := Z) (G := unit) (FN := unit) (FR := bool)
    has_filter (filter_on re_match src) (fun b => b)
    (render_on l)
    md_node captured_on nv_pos nv_end
    (fun r => r_msg (c_rule r)) (fun r => r_sugg (c_rule r)) loc_of (fun _ => tt) (fun r => r_line (c_rule r))
    (fun repl f t => (f, t, repl)) (fun _ ln => ln)
    r m w.
