(* C12: the loader of comment rules as translated from ir_loader.go on this run IS CommentLoad.load_rule: one comment rule
   per regexp of the call, in the written order, each with its own names, flag and line -- for all calls, all answers of
   the regexp compiler, all rule lists loaded before. *)
From Coq Require Import List ZArith Lia Bool Arith.
From RG.Base Require Import Outcome GoInt GoSlice.
From RG.Regex Require Import Utf8.
From RG.Engine Require Import TruncateSpec RenderSpec CommentSpec CommentLoad.
From RGW Require Import Gen_C12Load Def_CommentLoad.
Import ListNotations.
Local Open Scope Z_scope.

Section Inst.
Variable compile : bytes -> option (list bytes).
Variable has_groups : bytes -> bool.

Lemma forallb_pointwise {A} (f g : A -> bool) xs : (forall x, f x = g x) -> forallb f xs = forallb g xs.
Proof. intros H. induction xs as [|x t IH]; cbn; [reflexivity|]. now rewrite H, IH. Qed.

Lemma check_bound_is_vars_bound r names :
  check_bound_vars r r (fun name => negb (subexp_index names name =? -1)) = if vars_bound r names then None else Some tt.
Proof.
  unfold check_bound_vars, vars_bound.
  rewrite (forallb_pointwise _ (fun v => bytes_eqb v dollar2 || binds names v)) by (intros v; now rewrite subexp_index_binds).
  destruct (i_loc r) as [v|]; [rewrite subexp_index_binds|]; reflexivity.
Qed.

(* one alternative: loadCommentRule appends alternative a's own rule, or fails and appends nothing *)
Lemma gen_alt_is_alt_loaded r a ln dst :
  gen_loadCommentRule (P := list bytes) (B := irule * Z) (I := irule) (R := irule) (A := calt) (E := unit) (CR := crule)
    (fun s => match compile s with Some names => inl names | None => inr tt end)
    (fun _ _ _ => tt) check_bound_vars subexp_index (fun b l0 => (fst b, l0)) has_groups (fun b names g => proto_rule names g b)
    i_alts a_pat a_line
    (r, ln) r r (a_pat a) (a_line a) dst =
  match alt_loaded compile has_groups r a with Some cr => (None, dst ++ [cr]) | None => (Some tt, dst) end.
Proof.
  unfold gen_loadCommentRule, alt_loaded. destruct (compile (a_pat a)) as [names|]; [|reflexivity].
  rewrite check_bound_is_vars_bound. destruct (vars_bound r names); reflexivity.
Qed.

Theorem gen_load_rule_is_load_rule r dst :
  to_opt (gen_load_rule compile has_groups r dst) = load_rule compile has_groups r dst.
Proof.
  unfold gen_load_rule, gen_loadRule_comments, load_rule.
  generalize (i_alts r) as alts. intros alts. revert dst.
  induction alts as [|a t IH]; intros dst; cbn [ret_loop load_alts]; [reflexivity|].
  rewrite gen_alt_is_alt_loaded. destruct (alt_loaded compile has_groups r a) as [cr|]; [|reflexivity].
  apply IH.
Qed.

Theorem gen_load_rules_is_load_rules rs : forall dst,
  gen_load_rules compile has_groups rs dst = load_rules compile has_groups rs dst.
Proof.
  induction rs as [|r t IH]; intros dst; cbn [gen_load_rules load_rules]; [reflexivity|].
  rewrite gen_load_rule_is_load_rule. destruct (load_rule compile has_groups r dst); [apply IH|reflexivity].
Qed.

Theorem gen_load_files_is_load_files files : forall dst,
  gen_load_files compile has_groups files dst = load_files compile has_groups files dst.
Proof.
  induction files as [|f t IH]; intros dst; cbn [gen_load_files load_files]; [reflexivity|].
  rewrite gen_load_rules_is_load_rules. destruct (load_rules compile has_groups f []); [apply IH|reflexivity].
Qed.
End Inst.
