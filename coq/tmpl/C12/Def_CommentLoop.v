(* C12: runCommentRules AS TRANSLATED FROM THE SOURCE (Gen_C12Loop), instantiated on CommentSpec's rules, nodes and match
   data. Definitions only: the executed model of the correspondence runs uses gen_run_comment_rules whether or not the
   proofs of Inst_CommentLoop.v still go through. *)
From Coq Require Import List ZArith Lia Bool Arith.
From RG.Base Require Import Outcome GoInt GoSlice.
From RG.Regex Require Import Utf8.
From RG.Engine Require Import TruncateSpec RenderSpec RenderLoop CommentSpec CommentLoop.
From RGW Require Import Gen_C12Loop.
Import ListNotations.
Local Open Scope Z_scope.

(* handleCommentMatch: the model's handler; a report is delivered to the world (the list of reports so far) *)
Definition gen_handle (re_match : bytes -> bytes -> option bool) (l : Z) (src : bytes)
           (r : crule * option (list Z)) (m : mdata) (w : list mreport) : outcome (bool * list mreport) :=
  bind (handle re_match l src (fst r) m) (fun out =>
  match out with Some rep => Ok (true, w ++ [rep]) | None => Ok (false, w) end).

(* a rule comes with the regexp oracle's answer on comment.Text (FindStringIndex = the first pair of it); token.Pos values
   are base-of-file + offset; a comment node is built together with the text nodeText yields for it *)
Definition gen_run_comment_rules (in_range : Z -> Z -> bytes -> outcome bool) (re_match : bytes -> bytes -> option bool)
           (l : Z) (src : bytes) (off : Z) (text : bytes) (base : Z)
           (rules : list (crule * option (list Z))) (w : list mreport) : outcome (list mreport) :=
  gen_runCommentRules (R := crule * option (list Z)) (N := mnode) (M := mdata) (W := list mreport)
    (fun _ => base)
    (fun r => c_groups (fst r))
    (fun r _ => snd r)
    (fun r _ => option_map (firstn 2) (snd r))
    (fun r => c_names (fst r))
    (fun p t => comment_node in_range src (p - base) t)
    md_zero md_add md_set
    (gen_handle re_match l src)
    rules (base + off) text w.
