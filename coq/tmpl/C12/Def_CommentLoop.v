(* C12: runCommentRules AS TRANSLATED FROM THE SOURCE (Gen_C12Loop) calling handleCommentMatch AS TRANSLATED FROM THE SOURCE
   (Gen_C12Handler via Def_CommentHandler), instantiated on CommentSpec's rules, nodes and match data; the world is the
   reused report record, the filter parameters' match and what the Report callback saw (CommentHandler.mworld).
   Definitions only: the executed model of the correspondence runs uses gen_run_comment_rules whether or not the proofs of
   Inst_CommentLoop.v still go through. *)
From Coq Require Import List ZArith Lia Bool Arith.
From RG.Base Require Import Outcome GoInt GoSlice.
From RG.Regex Require Import Utf8.
From RG.Engine Require Import TruncateSpec RenderSpec RenderLoop CommentSpec CommentLoop CommentHandler.
From RGW Require Import Gen_C12Loop Gen_C12Handler Def_CommentHandler.
Import ListNotations.
Local Open Scope Z_scope.

(* a rule comes with the regexp oracle's answer on comment.Text (FindStringIndex = the first pair of it); token.Pos values
   are base-of-file + offset; a comment node is built together with the text nodeText yields for it *)
Definition gen_run_comment_rules (in_range : Z -> Z -> bytes -> outcome bool) (re_match : bytes -> bytes -> option bool)
           (l : Z) (src : bytes) (off : Z) (text : bytes) (base : Z)
           (rules : list (crule * option (list Z))) (w : mworld) : outcome mworld :=
  gen_runCommentRules (R := crule * option (list Z)) (N := mnode) (M := mdata) (W := mworld)
    (fun _ => base)
    (fun r => c_groups (fst r))
    (fun r _ => snd r)
    (fun r _ => option_map (firstn 2) (snd r))
    (fun r => c_names (fst r))
    (fun p t => comment_node in_range src (p - base) t)
    md_zero md_add md_set
    (fun r m w0 => gen_handle_w re_match l src (fst r) m w0)
    rules (base + off) text w.

(* the callback's view of a run: the reports delivered, read back from the snapshots (None = not a comment-rule report:
   nil node or a Func left in the record) *)
Definition reports_of (w : mworld) : list (option mreport) := map report_of (delivered w).

(* a world whose reused record is full of what an earlier report may have left *)
Definition stale_world : mworld :=
  {| rd_RuleInfo := 424242; rd_Node := Some {| n_pos := 1; n_end := 2; n_text := [115]; n_fix := false |}; rd_Message := [115; 116; 97; 108; 101];
     rd_Suggestion := Some (1, 2, [115; 116; 97; 108; 101]); rd_Func := Some tt; fp_match := {| md_caps := [([118], {| n_pos := 0; n_end := 0; n_text := [120]; n_fix := false |})]; md_node := None |};
     delivered := [] |}.
