(* C12: runCommentRules as translated from runner.go on this run IS CommentSpec.run_comment_rules: for all rule lists, all
   oracle answers, all comments at all offsets of files with any base in the FileSet, all worlds. *)
From Coq Require Import List ZArith Lia Bool Arith.
From RG.Base Require Import Outcome GoInt GoSlice.
From RG.Regex Require Import Utf8.
From RG.Engine Require Import TruncateSpec RenderSpec RenderLoop CommentSpec CommentLoop.
From RGW Require Import Gen_C12Loop Def_CommentLoop.
Import ListNotations.
Local Open Scope Z_scope.

Lemma bind_ret {A} (x : outcome A) : bind x (fun a => Ok a) = x.
Proof. destruct x; reflexivity. Qed.

Section Inst.
Variable in_range : Z -> Z -> bytes -> outcome bool.
Variable re_match : bytes -> bytes -> option bool.
Variable l : Z.
Variable src : bytes.
Variable off : Z.
Variable text : bytes.
Variable base : Z.

Lemma pos_arith b : base + (b + (base + off - base)) - base = off + b.
Proof. lia. Qed.
Lemma pos_arith0 : base + off - base = off.
Proof. lia. Qed.

Theorem gen_run_is_run_comment_rules rules w :
  gen_run_comment_rules in_range re_match l src off text base rules w =
  bind (run_comment_rules in_range re_match l src off text rules) (fun r => Ok (deliver w r)).
Proof.
  unfold gen_run_comment_rules, gen_runCommentRules. cbv zeta. rewrite bind_ret.
  apply rule_loop_is_run. intros i [cr idx] w0. unfold rule_step. cbn [fst snd].
  destruct (c_groups cr) eqn:Eg.
  - (* submatch path *)
    destruct idx as [res|]; cbn [option_map]; [|reflexivity].
    change 0 with (Z.of_nat 0) at 1.
    erewrite (group_loop_is_group_caps in_range src off text res).
    2:{ intros k name m. unfold group_step. rewrite is_empty_eqb.
        destruct ((k =? 0) || is_empty name); [reflexivity|].
        destruct (index res (k * 2 + 0)) as [b|p]; cbn [bind]; [|reflexivity].
        destruct (index res (k * 2 + 1)) as [e|p]; cbn [bind]; [|reflexivity].
        destruct ((b <? 0) || (e <? 0)).
        - rewrite cnode_0_0, pos_arith0. destruct (comment_node in_range src off []); reflexivity.
        - rewrite cnode_comment_node. destruct (slice text b e) as [t|p]; cbn [bind]; [|reflexivity].
          rewrite pos_arith. destruct (comment_node in_range src (off + b) t); reflexivity. }
    unfold fill. rewrite Eg. unfold group_caps.
    destruct (group_caps_from in_range src off text 0 (c_names cr) res) as [caps|p]; cbn [bind md_caps md_node md_zero app]; [|reflexivity].
    destruct (index res 0) as [r0|p]; cbn [bind]; [|reflexivity].
    destruct (index res 1) as [r1|p]; cbn [bind]; [|reflexivity].
    rewrite cnode_comment_node. destruct (slice text r0 r1) as [t|p]; cbn [bind]; [|reflexivity].
    rewrite pos_arith. destruct (comment_node in_range src (off + r0) t) as [whole|p]; cbn [bind]; [|reflexivity].
    unfold gen_handle, md_set. cbn [md_caps md_node fst].
    destruct (handle re_match l src cr _) as [[rep|]|p]; reflexivity.
  - (* fast path *)
    destruct idx as [res|]; cbn [option_map]; [|reflexivity].
    rewrite !index_firstn2 by lia.
    unfold fill. rewrite Eg. cbn [bind md_caps md_node md_zero app].
    destruct (index res 0) as [r0|p]; cbn [bind]; [|reflexivity].
    destruct (index res 1) as [r1|p]; cbn [bind]; [|reflexivity].
    rewrite cnode_comment_node. destruct (slice text r0 r1) as [t|p]; cbn [bind]; [|reflexivity].
    rewrite pos_arith. destruct (comment_node in_range src (off + r0) t) as [whole|p]; cbn [bind]; [|reflexivity].
    unfold gen_handle, md_set. cbn [md_caps md_node fst md_zero].
    destruct (handle re_match l src cr _) as [[rep|]|p]; reflexivity.
Qed.
End Inst.
