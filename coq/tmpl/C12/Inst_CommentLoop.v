(* C12: runCommentRules as translated from runner.go on this run, calling handleCommentMatch as translated from runner.go on
   this run, delivers to the Report callback exactly what CommentSpec.run_comment_rules reports: for all rule lists (whose
   At() variables are bound, as checkBoundVars guarantees), all oracle answers, all comments at all offsets of files with
   any base in the FileSet, and ALL incoming worlds -- whatever the reused report record held. *)
From Coq Require Import List ZArith Lia Bool Arith.
From RG.Base Require Import Outcome GoInt GoSlice.
From RG.Regex Require Import Utf8.
From RG.Engine Require Import TruncateSpec RenderSpec RenderLoop CommentSpec CommentLoop CommentHandler.
From RGW Require Import Gen_C12Loop Gen_C12Handler Def_CommentHandler Inst_CommentHandler Def_CommentLoop.
Import ListNotations.
Local Open Scope Z_scope.

Lemma bind_ret {A} (x : outcome A) : bind x (fun a => Ok a) = x.
Proof. destruct x; reflexivity. Qed.

Section Inst.
Variable in_range : Z -> Z -> bytes -> outcome bool.
Variable re_match : bytes -> bytes -> option bool.
Variable l : Z.
Variable src : bytes.
Variable off : Z.
Variable text : bytes.
Variable base : Z.

Lemma pos_arith b : base + (b + (base + off - base)) - base = off + b.
Proof. lia. Qed.
Lemma pos_arith0 : base + off - base = off.
Proof. lia. Qed.

Lemma loc_declared_nonempty cr : loc_declared cr -> r_loc (c_rule cr) <> Some [].
Proof.
  unfold loc_declared. destruct (r_loc (c_rule cr)) as [v|]; [|discriminate].
  intros H He. injection He as He. subst v. destruct H as [Hd|(_ & Hne & _)]; [discriminate Hd|contradiction].
Qed.

(* after the match data of a rule is filled, the translated handler is the specified one *)
Lemma handler_after_fill cr res md w0 :
  loc_declared cr -> fill in_range src off text md_zero cr res = Ok md ->
  gen_handle_w re_match l src cr md w0 = handle_w re_match l src cr md w0.
Proof.
  intros Hl Hf. destruct (fill_binds_loc _ _ _ _ _ _ _ Hf Hl) as (whole & Hn & Hc).
  apply (gen_handle_is_handle_w re_match l src cr md w0 whole Hn Hc). now apply loc_declared_nonempty.
Qed.

Theorem gen_run_is_run_comment_rules rules w :
  Forall (fun r => loc_declared (fst r)) rules ->
  bind (gen_run_comment_rules in_range re_match l src off text base rules w) (fun w' => Ok (reports_of w')) =
  bind (run_comment_rules in_range re_match l src off text rules)
       (fun o => Ok (reports_of w ++ match o with Some rep => [Some rep] | None => [] end)).
Proof.
  intros Hdecl. unfold gen_run_comment_rules, gen_runCommentRules, reports_of. cbv zeta. rewrite bind_ret.
  apply rule_loop_world. intros i [cr idx] w0 Hin.
  assert (Hl : loc_declared cr) by (rewrite Forall_forall in Hdecl; exact (Hdecl _ Hin)).
  unfold rule_step_w. cbn [fst snd].
  destruct (c_groups cr) eqn:Eg.
  - (* submatch path *)
    destruct idx as [res|]; cbn [option_map]; [|reflexivity].
    change 0 with (Z.of_nat 0) at 1.
    erewrite (group_loop_is_group_caps in_range src off text res).
    2:{ intros k name m. unfold group_step. rewrite is_empty_eqb.
        destruct ((k =? 0) || is_empty name); [reflexivity|].
        destruct (index res (k * 2 + 0)) as [b|p]; cbn [bind]; [|reflexivity].
        destruct (index res (k * 2 + 1)) as [e|p]; cbn [bind]; [|reflexivity].
        destruct ((b <? 0) || (e <? 0)).
        - rewrite cnode_0_0, pos_arith0. destruct (comment_node in_range src off []); reflexivity.
        - rewrite cnode_comment_node. destruct (slice text b e) as [t|p]; cbn [bind]; [|reflexivity].
          rewrite pos_arith. destruct (comment_node in_range src (off + b) t); reflexivity. }
    destruct (fill in_range src off text md_zero cr res) as [md|pf] eqn:Ef.
    + cbn [bind]. rewrite <- (handler_after_fill cr res md w0 Hl Ef).
      revert Ef. unfold fill. rewrite Eg. unfold group_caps.
      destruct (group_caps_from in_range src off text 0 (c_names cr) res) as [caps|p]; cbn [bind md_caps md_node md_zero app]; [|discriminate].
      destruct (index res 0) as [r0|p]; cbn [bind]; [|discriminate].
      destruct (index res 1) as [r1|p]; cbn [bind]; [|discriminate].
      rewrite cnode_comment_node. destruct (slice text r0 r1) as [t|p]; cbn [bind]; [|discriminate].
      rewrite pos_arith. destruct (comment_node in_range src (off + r0) t) as [whole|p]; cbn [bind]; [|discriminate].
      intros [= <-]. unfold md_set. cbn [md_caps md_node].
      destruct (gen_handle_w re_match l src cr _ w0) as [[[|] w']|p]; reflexivity.
    + revert Ef. unfold fill. rewrite Eg. unfold group_caps.
      destruct (group_caps_from in_range src off text 0 (c_names cr) res) as [caps|p]; cbn [bind md_caps md_node md_zero app]; [|intros [= <-]; reflexivity].
      destruct (index res 0) as [r0|p]; cbn [bind]; [|intros [= <-]; reflexivity].
      destruct (index res 1) as [r1|p]; cbn [bind]; [|intros [= <-]; reflexivity].
      rewrite cnode_comment_node. destruct (slice text r0 r1) as [t|p]; cbn [bind]; [|intros [= <-]; reflexivity].
      rewrite pos_arith. destruct (comment_node in_range src (off + r0) t) as [whole|p]; cbn [bind]; [discriminate|intros [= <-]; reflexivity].
  - (* fast path *)
    destruct idx as [res|]; cbn [option_map]; [|reflexivity].
    rewrite !index_firstn2 by lia.
    destruct (fill in_range src off text md_zero cr res) as [md|pf] eqn:Ef.
    + cbn [bind]. rewrite <- (handler_after_fill cr res md w0 Hl Ef).
      revert Ef. unfold fill. rewrite Eg. cbn [bind md_caps md_node md_zero app].
      destruct (index res 0) as [r0|p]; cbn [bind]; [|discriminate].
      destruct (index res 1) as [r1|p]; cbn [bind]; [|discriminate].
      rewrite cnode_comment_node. destruct (slice text r0 r1) as [t|p]; cbn [bind]; [|discriminate].
      rewrite pos_arith. destruct (comment_node in_range src (off + r0) t) as [whole|p]; cbn [bind]; [|discriminate].
      intros [= <-]. unfold md_set. cbn [md_caps md_node md_zero].
      destruct (gen_handle_w re_match l src cr _ w0) as [[[|] w']|p]; reflexivity.
    + revert Ef. unfold fill. rewrite Eg. cbn [bind md_caps md_node md_zero app].
      destruct (index res 0) as [r0|p]; cbn [bind]; [|intros [= <-]; reflexivity].
      destruct (index res 1) as [r1|p]; cbn [bind]; [|intros [= <-]; reflexivity].
      rewrite cnode_comment_node. destruct (slice text r0 r1) as [t|p]; cbn [bind]; [|intros [= <-]; reflexivity].
      rewrite pos_arith. destruct (comment_node in_range src (off + r0) t) as [whole|p]; cbn [bind]; [discriminate|intros [= <-]; reflexivity].
Qed.
End Inst.
