(* C12: loadCommentRule and the comment-pattern tail of loadRule AS TRANSLATED FROM THE SOURCE (Gen_C12Load), instantiated
   on CommentLoad's calls and CommentSpec's rules. Definitions only: the executed model of the correspondence runs loads
   its rules with gen_load_rule whether or not the proofs of Inst_CommentLoad.v still go through. *)
From Coq Require Import List ZArith Lia Bool Arith.
From RG.Base Require Import Outcome GoInt GoSlice.
From RG.Regex Require Import Utf8.
From RG.Engine Require Import TruncateSpec RenderSpec CommentSpec CommentLoad.
From RGW Require Import Gen_C12Load.
Import ListNotations.
Local Open Scope Z_scope.

(* l.checkBoundVars(rule, filterInfo, bound): every variable of the filter and the At() variable is `$$` or bound *)
Definition check_bound_vars (rule info : irule) (bound : bytes -> bool) : option unit :=
  if forallb (fun v => bytes_eqb v dollar2 || bound v) (filter_vars (i_filter info)) &&
     match i_loc rule with None => true | Some v => bytes_eqb v dollar2 || bound v end
  then None else Some tt.

(* a goRule prototype is the call it was built from together with its line *)
Definition proto_rule (names : list bytes) (g : bool) (b : irule * Z) : crule :=
  {| c_names := names; c_groups := g; c_filter := i_filter (fst b);
     c_rule := {| r_msg := i_msg (fst b); r_sugg := i_sugg (fst b); r_loc := i_loc (fst b); r_line := snd b |} |}.

(* the translated tail of loadRule on one call: a compiled regexp is its SubexpNames, the only error value is tt *)
Definition gen_load_rule (compile : bytes -> option (list bytes)) (has_groups : bytes -> bool)
           (r : irule) (dst : list crule) : option unit * list crule :=
  gen_loadRule_comments (P := list bytes) (B := irule * Z) (I := irule) (R := irule) (A := calt) (E := unit) (CR := crule)
    (fun s => match compile s with Some names => inl names | None => inr tt end)
    (fun _ _ _ => tt)
    check_bound_vars
    subexp_index
    (fun b ln => (fst b, ln))
    has_groups
    (fun b names g => proto_rule names g b)
    i_alts a_pat a_line
    (r, 0) r r dst.

Definition to_opt {E S} (x : option E * S) : option S := match fst x with None => Some (snd x) | Some _ => None end.

Fixpoint gen_load_rules compile has_groups (rs : list irule) (dst : list crule) : option (list crule) :=
  match rs with
  | [] => Some dst
  | r :: t => match to_opt (gen_load_rule compile has_groups r dst) with None => None | Some d => gen_load_rules compile has_groups t d end
  end.
Fixpoint gen_load_files compile has_groups (files : list (list irule)) (dst : list crule) : option (list crule) :=
  match files with
  | [] => Some dst
  | f :: t => match gen_load_rules compile has_groups f [] with None => None | Some rs => gen_load_files compile has_groups t (dst ++ rs) end
  end.
