(* C12: handleCommentMatch as translated from runner.go on this run IS CommentHandler.handle_w: for all rules whose At()
   variable is bound by the match data (checkBoundVars), all match data, ALL incoming worlds -- whatever an earlier report
   left in the reused record rr.reportData. *)
From Coq Require Import List ZArith Lia Bool Arith.
From RG.Base Require Import Outcome GoInt GoSlice.
From RG.Regex Require Import Utf8.
From RG.Engine Require Import TruncateSpec RenderSpec RenderLoop CommentSpec CommentLoop CommentHandler.
From RGW Require Import Gen_C12Handler Def_CommentHandler.
Import ListNotations.
Local Open Scope Z_scope.

Section Inst.
Variable re_match : bytes -> bytes -> option bool.
Variable l : Z.
Variable src : bytes.

Lemma bytes_eqb_nil (b : bytes) : bytes_eqb b [] = is_empty b.
Proof. destruct b; reflexivity. Qed.

Theorem gen_handle_is_handle_w r md w whole :
  md_node md = Some whole ->
  chosen_node (c_rule r) whole (md_caps md) <> None ->
  r_loc (c_rule r) <> Some [] ->
  gen_handle_w re_match l src r md w = handle_w re_match l src r md w.
Proof.
  intros Hn Hc Hl. unfold gen_handle_w, gen_handleCommentMatch, handle_w, handle, filter_on, render_on, captured_on, loc_of, chosen_node in *.
  cbn [fp_match set_fp_match set_rd_Func]. rewrite !Hn.
  assert (Hfilter : has_filter r = false -> eval_filter re_match src (c_filter r) whole (md_caps md) = Ok true).
  { unfold has_filter. destruct (c_filter r); try discriminate. reflexivity. }
  destruct (has_filter r) eqn:Ef.
  - destruct (eval_filter re_match src (c_filter r) whole (md_caps md)) as [[|]|p]; cbn [bind negb]; try reflexivity.
    unfold mk_creport. rewrite !bytes_eqb_nil.
    destruct (r_loc (c_rule r)) as [v|] eqn:Ev.
    + assert (Hv : is_empty v = false) by (destruct v; [exfalso; apply Hl; reflexivity|reflexivity]). rewrite Hv. cbn [negb].
      destruct (var_node v whole (md_caps md)) as [nd|]; [|congruence].
      destruct (r_sugg (c_rule r)) as [|c0 tpl]; cbn [is_empty negb bind nv_pos nv_end]; reflexivity.
    + cbn [is_empty negb].
      destruct (r_sugg (c_rule r)) as [|c0 tpl]; cbn [is_empty negb bind nv_pos nv_end]; reflexivity.
  - rewrite (Hfilter eq_refl). cbn [bind].
    unfold mk_creport. rewrite !bytes_eqb_nil.
    destruct (r_loc (c_rule r)) as [v|] eqn:Ev.
    + assert (Hv : is_empty v = false) by (destruct v; [exfalso; apply Hl; reflexivity|reflexivity]). rewrite Hv. cbn [negb].
      destruct (var_node v whole (md_caps md)) as [nd|]; [|congruence].
      destruct (r_sugg (c_rule r)) as [|c0 tpl]; cbn [is_empty negb bind nv_pos nv_end]; reflexivity.
    + cbn [is_empty negb].
      destruct (r_sugg (c_rule r)) as [|c0 tpl]; cbn [is_empty negb bind nv_pos nv_end]; reflexivity.
Qed.

(* the callback's view of an accepted match does not depend on what the reused record held before *)
Corollary report_independent_of_reused_record r md whole w1 w2 w1' w2' :
  md_node md = Some whole -> chosen_node (c_rule r) whole (md_caps md) <> None -> r_loc (c_rule r) <> Some [] ->
  gen_handle_w re_match l src r md w1 = Ok (true, w1') -> gen_handle_w re_match l src r md w2 = Ok (true, w2') ->
  exists rep, map report_of (delivered w1') = map report_of (delivered w1) ++ [Some rep] /\
              map report_of (delivered w2') = map report_of (delivered w2) ++ [Some rep].
Proof.
  intros Hn Hc Hl. rewrite !(gen_handle_is_handle_w r md _ whole Hn Hc Hl). intros H1 H2.
  destruct (handle_w_accept _ _ _ _ _ _ _ H1) as (rep1 & Hh1 & Hd1).
  destruct (handle_w_accept _ _ _ _ _ _ _ H2) as (rep2 & Hh2 & Hd2).
  rewrite Hh1 in Hh2. injection Hh2 as <-. exists rep1. split; assumption.
Qed.
End Inst.
