(* C12: what go2coq c12facts read off runner.go / ir_loader.go / utils.go on this run (re-proved each run). *)
From Coq Require Import List Bool Lia String.
From RGW Require Import Gen_C12.
Import ListNotations.

(* `var m matchData` is the first statement of the body of the rule loop: every rule starts from empty match data *)
Lemma c12_match_data_fresh : gen_c12_match_data_fresh = true.
Proof. vm_compute. reflexivity. Qed.

(* every statement fact of handleMatch / run / regexpHasCaptureGroups and the inventory of goCommentRule hold (handleCommentMatch, runCommentRules and
   loadCommentRule are translated, not read as facts) *)
Lemma c12_facts_hold : forallb snd gen_c12_facts = true.
Proof. vm_compute. reflexivity. Qed.

Lemma c12_facts_count : (4 <= List.length gen_c12_facts)%nat.
Proof. vm_compute. lia. Qed.
