(* Property C12 -- theorems only. The generic development is RG.Engine.CommentSpec (model of runCommentRules +
   handleCommentMatch with the regexp engine as an oracle); here it is instantiated with nodeText's in-range test
   REGENERATED from /repo on this run (Gen_C03 / Inst_Render, shared with C03). *)
From Coq Require Import List ZArith Lia Bool Arith.
From RG.Base Require Import Outcome GoInt GoSlice.
From RG.Regex Require Import Utf8 Regex Capture.
From RG.Engine Require Import TruncateSpec RenderSpec CommentSpec.
From RGW Require Import Gen_C03 Inst_Render.
Import ListNotations.
Local Open Scope Z_scope.

(* for one comment, the first comment rule (load order) that matches and accepts reports; none after it, none before *)
Theorem C12_first_comment_rule_wins :
  forall l src off text rules rep,
  run_comment_rules nodeTextInRange l src off text rules = Ok (Some rep) ->
  exists pre r m post, rules = pre ++ (r, m) :: post /\
    try_rule nodeTextInRange l src off text r m = Ok (Some rep) /\
    Forall (fun p => try_rule nodeTextInRange l src off text (fst p) (snd p) = Ok None) pre.
Proof. exact (first_comment_rule_wins nodeTextInRange). Qed.
Print Assumptions C12_first_comment_rule_wins.

Theorem C12_no_report_means_no_rule_accepts :
  forall l src off text rules,
  run_comment_rules nodeTextInRange l src off text rules = Ok None ->
  Forall (fun p => try_rule nodeTextInRange l src off text (fst p) (snd p) = Ok None) rules.
Proof. exact (no_rule_reports nodeTextInRange). Qed.
Print Assumptions C12_no_report_means_no_rule_accepts.

(* the reported node covers exactly the bytes of the regexp match inside the comment (offset of the comment + match
   indices), the bytes at that span are the matched text, and a Suggest replaces exactly that span -- for every comment
   whose Text is its source (nothing stripped by the scanner), at every file offset *)
Theorem C12_comment_span_exact :
  forall l src off text, 0 <= off -> sub src off (off + len text) = text -> off + len text <= len src -> 0 < len text ->
  forall r idx r0 r1 rep,
  r_loc (c_rule r) = None ->
  nth_error idx 0 = Some (r0, r1) -> 0 <= r0 -> r0 <= r1 -> r1 <= len text ->
  try_rule nodeTextInRange l src off text r (Some idx) = Ok (Some rep) ->
  rep_pos rep = off + r0 /\ rep_end rep = off + r1 /\
  off <= rep_pos rep /\ rep_end rep <= off + len text /\
  sub src (rep_pos rep) (rep_end rep) = sub text r0 r1 /\
  (forall f t s, rep_sugg rep = Some (f, t, s) -> f = off + r0 /\ t = off + r1).
Proof. intros l src off text H1 H2 H3 H4. exact (comment_span_exact nodeTextInRange l src off text in_range_spec H1 H2 H3 H4). Qed.
Print Assumptions C12_comment_span_exact.

(* a named group is bound by its regexp group index (unnamed groups never shift the mapping) to exactly its submatch
   text and span, or to the empty text when it did not participate *)
Theorem C12_groups_interpolate :
  forall src off text, 0 <= off -> sub src off (off + len text) = text -> off + len text <= len src -> 0 < len text ->
  forall idx names caps i name b e,
  group_caps nodeTextInRange src off text names idx = Ok caps ->
  NoDup (filter (fun n => negb (is_empty n)) names) ->
  nth_error names i = Some name -> i <> 0%nat -> name <> [] ->
  nth_error idx i = Some (b, e) ->
  (b < 0 \/ e < 0 \/ (0 <= b /\ b <= e /\ e <= len text)) ->
  exists nd, captured_by_name name caps = Some nd /\ group_node_ok off text nd b e.
Proof. intros src off text H1 H2 H3 H4 idx. exact (groups_interpolate nodeTextInRange src off text in_range_spec H1 H2 H3 H4 idx). Qed.
Print Assumptions C12_groups_interpolate.

(* choosing the no-submatch path is safe: without capture groups SubexpNames() = [""] and there is nothing to capture;
   and the flag that chooses the path is decided correctly (C11_has_capture_correct) *)
Theorem C12_capture_fast_path_safe :
  forall src off text idx, group_caps nodeTextInRange src off text [[]] idx = Ok [].
Proof. exact (capture_fast_path_safe nodeTextInRange). Qed.

Theorem C12_has_capture_correct : forall re, walk_found re false = true <-> contains_capture re.
Proof. exact has_capture_correct. Qed.
Print Assumptions C12_has_capture_correct.

(* non-vacuity: comment "// k=v x" at offset 3 of a file; a pattern with one unnamed and one named group `val` matched
   at [3,6) of the text; a second rule that also matches does not report *)
Example c12_example :
  let src := [120;59;32; 47;47;32;107;61;118;32;120; 10] in
  let text := [47;47;32;107;61;118;32;120] in
  let r1 := {| c_names := [[]; []; [118;97;108]]; c_groups := true; c_filter := None;
               c_rule := {| r_msg := [36;118;97;108;124;36;36]; r_sugg := [36;118;97;108]; r_loc := None; r_line := 5 |} |} in
  let r2 := {| c_names := [[]]; c_groups := false; c_filter := None;
               c_rule := {| r_msg := [36;36]; r_sugg := []; r_loc := None; r_line := 9 |} |} in
  run_comment_rules nodeTextInRange 0 src 3 text [(r1, Some [(3, 6); (3, 4); (5, 6)]); (r2, Some [(3, 4)])]
  = Ok (Some {| rep_pos := 6; rep_end := 9; rep_msg := [118;124;107;61;118]; rep_sugg := Some (6, 9, [118]); rep_line := 5 |})
  /\ sub src 3 (3 + len text) = text.
Proof. split; vm_compute; reflexivity. Qed.
