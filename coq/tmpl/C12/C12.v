(* Property C12 -- theorems only. The generic development is RG.Engine.CommentSpec (model of runCommentRules +
   handleCommentMatch with the regexp engine as an oracle); here it is instantiated with nodeText's in-range test
   REGENERATED from /repo on this run (Gen_C03 / Inst_Render, shared with C03) and with the declaration site of the
   loop's match data and the statement facts of the comment-rule path read off the source (Gen_C12 / Inst_Comment). *)
From Coq Require Import List ZArith Lia Bool Arith String.
From RG.Base Require Import Outcome GoInt GoSlice.
From RG.Regex Require Import Utf8 Regex Capture.
From RG.Engine Require Import TruncateSpec RenderSpec RenderLoop CommentSpec CommentLoop CommentLoad CommentHandler.
From RGW Require Import Gen_C03 Inst_Render Gen_C12 Inst_Comment Gen_C12Loop Gen_C12Handler Def_CommentHandler Inst_CommentHandler Def_CommentLoop Inst_CommentLoop Gen_C12Load Def_CommentLoad Inst_CommentLoad.
From RG.Engine Require Import FileBytes.
From RGW Require Import Gen_C03Src Inst_FileBytes.
Import ListNotations.
Local Open Scope Z_scope.

(* handleCommentMatch AS TRANSLATED FROM THE SOURCE on this run (go2coq c12handler: the assignments to the REUSED record
   rr.reportData -- one cell per field of ReportData --, rr.filterParams.match, the filter call, both renderMessage calls, the
   At() relocation, the Suggestion and GoRuleInfo literals, the Report callback seeing a snapshot of every field of the record),
   instantiated on the model's rules / match data / nodes, IS the specified handler handle_w: for all rules whose At() variable
   is bound by the match data, all match data, ALL incoming worlds (whatever an earlier report left in the record). *)
Theorem C12_translated_handler_is_model :
  forall re l src r md w whole,
  md_node md = Some whole -> chosen_node (c_rule r) whole (md_caps md) <> None -> r_loc (c_rule r) <> Some [] ->
  gen_handle_w re l src r md w = handle_w re l src r md w.
Proof. exact gen_handle_is_handle_w. Qed.
Print Assumptions C12_translated_handler_is_model.

(* nothing of an earlier report shows: what the callback sees for an accepted match is the same report from any two worlds *)
Theorem C12_report_independent_of_reused_record :
  forall re l src r md whole w1 w2 w1' w2',
  md_node md = Some whole -> chosen_node (c_rule r) whole (md_caps md) <> None -> r_loc (c_rule r) <> Some [] ->
  gen_handle_w re l src r md w1 = Ok (true, w1') -> gen_handle_w re l src r md w2 = Ok (true, w2') ->
  exists rep, map report_of (delivered w1') = map report_of (delivered w1) ++ [Some rep] /\
              map report_of (delivered w2') = map report_of (delivered w2) ++ [Some rep].
Proof. exact report_independent_of_reused_record. Qed.

(* checkBoundVars at load time is what makes the At() variable bound at run time: the rule loaded for an alternative has
   its location declared (given, of the regexp oracle, that group 0 is unnamed and that a regexp naming a group has groups) *)
Theorem C12_loaded_rule_has_its_location_bound :
  forall has_groups r names a, vars_bound r names = true -> nth_error names 0 = Some [] ->
  (forall v, v <> [] -> In v names -> has_groups (a_pat a) = true) -> loc_declared (alt_rule has_groups r names a).
Proof. exact vars_bound_loc_declared. Qed.

(* runCommentRules AS TRANSLATED FROM THE SOURCE on this run (go2coq c12loop: both range loops with their break / continue,
   the declaration of the match data wherever it stands, the index arithmetic result[i*2+0/1], the positions
   file.Pos(idx + file.Offset(comment.Pos())) with token.File read as base + offset, both paths), CALLING the translated
   handler, instantiated on the model's rules / nodes / match data, delivers to the Report callback exactly the report of the
   model run_comment_rules: for all rule lists with bound At() variables, all answers of the regexp oracle, all comments at
   all offsets of a file with ANY base in the FileSet, ALL incoming worlds (reports delivered so far AND the content of the
   reused record). Every theorem below about run_comment_rules / try_rule is therefore a theorem about the translated code. *)
Theorem C12_translated_loop_is_model :
  forall re l src off text base rules w,
  Forall (fun r => loc_declared (fst r)) rules ->
  bind (gen_run_comment_rules nodeTextInRange re l src off text base rules w) (fun w' => Ok (reports_of w')) =
  bind (run_comment_rules nodeTextInRange re l src off text rules)
       (fun o => Ok (reports_of w ++ match o with Some rep => [Some rep] | None => [] end)).
Proof. exact (gen_run_is_run_comment_rules nodeTextInRange). Qed.
Print Assumptions C12_translated_loop_is_model.

(* at most one report per comment is delivered, and it is the model's *)
Corollary C12_translated_loop_delivers_at_most_one :
  forall re l src off text base rules w w',
  Forall (fun r => loc_declared (fst r)) rules ->
  gen_run_comment_rules nodeTextInRange re l src off text base rules w = Ok w' ->
  exists r, run_comment_rules nodeTextInRange re l src off text rules = Ok r /\
            reports_of w' = reports_of w ++ match r with Some rep => [Some rep] | None => [] end.
Proof.
  intros re l src off text base rules w w' Hd Hrun.
  pose proof (C12_translated_loop_is_model re l src off text base rules w Hd) as H. rewrite Hrun in H. cbn [bind] in H.
  destruct (run_comment_rules nodeTextInRange re l src off text rules) as [r|p]; cbn [bind] in H; [|discriminate].
  exists r. split; [reflexivity|]. now injection H.
Qed.

(* the rule loop AS THE SOURCE DECLARES ITS MATCH DATA (gen_c12_match_data_fresh) judges every rule on that rule's own
   submatches: whatever the loop variable holds on entry and whatever earlier rules matched (and rejected), the loop is
   the rule-by-rule run of try_rule, a function of one rule and its own index vector only *)
Theorem C12_match_data_fresh :
  forall re l src off text carried rules,
  run_loop nodeTextInRange re l src off text gen_c12_match_data_fresh carried rules =
  run_comment_rules nodeTextInRange re l src off text rules.
Proof. intros. rewrite c12_match_data_fresh. apply run_loop_fresh. Qed.
Print Assumptions C12_match_data_fresh.

(* the report of rule k depends only on rule k and rule k's own submatches *)
Theorem C12_report_from_own_submatches :
  forall re l src off text carried rules rep,
  run_loop nodeTextInRange re l src off text gen_c12_match_data_fresh carried rules = Ok (Some rep) ->
  exists k r res, nth_error rules k = Some (r, Some res) /\
    try_rule nodeTextInRange re l src off text r (Some res) = Ok (Some rep) /\
    forall j p, (j < k)%nat -> nth_error rules j = Some p -> try_rule nodeTextInRange re l src off text (fst p) (snd p) = Ok None.
Proof. intros re l src off text carried rules rep. rewrite c12_match_data_fresh. apply report_from_own_submatches. Qed.
Print Assumptions C12_report_from_own_submatches.

(* for one comment, the first comment rule (load order) that matches and accepts reports; none after it, none before *)
Theorem C12_first_comment_rule_wins :
  forall re l src off text rules rep,
  run_comment_rules nodeTextInRange re l src off text rules = Ok (Some rep) ->
  exists pre r m post, rules = pre ++ (r, m) :: post /\
    try_rule nodeTextInRange re l src off text r m = Ok (Some rep) /\
    Forall (fun p => try_rule nodeTextInRange re l src off text (fst p) (snd p) = Ok None) pre.
Proof. intros re. exact (first_comment_rule_wins nodeTextInRange re). Qed.
Print Assumptions C12_first_comment_rule_wins.

Theorem C12_no_report_means_no_rule_accepts :
  forall re l src off text rules,
  run_comment_rules nodeTextInRange re l src off text rules = Ok None ->
  Forall (fun p => try_rule nodeTextInRange re l src off text (fst p) (snd p) = Ok None) rules.
Proof. intros re. exact (no_rule_reports nodeTextInRange re). Qed.
Print Assumptions C12_no_report_means_no_rule_accepts.

(* the reported node covers exactly the bytes of the regexp match inside the comment (offset of the comment + match
   indices), the bytes at that span are the matched text, and a Suggest replaces exactly that span -- for every comment
   whose Text is its source (nothing stripped by the scanner), at every file offset *)
Theorem C12_comment_span_exact :
  forall re l src off text, 0 <= off -> sub src off (off + len text) = text -> off + len text <= len src -> 0 < len text ->
  forall r res r0 r1 rep,
  r_loc (c_rule r) = None ->
  nth_error res 0 = Some r0 -> nth_error res 1 = Some r1 -> 0 <= r0 -> r0 <= r1 -> r1 <= len text ->
  try_rule nodeTextInRange re l src off text r (Some res) = Ok (Some rep) ->
  rep_pos rep = off + r0 /\ rep_end rep = off + r1 /\
  off <= rep_pos rep /\ rep_end rep <= off + len text /\
  sub src (rep_pos rep) (rep_end rep) = sub text r0 r1 /\
  (forall f t s, rep_sugg rep = Some (f, t, s) -> f = off + r0 /\ t = off + r1).
Proof. intros re l src off text H1 H2 H3 H4. exact (comment_span_exact nodeTextInRange re l src off text in_range_spec H1 H2 H3 H4). Qed.
Print Assumptions C12_comment_span_exact.

(* a named group is bound by its regexp group index i (result[2i], result[2i+1]; unnamed groups never shift the mapping)
   to exactly its submatch text and span, or to the empty text when it did not participate *)
Theorem C12_groups_interpolate :
  forall src off text, 0 <= off -> sub src off (off + len text) = text -> off + len text <= len src -> 0 < len text ->
  forall res names caps i name b e,
  group_caps nodeTextInRange src off text names res = Ok caps ->
  NoDup (filter (fun n => negb (is_empty n)) names) ->
  nth_error names i = Some name -> i <> 0%nat -> name <> [] ->
  nth_error res (2 * i) = Some b -> nth_error res (2 * i + 1) = Some e ->
  (b < 0 \/ e < 0 \/ (0 <= b /\ b <= e /\ e <= len text)) ->
  exists nd, captured_by_name name caps = Some nd /\ group_node_ok off text nd b e.
Proof. intros src off text H1 H2 H3 H4 res. exact (groups_interpolate nodeTextInRange src off text in_range_spec H1 H2 H3 H4 res). Qed.
Print Assumptions C12_groups_interpolate.

(* filters see those texts: what a Where() expression reads for a bound group is the text of that very node *)
Theorem C12_filter_reads_group_text :
  forall whole caps name nd, name <> dollar2 -> captured_by_name name caps = Some nd -> var_text name whole caps = n_text nd.
Proof. exact filter_reads_group_text. Qed.

(* ... and the Line a filter reads for it is the line of the file on which that node begins *)
Theorem C12_filter_reads_group_line :
  forall src whole caps name nd, name <> dollar2 -> captured_by_name name caps = Some nd ->
  var_line src name whole caps = Some (line_of src (n_pos nd)).
Proof. exact filter_reads_group_line. Qed.

(* ------------------------------------------------------------------ MatchComment calls with several regexps *)
(* loadCommentRule and the tail of loadRule that ranges over rule.CommentPatterns AS TRANSLATED FROM ir_loader.go on this
   run (go2coq c12load), instantiated on the model's calls and rules, ARE the model loader: for all calls, all answers of
   the regexp compiler, all rule lists loaded before. *)
Theorem C12_translated_loader_is_model :
  forall compile has_groups r dst,
  to_opt (gen_load_rule compile has_groups r dst) = load_rule compile has_groups r dst.
Proof. exact gen_load_rule_is_load_rule. Qed.
Print Assumptions C12_translated_loader_is_model.

Theorem C12_translated_loading_of_files_is_model :
  forall compile has_groups files dst,
  gen_load_files compile has_groups files dst = load_files compile has_groups files dst.
Proof. exact gen_load_files_is_load_files. Qed.

(* a call with k regexps yields exactly k comment rules, appended in the written order; rule j carries alternative j's OWN
   compiled regexp (its names in its own numbering), its own capture flag, its own line *)
Theorem C12_alternatives_are_rules_in_written_order :
  forall compile has_groups r dst out,
  load_rule compile has_groups r dst = Some out ->
  exists rs, out = dst ++ rs /\ List.length rs = List.length (i_alts r) /\
    forall j a, nth_error (i_alts r) j = Some a ->
      exists names, compile (a_pat a) = Some names /\ vars_bound r names = true /\
                    nth_error rs j = Some (alt_rule has_groups r names a).
Proof. exact alternatives_are_rules_in_written_order. Qed.
Print Assumptions C12_alternatives_are_rules_in_written_order.

(* A CALL WITH k ALTERNATIVES IS k CALLS WITH ONE ALTERNATIVE EACH, IN THE WRITTEN ORDER *)
Theorem C12_k_alternatives_are_k_rules :
  forall compile has_groups pre r post dst,
  load_rules compile has_groups (pre ++ r :: post) dst =
  load_rules compile has_groups (pre ++ map (single r) (i_alts r) ++ post) dst.
Proof. exact k_alternatives_are_k_rules. Qed.

(* rules files loaded one after the other: the rules of the files in load order, each file's calls in source order *)
Theorem C12_load_order_is_file_order_then_source_order :
  forall compile has_groups files dst out,
  load_files compile has_groups files dst = Some out ->
  exists per_file, out = dst ++ List.concat per_file /\
    Forall2 (fun f rs => load_rules compile has_groups f [] = Some rs) files per_file.
Proof. exact load_files_is_concat. Qed.

(* what the rule loop does with the LOADED list is the specification "call by call, alternative by alternative in the
   written order, each alternative matched on its own": the regexp oracle `ans` is a function of ONE alternative's source *)
Theorem C12_loaded_run_is_call_by_call :
  forall compile has_groups re l src off text ans rs rules,
  load_rules compile has_groups rs [] = Some rules ->
  List.length rules = List.length (pats_of rs) /\
  run_comment_rules nodeTextInRange re l src off text (combine rules (map ans (pats_of rs))) =
  run_calls compile has_groups nodeTextInRange re l src off text ans rs.
Proof. intros compile has_groups re. exact (loaded_run_is_call_by_call compile has_groups nodeTextInRange re). Qed.
Print Assumptions C12_loaded_run_is_call_by_call.

(* the report comes from ONE alternative of ONE call, judged on that alternative's own names and its own regexp's answer;
   no earlier call reports and no alternative written before it in the same call matches and accepts -- where in the
   comment the alternatives match plays no role *)
Theorem C12_report_is_first_accepting_alternative :
  forall compile has_groups re l src off text ans rs rules rep,
  load_rules compile has_groups rs [] = Some rules ->
  run_comment_rules nodeTextInRange re l src off text (combine rules (map ans (pats_of rs))) = Ok (Some rep) ->
  exists i r j a names,
    nth_error rs i = Some r /\ nth_error (i_alts r) j = Some a /\ compile (a_pat a) = Some names /\
    try_rule nodeTextInRange re l src off text (alt_rule has_groups r names a) (ans (a_pat a)) = Ok (Some rep) /\
    (forall j' a' names', (j' < j)%nat -> nth_error (i_alts r) j' = Some a' -> compile (a_pat a') = Some names' ->
       try_rule nodeTextInRange re l src off text (alt_rule has_groups r names' a') (ans (a_pat a')) = Ok None) /\
    (forall i' r', (i' < i)%nat -> nth_error rs i' = Some r' ->
       run_alts compile has_groups nodeTextInRange re l src off text ans r' (i_alts r') = Ok None).
Proof. intros compile has_groups re. exact (report_is_first_accepting_alternative compile has_groups nodeTextInRange re). Qed.
Print Assumptions C12_report_is_first_accepting_alternative.

(* choosing the no-submatch path is safe: without capture groups SubexpNames() = [""] and there is nothing to capture;
   and the flag that chooses the path is decided correctly (C11_has_capture_correct) by a function that is nothing but
   the parse and that walk (fact of C12_comment_path_facts) *)
Theorem C12_capture_fast_path_safe :
  forall src off text res, group_caps nodeTextInRange src off text [[]] res = Ok [].
Proof. exact (capture_fast_path_safe nodeTextInRange). Qed.

Theorem C12_fast_path_same_match_data :
  forall src off text m0 names msg res, Forall (fun n => n = []) names ->
  fill nodeTextInRange src off text m0 {| c_names := names; c_groups := true; c_filter := FTrue; c_rule := msg |} res =
  fill nodeTextInRange src off text m0 {| c_names := names; c_groups := false; c_filter := FTrue; c_rule := msg |} res.
Proof. exact (fast_path_same_fill nodeTextInRange). Qed.

Theorem C12_has_capture_correct : forall re, walk_found re false = true <-> contains_capture re.
Proof. exact has_capture_correct. Qed.
Print Assumptions C12_has_capture_correct.

(* the statement facts of handleMatch's use of the reused record, the comment walk of run() and regexpHasCaptureGroups, read off the source on this run *)
Theorem C12_comment_path_facts : forallb snd gen_c12_facts = true /\ (4 <= List.length gen_c12_facts)%nat.
Proof. exact (conj c12_facts_hold c12_facts_count). Qed.
Print Assumptions C12_comment_path_facts.

(* non-vacuity: comment "// k=v x" at offset 3 of a file; a pattern with one unnamed and one named group `val` matched
   at [3,6) of the text; a second rule that also matches does not report *)
Example c12_example :
  let src := [120;59;32; 47;47;32;107;61;118;32;120; 10] in
  let text := [47;47;32;107;61;118;32;120] in
  let r1 := {| c_names := [[]; []; [118;97;108]]; c_groups := true; c_filter := FTrue;
               c_rule := {| r_msg := [36;118;97;108;124;36;36]; r_sugg := [36;118;97;108]; r_loc := None; r_line := 5 |} |} in
  let r2 := {| c_names := [[]]; c_groups := false; c_filter := FTrue;
               c_rule := {| r_msg := [36;36]; r_sugg := []; r_loc := None; r_line := 9 |} |} in
  run_comment_rules nodeTextInRange (fun _ _ => None) 0 src 3 text [(r1, Some [3; 6; 3; 4; 5; 6]); (r2, Some [3; 4])]
  = Ok (Some {| rep_pos := 6; rep_end := 9; rep_msg := [118;124;107;61;118]; rep_sugg := Some (6, 9, [118]); rep_line := 5 |})
  /\ sub src 3 (3 + len text) = text.
Proof. split; vm_compute; reflexivity. Qed.

(* non-vacuity, and why the alternatives must stay separate rules: the call MatchComment(`(?P<word>teh)`, `(?P<word>recieve)`)
   with Report(`$word`) on the comment "// recieve teh" (both alternatives hit, the second-written one further left): loaded
   as two rules in the written order the FIRST alternative reports "teh" at [11,14); a single rule for the joined regexp
   (names "", word, word -- Go accepts the duplicate name; leftmost match: the second group) reads "" for m["word"] (the
   first group of that name did not take part), so the filter m["word"].Text != "" rejects and nothing is reported. *)
Example c12_alternatives_stay_separate :
  let src := [47;47;32; 114;101;99;105;101;118;101; 32; 116;101;104] in
  let word := [119;111;114;100] in
  let call := {| i_alts := [ {| a_pat := [1]; a_line := 3 |}; {| a_pat := [2]; a_line := 4 |} ];
                 i_filter := FTextNe word []; i_msg := [36;119;111;114;100]; i_sugg := []; i_loc := None |} in
  let compile := fun p : bytes => Some [[]; word] in
  let ans := fun p : bytes => match p with [1] => Some [11;14;11;14] | _ => Some [3;10;3;10] end in
  (exists rules, load_rules compile (fun _ => true) [call] [] = Some rules /\ List.length rules = 2%nat /\
     run_comment_rules nodeTextInRange (fun _ _ => None) 0 src 0 src (combine rules (map ans (pats_of [call])))
     = Ok (Some {| rep_pos := 11; rep_end := 14; rep_msg := [116;101;104]; rep_sugg := None; rep_line := 3 |})) /\
  (let joined := {| c_names := [[]; word; word]; c_groups := true; c_filter := FTextNe word [];
                    c_rule := {| r_msg := [36;119;111;114;100]; r_sugg := []; r_loc := None; r_line := 3 |} |} in
   run_comment_rules nodeTextInRange (fun _ _ => None) 0 src 0 src [(joined, Some [3;10;-1;-1;3;10])] = Ok None).
Proof. split; [eexists; split; [reflexivity|split; [reflexivity|vm_compute; reflexivity]]|vm_compute; reflexivity]. Qed.

(* the freshness parameter matters: on the comment "//a-b" two rules bind `v`, the first to "a" (its filter wants "z" and
   rejects), the second to "b" (its filter wants "b"). Judged on its own submatches the second rule reports; were the
   match data declared once before the loop (flag false), the first rule's `v` would still be in front, the second
   rule's filter would read "a" and nothing would be reported. *)
Example c12_stale_match_data_differs :
  let src := [47;47;97;45;98] in
  let r1 := {| c_names := [[]; [118]]; c_groups := true; c_filter := FTextEq [118] [122];
               c_rule := {| r_msg := [36;118]; r_sugg := []; r_loc := None; r_line := 1 |} |} in
  let r2 := {| c_names := [[]; [118]]; c_groups := true; c_filter := FTextEq [118] [98];
               c_rule := {| r_msg := [36;118]; r_sugg := []; r_loc := None; r_line := 2 |} |} in
  let rules := [(r1, Some [2; 3; 2; 3]); (r2, Some [4; 5; 4; 5])] in
  run_loop nodeTextInRange (fun _ _ => None) 0 src 0 src true md_zero rules
    = Ok (Some {| rep_pos := 4; rep_end := 5; rep_msg := [98]; rep_sugg := None; rep_line := 2 |}) /\
  run_loop nodeTextInRange (fun _ _ => None) 0 src 0 src false md_zero rules = Ok None.
Proof. split; vm_compute; reflexivity. Qed.

(* ---- the bytes the texts are sliced from: rulesRunner.fileBytes, translated from runner.go on this run, is the specification
   (the slice this run already holds, else the file as it is on disk NOW), for every disk, file name and state of rr.src *)
Theorem C12_translated_fileBytes_is_spec :
  forall (d : disk) (name : bytes) (w : fworld), gen_fileBytes d name w = file_bytes d name w.
Proof. exact gen_fileBytes_is_file_bytes. Qed.
Print Assumptions C12_translated_fileBytes_is_spec.

(* for every HISTORY of runs through one reused RunnerState -- any disks (the file may have been rewritten between two runs:
   other bytes of the same length at the same path included), any file names, any number of nodeText calls per run, any
   state the runner object was left in -- every nodeText of every run slices the bytes its file has on disk during that
   run.  The reset flag is read off newRulesRunner on this run. *)
Theorem C12_every_run_slices_the_file_of_its_time :
  forall (runs : list frun) (w : fworld), history gen_fileBytes gen_c03_runner_reset w runs = map expected_of runs.
Proof. exact gen_history_reads_current_disk. Qed.
Print Assumptions C12_every_run_slices_the_file_of_its_time.

Theorem C12_file_bytes_facts : forallb snd gen_c03_src_facts = true /\ (3 <= List.length gen_c03_src_facts)%nat.
Proof. exact (conj c03_src_facts_hold c03_src_facts_count). Qed.
Print Assumptions C12_file_bytes_facts.

(* a cache of an earlier run's bytes is invisible exactly when what it is keyed by determines the bytes ... *)
Theorem C12_cache_sound_when_key_determines_bytes :
  forall (K : Type) (key : disk -> bytes -> K) (key_eqb : K -> K -> bool), key_determines key key_eqb ->
  forall runs cache, cache_ok key key_eqb cache ->
  cached_history key key_eqb cache runs = map (fun r => disk_bytes (fst r) (snd r)) runs.
Proof. exact (@cached_history_sound). Qed.
Print Assumptions C12_cache_sound_when_key_determines_bytes.

(* ... and (file name, byte length) does not; neither does carrying rr.src from one run to the next *)
Example c12_name_and_length_do_not_determine_the_bytes :
  cached_history name_len_key name_len_eqb None [(disk_v1, [102]); (disk_v2, [102])] = [[97; 109; 121]; [97; 109; 121]]
  /\ history file_bytes false fresh_runner [(disk_v1, [102], 1%nat); (disk_v2, [102], 1%nat)] = [[Some [97; 109; 121]]; [Some [97; 109; 121]]]
  /\ history gen_fileBytes gen_c03_runner_reset fresh_runner [(disk_v1, [102], 1%nat); (disk_v2, [102], 1%nat)] = [[Some [97; 109; 121]]; [Some [101; 118; 101]]].
Proof. repeat split; vm_compute; reflexivity. Qed.
