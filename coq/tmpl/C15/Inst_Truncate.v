(* C15 proof obligations about the REGENERATED body of truncateText (Gen_Truncate.v)
   and the regenerated call-site facts (Gen_C15Extras.v). Recompiled on every check. *)
From Coq Require Import List ZArith Lia Bool.
From RG.Base Require Import Outcome GoInt GoSlice.
From RG.Engine Require Import TruncateSpec.
From RGW Require Import Gen_Truncate Gen_C15Extras.
Import ListNotations.
Local Open Scope Z_scope.

(* inputs Go can actually produce: a 64-bit int and a slice whose length is an int *)
Definition go_input (s : bytes) (L : Z) : Prop := int_range L /\ len s <= int_max.

Lemma placeholder_is_marker : g_longTextPlaceholder = marker.
Proof. reflexivity. Qed.

Ltac ranges := unfold go_input, int_range, int_min, int_max in *.

Lemma truncate_fitting s L : go_input s L -> len s <= L -> truncateText s L = Ok s.
Proof.
  intros _ Hfit. unfold truncateText.
  destruct (Z.leb (len s) L) eqn:E; [reflexivity|lia].
Qed.

Lemma truncate_long s L :
  go_input s L -> 5 <= L -> L < len s ->
  exists p q, truncateText s L = Ok (p ++ marker ++ q) /\ is_prefix p s /\ is_suffix q s /\
              len p + 5 + len q = L.
Proof.
  intros Hin H5 Hlong. unfold truncateText. rewrite placeholder_is_marker.
  change (len marker) with 5.
  destruct (Z.leb (len s) L) eqn:E1; [lia|].
  destruct (Z.ltb L 5) eqn:E2; [lia|].
  assert (Hsub : isub L 5 = L - 5) by (apply isub_id; ranges; lia).
  rewrite Hsub.
  assert (Hm : 0 <= L - 5) by lia.
  pose proof (Z.quot_rem' (L - 5) 2) as Hqr.
  pose proof (Z.rem_bound_pos (L - 5) 2 Hm ltac:(lia)) as Hb.
  rewrite iquot_2 by (ranges; lia). cbn [bind].
  unfold irem. cbn [Z.eqb bind].
  set (lft := Z.quot (L - 5) 2) in *.
  set (r := Z.rem (L - 5) 2) in *.
  pose proof (len_nonneg s) as Hs.
  assert (Hadd : iadd r lft = r + lft) by (apply iadd_id; ranges; lia).
  rewrite Hadd.
  rewrite slice_ok by lia. cbn [bind].
  assert (Hsub2 : isub (len s) (r + lft) = len s - (r + lft)) by (apply isub_id; ranges; lia).
  rewrite Hsub2.
  rewrite slice_ok by lia. cbn [bind].
  replace (Z.to_nat (lft - 0)) with (Z.to_nat lft) by (f_equal; lia).
  cbn [skipn Z.to_nat].
  set (p := firstn (Z.to_nat lft) s).
  set (q := firstn (Z.to_nat (len s - (len s - (r + lft)))) (skipn (Z.to_nat (len s - (r + lft))) s)).
  assert (Hq : q = skipn (Z.to_nat (len s - (r + lft))) s).
  { unfold q. apply firstn_all2. unfold len in *. rewrite skipn_length. lia. }
  assert (Hlp : len p = lft) by (unfold p; apply len_firstn; lia).
  assert (Hlq : len q = r + lft) by (rewrite Hq, len_skipn by lia; lia).
  assert (Hcap : make_cap (iadd (iadd (len p) 5) (len q)) = Ok tt).
  { rewrite Hlp, Hlq. unfold make_cap.
    rewrite (iadd_id lft 5) by (ranges; lia). rewrite iadd_id by (ranges; lia).
    destruct (Z.ltb_spec (lft + 5 + (r + lft)) 0); [lia|reflexivity]. }
  rewrite Hcap. cbn [bind app].
  exists p, q. split; [now rewrite app_assoc|]. split; [apply firstn_is_prefix|].
  split; [rewrite Hq; apply skipn_is_suffix|]. lia.
Qed.

Lemma truncate_never_panics s L : go_input s L -> exists r, truncateText s L = Ok r.
Proof.
  intros Hin.
  destruct (Z_le_gt_dec (len s) L) as [Hfit|Hlong].
  - exists s. now apply truncate_fitting.
  - destruct (Z_le_gt_dec 5 L) as [H5|Hsmall].
    + destruct (truncate_long s L Hin H5 ltac:(lia)) as (p & q & H & _). eauto.
    + unfold truncateText. rewrite placeholder_is_marker. change (len marker) with 5.
      pose proof (len_nonneg s) as Hs.
      destruct (Z.leb (len s) L) eqn:E1; [lia|].
      destruct (Z.ltb L 5) eqn:E2; [|lia].
      destruct (Z.ltb L 0) eqn:E3.
      * rewrite slice_ok by lia. cbn [bind]. eauto.
      * rewrite slice_ok by lia. cbn [bind]. eauto.
Qed.

(* short TruncateLen (no room for the marker): the text shown is a plain prefix, never longer than asked *)
Lemma truncate_short s L r :
  go_input s L -> L < 5 -> L < len s -> truncateText s L = Ok r -> is_prefix r s /\ len r = Z.max L 0.
Proof.
  intros Hin Hsmall Hlong. unfold truncateText. rewrite placeholder_is_marker. change (len marker) with 5.
  pose proof (len_nonneg s) as Hs.
  destruct (Z.leb (len s) L) eqn:E1; [lia|].
  destruct (Z.ltb L 5) eqn:E2; [|lia].
  destruct (Z.ltb L 0) eqn:E3.
  - rewrite slice_ok by lia. cbn [bind]. intros [= <-]. cbn. split; [exists s; reflexivity|]. unfold len; cbn; lia.
  - rewrite slice_ok by lia. cbn [bind skipn Z.to_nat]. intros [= <-].
    split; [apply firstn_is_prefix|]. replace (L - 0) with L by lia. rewrite len_firstn by lia. lia.
Qed.

(* effective length and call-site facts regenerated from newRulesRunner / renderMessage callers *)
Lemma effective_len_is_spec l : gen_effective_len l = eff_len l.
Proof. reflexivity. Qed.

Definition site_ok (x : bool * bool) : bool :=
  let (is_suggestion, truncate_flag) := x in
  if is_suggestion then negb truncate_flag else truncate_flag.

Lemma render_sites_ok : forallb site_ok gen_render_sites = true.
Proof. vm_compute. reflexivity. Qed.

Lemma truncate_call_is_guarded : gen_truncate_calls_in_render = 1 /\ gen_truncate_calls_guarded = 1.
Proof. split; reflexivity. Qed.
