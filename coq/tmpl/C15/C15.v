(* Property C15 -- theorems only. Each is closed by `exact` of a lemma proved in Inst_Truncate.v
   about the body of truncateText REGENERATED from /repo on this run. *)
From Coq Require Import List ZArith Lia.
From RG.Base Require Import Outcome GoInt GoSlice.
From RG.Engine Require Import TruncateSpec.
From RGW Require Import Gen_Truncate Gen_C15Extras Inst_Truncate.
Import ListNotations.
Local Open Scope Z_scope.

(* what a Report() message shows for a captured text s when RunContext.TruncateLen = l *)
Definition shown (s : bytes) (l : Z) : outcome bytes := truncateText s (gen_effective_len l).

Theorem C15_fitting_text_unchanged :
  forall s L, go_input s L -> len s <= L -> truncateText s L = Ok s.
Proof. exact truncate_fitting. Qed.
Print Assumptions C15_fitting_text_unchanged.

Theorem C15_long_text_shape :
  forall s L, go_input s L -> 5 <= L -> L < len s ->
  exists p q, truncateText s L = Ok (p ++ marker ++ q) /\ is_prefix p s /\ is_suffix q s /\ len p + 5 + len q = L.
Proof. exact truncate_long. Qed.
Print Assumptions C15_long_text_shape.

Theorem C15_no_truncate_len_fails :
  forall s L, go_input s L -> exists r, truncateText s L = Ok r.
Proof. exact truncate_never_panics. Qed.
Print Assumptions C15_no_truncate_len_fails.

Theorem C15_short_len_gives_prefix :
  forall s L r, go_input s L -> L < 5 -> L < len s -> truncateText s L = Ok r -> is_prefix r s /\ len r = Z.max L 0.
Proof. exact truncate_short. Qed.
Print Assumptions C15_short_len_gives_prefix.

Lemma shown_meets_spec s l : go_input s l -> exists r, shown s l = Ok r /\ shown_spec s l r.
Proof.
  intros Hin. unfold shown. rewrite effective_len_is_spec.
  assert (Hin' : go_input s (eff_len l)).
  { destruct Hin as [Hr Hs]. split; [|exact Hs]. unfold eff_len.
    destruct (l =? 0); [|exact Hr]. unfold int_range, int_min, int_max. split; lia. }
  destruct (truncate_never_panics s _ Hin') as [r Hr]. exists r. split; [exact Hr|].
  split.
  - intros Hfit. rewrite truncate_fitting in Hr by assumption. now inversion Hr.
  - intros Hlong H5. destruct (truncate_long s _ Hin' H5 Hlong) as (p & q & Hpq & Hp & Hq & Hlen).
    assert (Hreq : r = p ++ marker ++ q) by congruence. rewrite Hreq.
    exists p, q. repeat split; try assumption.
    rewrite len_app, len_marker_app. lia.
Qed.

Theorem C15_message_text_meets_spec :
  forall s l, go_input s l -> exists r, shown s l = Ok r /\ shown_spec s l r.
Proof. exact shown_meets_spec. Qed.
Print Assumptions C15_message_text_meets_spec.

(* limits below 5 (negative ones included): the text shown is the plain prefix of max(limit, 0) bytes, never more *)
Lemma shown_meets_full_spec s l : go_input s l -> exists r, shown s l = Ok r /\ shown_spec_full s l r.
Proof.
  intros Hin. destruct (shown_meets_spec s l Hin) as (r & Hr & Hspec). exists r. split; [exact Hr|].
  split; [exact Hspec|]. intros Hlong Hsmall.
  assert (Hin' : go_input s (eff_len l)).
  { destruct Hin as [Hrg Hs]. split; [|exact Hs]. unfold eff_len.
    destruct (l =? 0); [|exact Hrg]. unfold int_range, int_min, int_max. split; lia. }
  unfold shown in Hr. rewrite effective_len_is_spec in Hr.
  exact (truncate_short s (eff_len l) r Hin' Hsmall Hlong Hr).
Qed.

Theorem C15_message_text_meets_full_spec :
  forall s l, go_input s l -> exists r, shown s l = Ok r /\ shown_spec_full s l r.
Proof. exact shown_meets_full_spec. Qed.
Print Assumptions C15_message_text_meets_full_spec.

Theorem C15_suggestions_never_truncated_and_messages_are :
  forallb site_ok gen_render_sites = true /\ gen_truncate_calls_in_render = 1 /\ gen_truncate_calls_guarded = 1.
Proof. exact (conj render_sites_ok truncate_call_is_guarded). Qed.
Print Assumptions C15_suggestions_never_truncated_and_messages_are.

(* non-vacuity: the hypotheses are met by concrete inputs, and the three regimes all occur *)
Example c15_fits : shown [104;105] 0 = Ok [104;105] /\ go_input [104;105] 0.
Proof. split; [vm_compute; reflexivity|unfold go_input, int_range, int_min, int_max, len; cbn; lia]. Qed.
Example c15_cut : shown [1;2;3;4;5;6;7;8;9;10;11] 8 = Ok [1;60;46;46;46;62;10;11].
Proof. vm_compute; reflexivity. Qed.
Example c15_tiny : shown [1;2;3;4;5;6;7;8;9;10;11] 3 = Ok [1;2;3] /\ shown [1;2;3] (-4) = Ok [].
Proof. split; vm_compute; reflexivity. Qed.
