(* Property C07 -- theorems only, closed by `exact` of lemmas of RG.Filters.Totality / Inst_C07.v / Inst_Truncate.v, about the
   access profiles, guards and truncateText REGENERATED from /repo on this run. *)
From Coq Require Import List ZArith Bool String Lia.
From RG.Base Require Import Outcome GoInt GoSlice.
From RG.Engine Require Import TruncateSpec.
From RG.Filters Require Import FilterIR Totality TotalityExt.
From RGW Require Import Gen_FilterTotal Gen_FilterTotal2 Gen_FilterEnums Inst_C07 Gen_Truncate Gen_C15Extras Inst_Truncate.
Import ListNotations.
Local Open Scope string_scope.

(* every filter closure of filters.go runs to a verdict on every capture shape (ordinary node, `$*xs` of any length
   including 0, typed nil) and whatever go/types says about it (untyped type, nil object) *)
Theorem C07_filters_total : forall name ac s tf, In (name, ac) gen_access ->
  closure_run ac gen_nodetext_guarded s tf = Ok tt.
Proof. exact closure_total. Qed.
Print Assumptions C07_filters_total.

Theorem C07_filters_total_generic : forall ac tg s tf, access_safe tg ac = true -> closure_run ac tg s tf = Ok tt.
Proof. exact filters_total. Qed.
Print Assumptions C07_filters_total_generic.

(* the guards are necessary: without them these captures crash the run (what the unfixed tree did) *)
Theorem C07_unguarded_position_refuted : forall ac tg tf, ac_pos ac = true -> ac_pos_guarded ac = false ->
  closure_run ac tg (ShList 0) tf = Panic PIndex /\ closure_run ac tg ShTypedNil tf = Panic PNilDeref.
Proof. exact unguarded_pos_crashes. Qed.
Print Assumptions C07_unguarded_position_refuted.

(* message / suggestion interpolation of any capture -- also one that is no node at all (a nil ast.Node) *)
Theorem C07_render_total : forall s,
  render_capture gen_render_reflects gen_render_nil_iface_first gen_render_drops_typed_nil gen_nodetext_guarded s = Ok tt.
Proof. exact render_total_gen. Qed.
Print Assumptions C07_render_total.

(* the nil test in front of reflect is necessary (what the unfixed tree did on `switch $*x { ... }` without init and tag) *)
Theorem C07_render_reflect_on_nil_refuted : forall skips tg, render_capture true false skips tg ShNilIface = Panic PExplicit.
Proof. exact render_reflect_on_nil_iface_crashes. Qed.
Print Assumptions C07_render_reflect_on_nil_refuted.

(* ... also when the text of the capture cannot be sliced out of the file (a file that exists in memory only, a saved version
   that is shorter than the analysed one) and has to be printed: whatever kind of node the capture is *)
Theorem C07_filters_total_any_file : forall name ac readable s c tf, In (name, ac) gen_access ->
  closure_run_on ac gen_nodetext_guarded gen_text_print_handled gen_text_print_recursive readable s c tf = Ok tt.
Proof. exact closure_total_on. Qed.
Print Assumptions C07_filters_total_any_file.

Theorem C07_render_total_any_file : forall readable s c,
  render_capture_on gen_render_reflects gen_render_nil_iface_first gen_render_drops_typed_nil gen_nodetext_guarded
    gen_text_print_handled gen_text_print_recursive readable s c = Ok tt.
Proof. exact render_total_on_gen. Qed.
Print Assumptions C07_render_total_any_file.

(* the fallback's own cases are necessary: handing a `$*xs` capture or a result list to go/printer crashes the run as soon as
   the file's bytes are not readable, and only then (what the unfixed tree did) *)
Theorem C07_unhandled_list_refuted : forall ac tg recur tf n f, access_safe tg ac = true -> ac_text ac = true ->
  closure_run_on ac tg ["*ast.Comment"] recur false (ShList (S n)) (NcSlice f) tf = Panic PExplicit /\
  closure_run_on ac tg ["*ast.Comment"] recur false ShNode NcFieldList tf = Panic PExplicit /\
  closure_run_on ac tg ["*ast.Comment"] recur true (ShList (S n)) (NcSlice f) tf = Ok tt.
Proof. exact unhandled_list_crashes. Qed.
Print Assumptions C07_unhandled_list_refuted.

(* ... and so is the case for the match of a range-header / range-clause pattern (`$$` of `for $k, $v := range $x` is a
   gogrep.PartialNode, which go/printer rejects): without it the run crashes on a file whose bytes are not readable *)
Theorem C07_unhandled_partial_refuted : forall ac tg recur tf, access_safe tg ac = true -> ac_text ac = true ->
  closure_run_on ac tg ["*ast.Comment"; "*gogrep.NodeSlice"; "*ast.FieldList"; "*ast.Field"] recur false ShNode NcPartial tf = Panic PExplicit /\
  closure_run_on ac tg ["*ast.Comment"; "*gogrep.NodeSlice"; "*ast.FieldList"; "*ast.Field"] recur true ShNode NcPartial tf = Ok tt /\
  closure_run_on ac tg ["*ast.Comment"; "*gogrep.NodeSlice"; "*gogrep.PartialNode"; "*ast.FieldList"; "*ast.Field"] recur false ShNode NcPartial tf = Ok tt.
Proof. exact unhandled_partial_crashes. Qed.
Print Assumptions C07_unhandled_partial_refuted.

(* Object.Is(kind): every name the loader accepts (regenerated) has a predicate in the constructor's switch (regenerated); a name
   let through by the loader without a case there is a nil function, called on the first identifier *)
Theorem C07_object_is_total_for_every_accepted_name : forall n, In n gen_object_is_accepted -> enum_call gen_object_is_dispatch n = Ok tt.
Proof. exact object_is_call_total. Qed.
Print Assumptions C07_object_is_total_for_every_accepted_name.

Theorem C07_dropped_object_kind_crashes :
  enum_call ["Func"; "Var"; "Const"; "TypeName"; "Label"; "PkgName"; "Builtin"] "Nil" = Panic PNilDeref /\
  enum_dispatch_okb ["Func"; "Var"; "Const"; "TypeName"; "Label"; "PkgName"; "Builtin"; "Nil"]
                    ["Func"; "Var"; "Const"; "TypeName"; "Label"; "PkgName"; "Builtin"] = false /\
  enum_dispatch_okb ["Func"; "Var"; "Const"; "TypeName"; "Label"; "PkgName"; "Builtin"; "Nil"]
                    ["Func"; "Var"; "Const"; "TypeName"; "Label"; "PkgName"; "Builtin"; "Nil"] = true.
Proof. exact enum_call_dropped_crashes. Qed.
Print Assumptions C07_dropped_object_kind_crashes.

(* truncation (C15's theorem, re-proved here against the same regenerated body): any TruncateLen, any text *)
Theorem C07_truncate_total : forall s L, go_input s L -> exists r, truncateText s L = Ok r.
Proof. exact truncate_never_panics. Qed.
Print Assumptions C07_truncate_total.

(* the report: whatever the match root (also the empty list a `$*xs; $*ys` pattern matches) and whatever At() names (also a
   capture that matched nothing), a report that is delivered has a non-absent node whose Pos()/End() are defined *)
Theorem C07_report_wellformed : forall root loc n,
  deliver gen_match_root_guarded gen_location_guarded root loc = Some n -> absent n = false /\ node_pos n = Ok tt.
Proof. exact delivered_wellformed. Qed.
Print Assumptions C07_report_wellformed.

(* the root guard is necessary: without it the empty match is delivered and Pos() indexes element 0 (the unfixed tree) *)
Theorem C07_unguarded_root_refuted : forall loc_guarded,
  deliver false loc_guarded (ShList 0) None = Some (ShList 0) /\ node_pos (ShList 0) = Panic PIndex.
Proof. exact deliver_unguarded_root_malformed. Qed.
Print Assumptions C07_unguarded_root_refuted.

(* positions: with go/parser's ranges for non-absent nodes as hypothesis (it does not hold for the node lists gogrep builds out
   of source order -- C07_reversed_list_malformed, known finding), every delivered report lies inside the file *)
Theorem C07_report_positions_inside_file : forall (file_len : nat) (pos end_ : cshape -> nat),
  (forall s, absent s = false -> pos s <= end_ s <= file_len) ->
  forall root loc n, deliver true true root loc = Some n -> pos n <= end_ n <= file_len.
Proof. exact delivered_positions_inside_file. Qed.
Print Assumptions C07_report_positions_inside_file.

Theorem C07_report_builder_and_helpers_ok :
  gen_location_guarded && gen_suggestion_from_report_node && gen_report_group_from_rule = true /\
  gen_libdsl_sizeof_guarded && gen_sinktype_kv_guarded = true.
Proof. exact (conj report_builder_ok helpers_ok). Qed.
Print Assumptions C07_report_builder_and_helpers_ok.

(* ---- nested types: hasKnownSize (regenerated structure) against Sizeof, for every well-formed type *)
Theorem C07_known_size_sound : forall t, wfb t = true -> known_size gen_known_size t = true -> sizeof t = Ok tt.
Proof. exact known_size_sound_gen. Qed.
Print Assumptions C07_known_size_sound.

Theorem C07_toplevel_size_test_refuted :
  known_size ks_toplevel_only (TArray TParam) = true /\ sizeof (TArray TParam) = Panic PExplicit /\
  known_size ks_toplevel_only (TStruct [TBasic false; TParam]) = true /\ sizeof (TStruct [TBasic false; TParam]) = Panic PExplicit /\
  known_size ks_toplevel_only (TNamed (TStruct [TArray (TBasic true)])) = true /\ sizeof (TNamed (TStruct [TArray (TBasic true)])) = Panic PExplicit.
Proof. exact toplevel_test_refuted. Qed.
Print Assumptions C07_toplevel_size_test_refuted.

(* ---- matcher states: the list walk of the rule loop over any block, whatever the Contains() sub-patterns allocate *)
Theorem C07_list_walk_total : forall steps n cb st rest, st gen_main_state_origin = n :: rest ->
  walk steps gen_main_state_origin gen_sub_state_origin n cb st = Ok tt.
Proof. exact list_walk_total. Qed.
Print Assumptions C07_list_walk_total.

Theorem C07_shared_matcher_state_refuted : walk 2 "s" "s" 5 (fun _ => [1]) (fun _ => [5; 5]) = Panic PSliceBounds.
Proof. exact walk_shared_crashes. Qed.
Print Assumptions C07_shared_matcher_state_refuted.

(* ---- recursion over nested types: alias nodes at any depth (gotypesalias=1) never reach xtypes' panicking default *)
Theorem C07_type_recursion_total : forall t, heads_in gen_xtypes_cases t = true ->
  traverse gen_xtypes_unaliased_in_recursion gen_xtypes_default_panics gen_xtypes_cases t = Ok tt.
Proof. exact type_recursion_total. Qed.
Print Assumptions C07_type_recursion_total.

Theorem C07_hoisted_unalias_refuted : forall cases, mem "*types.Slice" cases = true ->
  traverse false true cases (unalias (GAlias (GNode "*types.Slice" [GAlias (GNode "*types.Basic" [])]))) = Panic PExplicit.
Proof. exact hoisted_unalias_refuted. Qed.
Print Assumptions C07_hoisted_unalias_refuted.

Theorem C07_recursion_sites_ok :
  gen_xtypes_unaliased_in_recursion && descents_ok "typeIdentical" gen_xtypes_descents && cases_complete gen_xtypes_cases &&
  Nat.eqb (List.length gen_xtypes_other_switches) 0 && Nat.leb 1 (List.length gen_xtypes_descents) = true /\
  gen_typematch_unaliased_in_recursion && descents_ok "matchIdentical" gen_typematch_descents &&
  indexes_guarded gen_typematch_decremented_indexes && Nat.leb 1 (List.length gen_typematch_decremented_indexes) &&
  Nat.leb 1 (List.length gen_typematch_descents) = true /\
  forallb snd gen_sinktype_kv_cases && Nat.leb 2 (List.length gen_sinktype_kv_cases) = true /\ gen_nodetext_ordered = true.
Proof. exact (conj xtypes_recursion_ok (conj typematch_recursion_ok (conj sinktype_kv_ok nodetext_ordered))). Qed.
Print Assumptions C07_recursion_sites_ok.

(* ---- typematch: the variadic test of a function pattern with any number of parameters (also none) *)
Theorem C07_variadic_test_total : forall params,
  exists b, variadic_mismatch (indexes_guarded gen_typematch_decremented_indexes) params = Ok b.
Proof. exact variadic_test_total. Qed.
Print Assumptions C07_variadic_test_total.

Theorem C07_variadic_test_unguarded_refuted : variadic_mismatch false [] = Panic PIndex.
Proof. exact variadic_mismatch_unguarded_crashes. Qed.
Print Assumptions C07_variadic_test_unguarded_refuted.

(* ---- known finding if-opt-capture-reversed: a node list that is not in source order has Pos() behind End() *)
Theorem C07_reversed_list_malformed : forall cp ce ip ie, ip < ie -> ie < cp -> cp < ce ->
  exists p e, list_pos [(cp, ce); (ip, ie)] = Some p /\ list_end [(cp, ce); (ip, ie)] = Some e /\ e < p.
Proof. exact reversed_list_malformed. Qed.
Print Assumptions C07_reversed_list_malformed.

(* non-vacuity *)
Example c07_line_filter_profile :
  match assoc "makeLineConstFilter" gen_access with
  | Some ac => ac_pos ac = true /\ closure_run ac gen_nodetext_guarded (ShList 0) {| tf_untyped := true; tf_obj_nil := true |} = Ok tt
               /\ closure_run {| ac_pos := true; ac_pos_guarded := false; ac_text := false; ac_walk := false; ac_walk_guarded := false;
                                 ac_sizeof := false; ac_sizeof_guarded := false; ac_objderef := false; ac_objderef_guarded := false |}
                              true (ShList 0) {| tf_untyped := false; tf_obj_nil := false |} = Panic PIndex
  | None => False
  end.
Proof. vm_compute. repeat split. Qed.

Example c07_nested_types :
  known_size gen_known_size (TArray TParam) = false /\ known_size gen_known_size (TNamed (TStruct [TBasic false; TAlias TParam])) = false /\
  known_size gen_known_size (TStruct [TOpaque; TArray (TNamed (TBasic false))]) = true /\
  sizeof (TStruct [TOpaque; TArray (TNamed (TBasic false))]) = Ok tt /\
  heads_in gen_xtypes_cases (GNode "*types.Slice" [GAlias (GNode "*types.Basic" [])]) = true /\
  deliver gen_match_root_guarded gen_location_guarded (ShList 0) (Some ShNode) = None /\
  deliver gen_match_root_guarded gen_location_guarded (ShList 2) (Some ShNilIface) = Some (ShList 2).
Proof. vm_compute. repeat split. Qed.

Example c07_report_at_empty_list :
  report_node true ShNode (Some (ShList 0)) = ShNode /\ report_node true ShNode (Some (ShList 2)) = ShList 2 /\
  node_pos (report_node false ShNode (Some (ShList 0))) = Panic PIndex.
Proof. repeat split. Qed.

Example c07_text_of_a_list_capture_in_memory :
  match assoc "makeTextConstFilter" gen_access with
  | Some ac => ac_text ac = true /\
      closure_run_on ac gen_nodetext_guarded gen_text_print_handled gen_text_print_recursive false (ShList 3) (NcSlice false)
        {| tf_untyped := false; tf_obj_nil := false |} = Ok tt /\
      closure_run_on ac gen_nodetext_guarded ["*ast.Comment"] false false (ShList 3) (NcSlice false)
        {| tf_untyped := false; tf_obj_nil := false |} = Panic PExplicit
  | None => False
  end.
Proof. vm_compute. repeat split. Qed.

(* ---------------------------------------------------------------- the walker and the children a node may not have *)
(* every optional pointer-typed child (BranchStmt.Label, ImportSpec.Name, Field.Tag, FuncDecl.Body, result lists, doc comments ...) is
   walked under a test of the field itself: whatever the field holds -- a node or a nil pointer -- the walk is total *)
Theorem C07_walker_optional_children_total : forall node field class optional callee guarded c,
  In (node, field, class, optional, callee, guarded) gen_walker_children ->
  String.eqb class "ptr" && optional = true -> holds class c = true ->
  guarded = true /\ walk_child field_test c = Ok tt.
Proof. exact walker_optional_children_total. Qed.
Print Assumptions C07_walker_optional_children_total.

(* a test made behind the conversion to ast.Node (a helper `walkOpt(n ast.Node)`) lets the nil pointer through: Run crashes *)
Theorem C07_walker_converted_test_crashes :
  holds "ptr" ChNilPtr = true /\ walk_child converted_test ChNilPtr = Panic PNilDeref /\ walk_child (fun _ => true) ChNilPtr = Panic PNilDeref.
Proof. exact walk_child_converted_test_crashes. Qed.
Print Assumptions C07_walker_converted_test_crashes.

Theorem C07_walker_iface_child_total : forall c, holds "iface" c = true -> walk_node c = Ok tt.
Proof. exact walk_iface_child_total. Qed.
Print Assumptions C07_walker_iface_child_total.

(* ---------------------------------------------------------------- with or without a reusable state *)
(* a RunnerState may be created at any point of the engine's life; the engine may load further files afterwards. For every
   history of Loads, state creations and Runs (each Run with no state or with any state created so far, any number of times),
   in which every Load is what the compiler produces (a call goes to a function of the table as it is after the file's own
   functions were added): no call of the loaded code leaves the function table the state sees -- given that newRulesRunner
   refreshes a state it is handed, which is the regenerated obligation *)
Theorem C07_run_total_over_load_histories : forall ops,
  wf_ops [] ops = true ->
  exec (state_reuse_okb gen_evalenv_copied gen_evalenv_refreshed gen_state_reset gen_state_evalenv_from gen_state_var gen_given_state_calls) [] [] ops = Ok tt.
Proof. intros ops Hw. rewrite state_reuse_ok. now apply given_state_run_total. Qed.
Print Assumptions C07_run_total_over_load_histories.

(* the refresh is necessary: a state created before a Load whose code calls a helper of its own file sees a table that is too
   short (index out of range in the evaluator); a state created after the Load, and no state, are fine either way *)
Theorem C07_stale_state_crashes :
  wf_ops [] [HNew; HLoad [[1]; []]; HRun (Some 0)] = true /\
  exec false [] [] [HNew; HLoad [[1]; []]; HRun (Some 0)] = Panic PIndex /\
  exec false [] [] [HLoad [[]]; HNew; HLoad [[2]; []]; HRun (Some 0)] = Panic PIndex /\
  exec false [] [] [HNew; HLoad [[1]; []]; HNew; HRun None; HRun (Some 1)] = Ok tt.
Proof. exact stale_state_crashes. Qed.
Print Assumptions C07_stale_state_crashes.

Example c07_demo_history :
  wf_ops [] [HNew; HLoad [[]]; HNew; HRun (Some 0); HLoad [[2]; [2]; []]; HRun (Some 0); HRun (Some 1); HRun None; HNew; HRun (Some 2)] = true.
Proof. vm_compute. reflexivity. Qed.
