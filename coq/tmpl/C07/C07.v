(* Property C07 -- theorems only, closed by `exact` of lemmas of RG.Filters.Totality / Inst_C07.v / Inst_Truncate.v, about the
   access profiles, guards and truncateText REGENERATED from /repo on this run. *)
From Coq Require Import List ZArith Bool String Lia.
From RG.Base Require Import Outcome GoInt GoSlice.
From RG.Engine Require Import TruncateSpec.
From RG.Filters Require Import FilterIR Totality.
From RGW Require Import Gen_FilterTotal Inst_C07 Gen_Truncate Gen_C15Extras Inst_Truncate.
Import ListNotations.
Local Open Scope string_scope.

(* every filter closure of filters.go runs to a verdict on every capture shape (ordinary node, `$*xs` of any length
   including 0, typed nil) and whatever go/types says about it (untyped type, nil object) *)
Theorem C07_filters_total : forall name ac s tf, In (name, ac) gen_access ->
  closure_run ac gen_nodetext_guarded s tf = Ok tt.
Proof. exact closure_total. Qed.
Print Assumptions C07_filters_total.

Theorem C07_filters_total_generic : forall ac tg s tf, access_safe tg ac = true -> closure_run ac tg s tf = Ok tt.
Proof. exact filters_total. Qed.
Print Assumptions C07_filters_total_generic.

(* the guards are necessary: without them these captures crash the run (what the unfixed tree did) *)
Theorem C07_unguarded_position_refuted : forall ac tg tf, ac_pos ac = true -> ac_pos_guarded ac = false ->
  closure_run ac tg (ShList 0) tf = Panic PIndex /\ closure_run ac tg ShTypedNil tf = Panic PNilDeref.
Proof. exact unguarded_pos_crashes. Qed.
Print Assumptions C07_unguarded_position_refuted.

(* message / suggestion interpolation of any capture *)
Theorem C07_render_total : forall s, render_capture gen_render_skips_typed_nil gen_nodetext_guarded s = Ok tt.
Proof. exact render_total_gen. Qed.
Print Assumptions C07_render_total.

(* ... also when the text of the capture cannot be sliced out of the file (a file that exists in memory only, a saved version
   that is shorter than the analysed one) and has to be printed: whatever kind of node the capture is *)
Theorem C07_filters_total_any_file : forall name ac readable s c tf, In (name, ac) gen_access ->
  closure_run_on ac gen_nodetext_guarded gen_text_print_handled gen_text_print_recursive readable s c tf = Ok tt.
Proof. exact closure_total_on. Qed.
Print Assumptions C07_filters_total_any_file.

Theorem C07_render_total_any_file : forall readable s c,
  render_capture_on gen_render_skips_typed_nil gen_nodetext_guarded gen_text_print_handled gen_text_print_recursive readable s c = Ok tt.
Proof. exact render_total_on_gen. Qed.
Print Assumptions C07_render_total_any_file.

(* the fallback's own cases are necessary: handing a `$*xs` capture or a result list to go/printer crashes the run as soon as
   the file's bytes are not readable, and only then (what the unfixed tree did) *)
Theorem C07_unhandled_list_refuted : forall ac tg recur tf n f, access_safe tg ac = true -> ac_text ac = true ->
  closure_run_on ac tg ["*ast.Comment"] recur false (ShList (S n)) (NcSlice f) tf = Panic PExplicit /\
  closure_run_on ac tg ["*ast.Comment"] recur false ShNode NcFieldList tf = Panic PExplicit /\
  closure_run_on ac tg ["*ast.Comment"] recur true (ShList (S n)) (NcSlice f) tf = Ok tt.
Proof. exact unhandled_list_crashes. Qed.
Print Assumptions C07_unhandled_list_refuted.

(* truncation (C15's theorem, re-proved here against the same regenerated body): any TruncateLen, any text *)
Theorem C07_truncate_total : forall s L, go_input s L -> exists r, truncateText s L = Ok r.
Proof. exact truncate_never_panics. Qed.
Print Assumptions C07_truncate_total.

(* the report: a non-absent node whose Pos()/End() are defined, also when At() names a capture that matched nothing *)
Theorem C07_report_wellformed : forall root loc, absent root = false ->
  absent (report_node gen_location_guarded root loc) = false /\ node_pos (report_node gen_location_guarded root loc) = Ok tt.
Proof. rewrite location_guarded. exact report_wellformed. Qed.
Print Assumptions C07_report_wellformed.

Theorem C07_report_positions_inside_file : forall (file_len : nat) (pos end_ : cshape -> nat),
  (forall s, absent s = false -> pos s <= end_ s <= file_len) ->
  forall root loc, absent root = false ->
  pos (report_node true root loc) <= end_ (report_node true root loc) <= file_len.
Proof. exact report_positions_inside_file. Qed.
Print Assumptions C07_report_positions_inside_file.

Theorem C07_report_builder_and_helpers_ok :
  gen_location_guarded && gen_suggestion_from_report_node && gen_report_group_from_rule = true /\
  gen_libdsl_sizeof_guarded && gen_sinktype_kv_guarded = true.
Proof. exact (conj report_builder_ok helpers_ok). Qed.
Print Assumptions C07_report_builder_and_helpers_ok.

(* non-vacuity *)
Example c07_line_filter_profile :
  match assoc "makeLineConstFilter" gen_access with
  | Some ac => ac_pos ac = true /\ closure_run ac gen_nodetext_guarded (ShList 0) {| tf_untyped := true; tf_obj_nil := true |} = Ok tt
               /\ closure_run {| ac_pos := true; ac_pos_guarded := false; ac_text := false; ac_walk := false; ac_walk_guarded := false;
                                 ac_sizeof := false; ac_sizeof_guarded := false; ac_objderef := false; ac_objderef_guarded := false |}
                              true (ShList 0) {| tf_untyped := false; tf_obj_nil := false |} = Panic PIndex
  | None => False
  end.
Proof. vm_compute. repeat split. Qed.

Example c07_report_at_empty_list :
  report_node true ShNode (Some (ShList 0)) = ShNode /\ report_node true ShNode (Some (ShList 2)) = ShList 2 /\
  node_pos (report_node false ShNode (Some (ShList 0))) = Panic PIndex.
Proof. repeat split. Qed.

Example c07_text_of_a_list_capture_in_memory :
  match assoc "makeTextConstFilter" gen_access with
  | Some ac => ac_text ac = true /\
      closure_run_on ac gen_nodetext_guarded gen_text_print_handled gen_text_print_recursive false (ShList 3) (NcSlice false)
        {| tf_untyped := false; tf_obj_nil := false |} = Ok tt /\
      closure_run_on ac gen_nodetext_guarded ["*ast.Comment"] false false (ShList 3) (NcSlice false)
        {| tf_untyped := false; tf_obj_nil := false |} = Panic PExplicit
  | None => False
  end.
Proof. vm_compute. repeat split. Qed.
