(* C07 -- obligations over the access profiles and guards REGENERATED from /repo on this run (Gen_FilterTotal.v). *)
From Coq Require Import List Bool String.
From RG.Base Require Import Outcome.
From RG.Filters Require Import FilterIR Totality.
From RGW Require Import Gen_FilterTotal.
Import ListNotations.
Local Open Scope string_scope.

(* every partial operation of every filter closure is guarded *)
Lemma all_closures_safe : forallb (fun e => access_safe gen_nodetext_guarded (snd e)) gen_access = true.
Proof. vm_compute. reflexivity. Qed.

(* isAbsentNode recognises the three absent shapes the model's [absent] stands for; hasKnownSize excludes untyped types *)
Lemma absent_definition_ok :
  mem "nil" gen_absent_checks && mem "empty-slice" gen_absent_checks && mem "typed-nil" gen_absent_checks && gen_has_known_size_ok = true.
Proof. vm_compute. reflexivity. Qed.

Lemma renderer_ok : (gen_render_skips_typed_nil || gen_nodetext_guarded) && gen_render_text_via_nodetext = true.
Proof. vm_compute. reflexivity. Qed.

Lemma report_builder_ok : gen_location_guarded && gen_suggestion_from_report_node && gen_report_group_from_rule = true.
Proof. vm_compute. reflexivity. Qed.

Lemma helpers_ok : gen_libdsl_sizeof_guarded && gen_sinktype_kv_guarded = true.
Proof. vm_compute. reflexivity. Qed.

Lemma closure_total name ac s tf : In (name, ac) gen_access -> closure_run ac gen_nodetext_guarded s tf = Ok tt.
Proof.
  intros Hin. apply filters_total.
  pose proof all_closures_safe as H. rewrite forallb_forall in H. exact (H (name, ac) Hin).
Qed.

Lemma render_total_gen s : render_capture gen_render_skips_typed_nil gen_nodetext_guarded s = Ok tt.
Proof.
  apply render_total. pose proof renderer_ok as H. apply andb_prop in H. tauto.
Qed.

(* the text fallback takes apart every node go/printer does not know *)
Lemma text_fallback_ok : print_handles_all gen_text_print_handled gen_text_print_recursive = true.
Proof. vm_compute. reflexivity. Qed.

Lemma closure_total_on name ac readable s c tf : In (name, ac) gen_access ->
  closure_run_on ac gen_nodetext_guarded gen_text_print_handled gen_text_print_recursive readable s c tf = Ok tt.
Proof.
  intros Hin. apply filters_total_on; [|exact text_fallback_ok].
  pose proof all_closures_safe as H. rewrite forallb_forall in H. exact (H (name, ac) Hin).
Qed.

Lemma render_total_on_gen readable s c :
  render_capture_on gen_render_skips_typed_nil gen_nodetext_guarded gen_text_print_handled gen_text_print_recursive readable s c = Ok tt.
Proof.
  apply render_total_on; [|exact text_fallback_ok]. pose proof renderer_ok as H. apply andb_prop in H. tauto.
Qed.

Lemma location_guarded : gen_location_guarded = true.
Proof. pose proof report_builder_ok as H. repeat (apply andb_prop in H; destruct H as [H ?]). exact H. Qed.
