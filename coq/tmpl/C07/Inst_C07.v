(* C07 -- obligations over the access profiles and guards REGENERATED from /repo on this run (Gen_FilterTotal.v). *)
From Coq Require Import List Bool String.
From RG.Base Require Import Outcome.
From RG.Filters Require Import FilterIR Totality TotalityExt.
From RGW Require Import Gen_FilterTotal Gen_FilterTotal2 Gen_FilterEnums.
Import ListNotations.
Local Open Scope string_scope.

(* every partial operation of every filter closure is guarded *)
Lemma all_closures_safe : forallb (fun e => access_safe gen_nodetext_guarded (snd e)) gen_access = true.
Proof. vm_compute. reflexivity. Qed.

(* isAbsentNode recognises the three absent shapes the model's [absent] stands for; hasKnownSize excludes untyped types *)
Lemma absent_definition_ok :
  mem "nil" gen_absent_checks && mem "empty-slice" gen_absent_checks && mem "typed-nil" gen_absent_checks && gen_has_known_size_ok = true.
Proof. vm_compute. reflexivity. Qed.

(* renderMessage: typed nils are dropped (or nodeText is guarded), the nil interface is recognised before reflect is asked, the
   text is read through nodeText only *)
Lemma renderer_ok :
  render_safe gen_render_reflects gen_render_nil_iface_first gen_render_drops_typed_nil gen_nodetext_guarded && gen_render_text_via_nodetext = true.
Proof. vm_compute. reflexivity. Qed.

Lemma report_builder_ok : gen_location_guarded && gen_suggestion_from_report_node && gen_report_group_from_rule = true.
Proof. vm_compute. reflexivity. Qed.

Lemma helpers_ok : gen_libdsl_sizeof_guarded && gen_sinktype_kv_guarded = true.
Proof. vm_compute. reflexivity. Qed.

Lemma closure_total name ac s tf : In (name, ac) gen_access -> closure_run ac gen_nodetext_guarded s tf = Ok tt.
Proof.
  intros Hin. apply filters_total.
  pose proof all_closures_safe as H. rewrite forallb_forall in H. exact (H (name, ac) Hin).
Qed.

Lemma render_total_gen s :
  render_capture gen_render_reflects gen_render_nil_iface_first gen_render_drops_typed_nil gen_nodetext_guarded s = Ok tt.
Proof.
  apply render_total. pose proof renderer_ok as H. apply andb_prop in H. tauto.
Qed.

(* the text fallback takes apart every node go/printer does not know *)
Lemma text_fallback_ok : print_handles_all gen_text_print_handled gen_text_print_recursive = true.
Proof. vm_compute. reflexivity. Qed.

Lemma closure_total_on name ac readable s c tf : In (name, ac) gen_access ->
  closure_run_on ac gen_nodetext_guarded gen_text_print_handled gen_text_print_recursive readable s c tf = Ok tt.
Proof.
  intros Hin. apply filters_total_on; [|exact text_fallback_ok].
  pose proof all_closures_safe as H. rewrite forallb_forall in H. exact (H (name, ac) Hin).
Qed.

Lemma render_total_on_gen readable s c :
  render_capture_on gen_render_reflects gen_render_nil_iface_first gen_render_drops_typed_nil gen_nodetext_guarded
    gen_text_print_handled gen_text_print_recursive readable s c = Ok tt.
Proof.
  apply render_total_on; [|exact text_fallback_ok]. pose proof renderer_ok as H. apply andb_prop in H. tauto.
Qed.

Lemma location_guarded : gen_location_guarded = true.
Proof. pose proof report_builder_ok as H. repeat (apply andb_prop in H; destruct H as [H ?]). exact H. Qed.

(* ------------------------------------------------------------------ mechanisms outside the closures (Gen_FilterTotal2.v) *)
(* handleMatch drops a match whose root is absent before anything reads its position; nodeText slices only ordered extents *)
Lemma root_guarded : gen_match_root_guarded = true.
Proof. vm_compute. reflexivity. Qed.

Lemma nodetext_ordered : gen_nodetext_ordered = true.
Proof. vm_compute. reflexivity. Qed.

Lemma delivered_wellformed root loc n :
  deliver gen_match_root_guarded gen_location_guarded root loc = Some n -> absent n = false /\ node_pos n = Ok tt.
Proof. rewrite root_guarded, location_guarded. apply deliver_wellformed. Qed.

(* hasKnownSize makes every test and recurses into arrays and structs *)
Lemma known_size_ok : ks_ok gen_known_size = true.
Proof. vm_compute. reflexivity. Qed.

Lemma known_size_sound_gen t : wfb t = true -> known_size gen_known_size t = true -> sizeof t = Ok tt.
Proof. apply known_size_sound. exact known_size_ok. Qed.

(* findSinkType: every literal-type case that reads kv.Key tests kv first *)
Lemma sinktype_kv_ok : forallb snd gen_sinktype_kv_cases && Nat.leb 2 (List.length gen_sinktype_kv_cases) = true.
Proof. vm_compute. reflexivity. Qed.

(* the rule loop's matcher and Contains()'s matcher run on states from two different allocations *)
Lemma matcher_states_distinct : states_distinct gen_main_state_origin gen_sub_state_origin = true.
Proof. vm_compute. reflexivity. Qed.

Lemma list_walk_total steps n cb st rest : st gen_main_state_origin = n :: rest ->
  walk steps gen_main_state_origin gen_sub_state_origin n cb st = Ok tt.
Proof. apply walk_total_distinct. apply states_distinct_neq. exact matcher_states_distinct. Qed.

(* xtypes.typeIdentical: unaliases inside the recursion, descends only through itself, knows every go/types constructor,
   is the only type switch of the file *)
Lemma xtypes_recursion_ok :
  gen_xtypes_unaliased_in_recursion && descents_ok "typeIdentical" gen_xtypes_descents && cases_complete gen_xtypes_cases &&
  Nat.eqb (List.length gen_xtypes_other_switches) 0 && Nat.leb 1 (List.length gen_xtypes_descents) = true.
Proof. vm_compute. reflexivity. Qed.

Lemma xtypes_unaliased : gen_xtypes_unaliased_in_recursion = true.
Proof. pose proof xtypes_recursion_ok as H. repeat (apply andb_prop in H; destruct H as [H ?]). exact H. Qed.

Lemma type_recursion_total t : heads_in gen_xtypes_cases t = true ->
  traverse gen_xtypes_unaliased_in_recursion gen_xtypes_default_panics gen_xtypes_cases t = Ok tt.
Proof. rewrite xtypes_unaliased. apply traverse_total. Qed.

(* typematch.matchIdentical: unaliases inside the recursion, descends only through itself, guards its decremented indexes *)
Lemma typematch_recursion_ok :
  gen_typematch_unaliased_in_recursion && descents_ok "matchIdentical" gen_typematch_descents &&
  indexes_guarded gen_typematch_decremented_indexes && Nat.leb 1 (List.length gen_typematch_decremented_indexes) &&
  Nat.leb 1 (List.length gen_typematch_descents) = true.
Proof. vm_compute. reflexivity. Qed.

Lemma typematch_indexes_guarded : indexes_guarded gen_typematch_decremented_indexes = true.
Proof. pose proof typematch_recursion_ok as H. repeat (apply andb_prop in H; destruct H as [H ?]). assumption. Qed.

Lemma variadic_test_total params : exists b, variadic_mismatch (indexes_guarded gen_typematch_decremented_indexes) params = Ok b.
Proof. rewrite typematch_indexes_guarded. apply variadic_mismatch_total. Qed.

(* ast_walker.go: every pointer-typed child that go/ast declares optional and the walker hands on is handed to walk itself under a
   test of the field (`if n.F != nil`), no method of the walker tests a node parameter of interface type; the children the
   Ident / BasicLit buckets depend on are in the inventory *)
Lemma walker_children_ok :
  walker_children_okb gen_walker_children gen_walker_iface_helpers &&
  walker_covers gen_walker_children "BranchStmt" "Label" && walker_covers gen_walker_children "ImportSpec" "Name" &&
  walker_covers gen_walker_children "Field" "Tag" && walker_covers gen_walker_children "FuncDecl" "Body" &&
  walker_covers gen_walker_children "FuncType" "Results" = true.
Proof. vm_compute. reflexivity. Qed.

Lemma walker_optional_children_total node field class optional callee guarded c :
  In (node, field, class, optional, callee, guarded) gen_walker_children ->
  String.eqb class "ptr" && optional = true -> holds class c = true ->
  guarded = true /\ walk_child field_test c = Ok tt.
Proof.
  apply (walker_children_total gen_walker_children gen_walker_iface_helpers).
  pose proof walker_children_ok as H. repeat (apply andb_prop in H; destruct H as [H ?]). exact H.
Qed.

(* runner.go / quasigo.go: a runner state that newRulesRunner is GIVEN is reset and has every function table that GetEvalEnv
   copied into it copied again (UpdateEvalEnv) before it is used; a new state's environment comes from GetEvalEnv *)
Lemma state_reuse_ok :
  state_reuse_okb gen_evalenv_copied gen_evalenv_refreshed gen_state_reset gen_state_evalenv_from gen_state_var gen_given_state_calls = true.
Proof. vm_compute. reflexivity. Qed.

(* every Object.Is name the loader accepts has a predicate in makeObjectIsFilter (go2coq filterenums) *)
Lemma enum_dispatch_ok : enum_dispatch_okb gen_object_is_accepted gen_object_is_dispatch = true.
Proof. vm_compute. reflexivity. Qed.

Lemma object_is_call_total n : In n gen_object_is_accepted -> enum_call gen_object_is_dispatch n = Ok tt.
Proof. exact (enum_call_total _ _ enum_dispatch_ok n). Qed.
