(* Property C14 -- theorems only (proved in RG.Types.XIdentical over the model `identical_x` / `implements_x`,
   which every run executes against internal/xtypes on the harness' type pools). *)
From Coq Require Import List ZArith NArith Bool String.
From RG.Types Require Import GType XIdentical.
From RGW Require Import Gen_XTypes Inst_XTypes.
Import ListNotations.
Local Open Scope string_scope.

(* the specification is an equivalence relation on all type terms *)
Theorem C14_x_spec_equivalence :
  (forall a, x_spec a a) /\ (forall a b, x_spec a b -> x_spec b a) /\ (forall a b c, x_spec a b -> x_spec b c -> x_spec a c).
Proof. exact (conj x_spec_refl (conj x_spec_sym x_spec_trans)). Qed.
Print Assumptions C14_x_spec_equivalence.

(* ... and it is Go-specification identity after forgetting which type-check a type came from *)
Theorem C14_x_spec_is_erased_identity : forall a b, x_spec a b <-> go_identical (erase a) (erase b).
Proof. exact x_spec_is_erased_go_identical. Qed.
Print Assumptions C14_x_spec_is_erased_identity.

(* never relates a type to anything but its counterpart: all well-formed types, any universes, type parameters included *)
Theorem C14_identical_relates_only_counterparts :
  forall x y, wf x = true -> wf y = true -> identical_x x y = true -> x_spec x y.
Proof. exact identical_x_sound. Qed.
Print Assumptions C14_identical_relates_only_counterparts.

(* relates every counterpart (x free of type parameters; see the finding below for the excluded class) *)
Theorem C14_identical_x_is_spec :
  forall x y, wf x = true -> wf y = true -> tpfree x = true -> (identical_x x y = true <-> x_spec x y).
Proof. exact identical_x_is_spec. Qed.
Print Assumptions C14_identical_x_is_spec.

(* inside one universe it is exactly Go identity, type parameters included *)
Theorem C14_same_universe_agrees :
  forall u x y, wf x = true -> wf y = true -> in_univ u x = true -> in_univ u y = true ->
  identical_x x y = go_identicalb x y.
Proof. exact same_universe_agrees. Qed.
Print Assumptions C14_same_universe_agrees.

Theorem C14_identical_x_equivalence :
  (forall u x, wf x = true -> in_univ u x = true -> identical_x x x = true) /\
  (forall x y, wf x = true -> wf y = true -> tpfree y = true -> identical_x x y = true -> identical_x y x = true) /\
  (forall x y z, wf x = true -> wf y = true -> wf z = true -> tpfree x = true ->
     identical_x x y = true -> identical_x y z = true -> identical_x x z = true).
Proof. exact (conj identical_x_refl_same (conj identical_x_sym identical_x_trans)). Qed.
Print Assumptions C14_identical_x_equivalence.

(* Implements = "every interface method is in the method set with a spec-identical signature", given that
   go/types' LookupFieldOrMethod finds exactly the method set (section hypotheses of XIdentical.ImplementsSpec) *)
Theorem C14_implements_x_is_spec :
  forall (mset : string -> option gtype) (lookup : string -> lookup_res) (v_is_iface : bool),
  (forall id s, lookup id = LFunc s <-> mset id = Some s) ->
  (v_is_iface = true -> forall id t, lookup id <> LVar t) ->
  (forall id s, mset id = Some s -> wf s = true /\ tpfree s = true) ->
  forall iface, (forall id sig, In (id, sig) iface -> wf sig = true) ->
  (implements_x v_is_iface lookup iface = true <-> implements_spec mset iface).
Proof. exact implements_x_is_spec. Qed.
Print Assumptions C14_implements_x_is_spec.

(* ---- obligations over code regenerated from /repo on this run (go2coq xtypes) *)
(* the cycle test of the recursive-interface comparison (ifacePair.identical) is equality of unordered address pairs *)
Theorem C14_cycle_test_is_unordered_pair_equality :
  forall px py qx qy : N, gen_pair_identical px py qx qy = true <-> (px = qx /\ py = qy) \/ (px = qy /\ py = qx).
Proof. exact pair_identical_is_unordered_pair_equality. Qed.
Print Assumptions C14_cycle_test_is_unordered_pair_equality.

(* every identity / implements decision of the engine (Implements / IdenticalTo / HasMethod filters, the dsl/types natives
   of custom filters, typematch) goes through internal/xtypes, none through the pointer-based go/types relations *)
Theorem C14_relations_route_through_xtypes :
  forallb site_present expected_sites = true /\ forallb site_clean gen_relation_sites = true /\
  gen_pair_uses = 1%nat /\ gen_pair_pushes = 1%nat.
Proof. exact (conj relation_sites_route_to_xtypes (conj no_go_types_relation_in_engine pair_stack_used_once)). Qed.
Print Assumptions C14_relations_route_through_xtypes.

(* every case of typeIdentical reads exactly the attributes type identity is defined on for that constructor: an interface's
   method set (not its embedded interfaces / explicit methods), a named type's declaration and type arguments (not its underlying
   type), direction, tags, variadicity ... -- nothing is dropped and nothing about the spelling is consulted *)
Theorem C14_identity_reads_the_identity_attributes :
  forallb case_ok gen_case_reads = true /\
  forallb (fun e => existsb (fun c => String.eqb (fst c) (fst e)) gen_case_reads) reads_spec = true.
Proof. exact case_reads_are_the_identity_attributes. Qed.
Print Assumptions C14_identity_reads_the_identity_attributes.

(* the verdict of every relation filter / dsl native is the xtypes relation of the types go/types RECORDED for the captures
   (typeofNode of the capture's node = types.Unalias of Types.TypeOf) and of what the filter was built with -- nothing is applied
   in between (no types.Default, no extra Underlying(), no second lookup) *)
Theorem C14_filters_relate_the_recorded_types :
  rows_of "makeTypesIdenticalFilter" "xtypes.Identical" = [[recorded (capture "lhsVarname"); recorded (capture "rhsVarname")]] /\
  rows_of "makeTypeImplementsFilter" "xtypes.Implements" = [[recorded "x"; "iface"]; [recorded (capture_expr "varname"); "iface"]] /\
  rows_of "makeTypeHasMethodFilter" "typeHasMethod" = [[recorded (capture "varname"); "fn"]] /\
  rows_of "makeTypeIsFilter" "Pattern.MatchIdentical" =
    [["params.typematchState"; recorded "x" ++ ".Underlying()"]; ["params.typematchState"; recorded (capture "varname") ++ ".Underlying()"];
     ["params.typematchState"; recorded "x"]; ["params.typematchState"; recorded (capture "varname")]] /\
  rows_of "dslTypesPackage.Implements" "xtypes.Implements" = [["pop2:stack.Pop().(types.Type)"; "pop1:stack.Pop().(*types.Interface)"]] /\
  rows_of "dslTypesPackage.Identical" "xtypes.Identical" = [["pop2:stack.Pop().(types.Type)"; "pop1:stack.Pop().(types.Type)"]] /\
  sources_of "filterParams.typeofNode" = ["types.Unalias(params.ctx.Types.TypeOf(<e: assigned more than once>))"; "invalidType"].
Proof.
  exact (conj identical_to_relates_the_recorded_types (conj implements_relates_the_recorded_type_and_the_loaded_interface
          (conj (proj1 has_method_asks_the_recorded_type) (conj type_is_matches_the_recorded_type
          (conj (proj1 natives_relate_the_two_popped_values) (conj (proj1 (proj2 natives_relate_the_two_popped_values))
          typeof_node_is_the_recorded_type)))))).
Qed.
Print Assumptions C14_filters_relate_the_recorded_types.

(* a fully-qualified name is looked up in the package whose import path is EXACTLY the text before its last dot: among the
   dependencies of the analysed package by path equality, else through the importer with that path *)
Theorem C14_fqn_lookup_is_by_exact_path :
  rows_of "engineState.FindType" "lookupType" =
    [["findDependency(currentPkg, " ++ fqn_path ++ ")"; fqn_path; fqn_name]; ["importer.Import(" ++ fqn_path ++ ")"; fqn_path; fqn_name]] /\
  sources_of "findDependency:if" =
    ["pkg.Path() == path"; "findDependency(imported, path) != nil && findDependency(imported, path).Complete()"].
Proof. exact (conj (proj1 (proj2 find_type_resolves_by_exact_path)) (proj2 (proj2 (proj2 (proj2 find_type_resolves_by_exact_path))))). Qed.
Print Assumptions C14_fqn_lookup_is_by_exact_path.

(* recorded finding (known_findings.d/C14.json: tparam-cross-universe): completeness fails for type parameters *)
Theorem C14_tparam_cross_universe_refuted :
  exists a b, wf a = true /\ wf b = true /\ x_spec a b /\ identical_x a b = false.
Proof.
  exists (T HSlice [T (HTypeParam 1 "T#0@p.go:3:10") []]), (T HSlice [T (HTypeParam 2 "T#0@p.go:3:10") []]).
  repeat split; reflexivity.
Qed.

(* ---- non-vacuity: the hypotheses are met by concrete, non-trivial terms, and the relation separates what it must *)
Definition tmplA := T (HNamed 1 "text/template" "Template") [].
Definition tmplA2 := T (HNamed 2 "text/template" "Template") [].
Definition tmplB := T (HNamed 1 "html/template" "Template") [].
Definition lst (u : N) (a : gtype) := T (HNamed u "example.com/gen" "L") [a].
Definition tint := T (HBasic 2) [].
Definition tstring := T (HBasic 17) [].
Definition aliasA := T (HAlias 1 "p" "A") [tint].
Definition sig1 := T (HSig false) [T HTuple [T HPointer [tmplA]; aliasA]; T HTuple [lst 1 tint]].
Definition sig2 := T (HSig false) [T HTuple [T HPointer [tmplA2]; tint]; T HTuple [lst 2 aliasA]].

Example c14_counterparts_related :
  wf sig1 = true /\ wf sig2 = true /\ tpfree sig1 = true /\ identical_x sig1 sig2 = true /\ identical_x sig2 sig1 = true.
Proof. vm_compute. repeat split; reflexivity. Qed.
Example c14_same_name_other_package_unrelated : identical_x tmplA tmplB = false /\ identical_x tmplA2 tmplB = false.
Proof. vm_compute. split; reflexivity. Qed.
Example c14_instantiations_unrelated : identical_x (lst 1 tint) (lst 1 tstring) = false /\ identical_x (lst 1 tint) (lst 2 aliasA) = true.
Proof. vm_compute. split; reflexivity. Qed.
Example c14_alias_both_sides : identical_x aliasA tint = true /\ identical_x tint aliasA = true.
Proof. vm_compute. split; reflexivity. Qed.
Example c14_same_universe : in_univ 1 sig1 = true /\ in_univ 1 tmplB = true /\ go_identicalb tmplA tmplB = false.
Proof. vm_compute. repeat split; reflexivity. Qed.
