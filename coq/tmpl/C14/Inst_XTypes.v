(* C14: obligations about code REGENERATED from /repo on this run (Gen_XTypes.v, go2coq xtypes). *)
From Coq Require Import List NArith Bool String Lia.
From RGW Require Import Gen_XTypes.
Import ListNotations.
Local Open Scope string_scope.

(* the cycle test of the recursive-interface comparison: "the same pair of interfaces was compared before",
   as an UNORDERED pair of addresses -- nothing weaker (it would cut comparisons that are not cycles and
   declare different interfaces identical), nothing stronger (it would not terminate on some cycles) *)
Lemma pair_identical_is_unordered_pair_equality :
  forall px py qx qy : N, gen_pair_identical px py qx qy = true <-> (px = qx /\ py = qy) \/ (px = qy /\ py = qx).
Proof.
  intros. unfold gen_pair_identical.
  repeat rewrite ?orb_true_iff, ?andb_true_iff, ?negb_true_iff, ?N.eqb_eq, ?N.eqb_neq. intuition congruence.
Qed.

(* it is consulted exactly once, against a stack entry built from the two interfaces being compared *)
Lemma pair_stack_used_once : gen_pair_uses = 1%nat /\ gen_pair_pushes = 1%nat.
Proof. split; reflexivity. Qed.

(* no function of the engine compares types with a go/types relation (Identical, Implements, AssertableTo, ...):
   those are pointer based and cannot relate a type to its counterpart from another type-check *)
Definition site_clean (s : string * string * list string) : bool :=
  forallb (fun c => negb (String.prefix "types." c)) (snd s).

Lemma no_go_types_relation_in_engine : forallb site_clean gen_relation_sites = true.
Proof. vm_compute. reflexivity. Qed.

(* every place named by the property reaches the xtypes relation it is supposed to *)
Definition expected_sites : list (string * string * string) := [
  ("internal/xtypes/xtypes.go", "Implements", "xtypes.Identical");
  ("internal/xtypes/xtypes.go", "Identical", "xtypes.typeIdentical");
  ("ruleguard/filters.go", "makeTypeImplementsFilter", "xtypes.Implements");
  ("ruleguard/filters.go", "makeTypesIdenticalFilter", "xtypes.Identical");
  ("ruleguard/filters.go", "typeHasMethod", "xtypes.Identical");
  ("ruleguard/libdsl.go", "dslTypesPackage.Implements", "xtypes.Implements");
  ("ruleguard/libdsl.go", "dslTypesPackage.Identical", "xtypes.Identical");
  ("ruleguard/typematch/typematch.go", "Pattern.matchIdentical", "xtypes.Identical")
].

Definition site_present (e : string * string * string) : bool :=
  existsb (fun s => String.eqb (fst (fst s)) (fst (fst e)) && String.eqb (snd (fst s)) (snd (fst e))
                    && existsb (String.eqb (snd e)) (snd s)) gen_relation_sites.

Lemma relation_sites_route_to_xtypes : forallb site_present expected_sites = true.
Proof. vm_compute. reflexivity. Qed.

(* ---- what each case of typeIdentical reads of its operands. Type identity is defined per type constructor on a fixed set of
   attributes (Go spec, "Type identity"): an interface by its method set (never by how it is spelled: embedded interfaces, explicit
   methods), a named type by its declaration and type arguments (never by its underlying type), a channel by direction and element,
   a struct by fields and tags, a signature by parameters, results and variadicity. Every case reads all the attributes it has to
   (`required`) and nothing beyond them and the listed harmless refinements (`allowed`). *)
Definition reads_spec : list (string * (list string * list string)) := [
  ("Basic", (["Kind"], []));
  ("Array", (["Elem"; "Len"], []));
  ("Slice", (["Elem"], []));
  ("Struct", (["Field"; "NumFields"; "Tag"], []));
  ("Pointer", (["Elem"], []));
  ("Tuple", (["At"; "Len"], []));
  ("Signature", (["Params"; "Results"; "Variadic"], ["TypeParams"]));
  ("Interface", (["Method"; "NumMethods"], ["IsComparable"; "IsMethodSet"; "Empty"]));
  ("Map", (["Elem"; "Key"], []));
  ("Chan", (["Dir"; "Elem"], []));
  ("Named", (["Obj"; "TypeArgs"], ["Origin"]))
].

Definition mem (x : string) (l : list string) : bool := existsb (String.eqb x) l.

Definition case_ok (c : string * list string) : bool :=
  match find (fun e => String.eqb (fst e) (fst c)) reads_spec with
  | Some (_, (required, allowed)) =>
    forallb (fun r => mem r (snd c)) required && forallb (fun r => mem r required || mem r allowed) (snd c)
  | None => false
  end.

Lemma case_reads_are_the_identity_attributes :
  forallb case_ok gen_case_reads = true /\
  forallb (fun e => existsb (fun c => String.eqb (fst c) (fst e)) gen_case_reads) reads_spec = true.
Proof. split; vm_compute; reflexivity. Qed.

(* ---- what the relation call sites pass to the relations (gen_relation_args: every argument with its local definitions
   substituted). The verdict of a relation filter is the xtypes relation OF THE TYPES go/types RECORDED for the captures
   (`params.typeofNode(<the capture's node>)`, which is types.Unalias of Types.TypeOf and nothing else) and of the interface /
   method / pattern the filter was built with at load time: nothing is applied in between -- no types.Default, no Underlying()
   except where the DSL says Underlying(), no second lookup. The same for the dsl/types natives: they relate exactly the two
   values popped from the stack, in the order they were pushed; ctx.Type / Var.Type push the recorded type of the capture. *)
Definition rows_of (fn callee : string) : list (list string) :=
  map snd (filter (fun r => String.eqb (snd (fst (fst r))) fn && String.eqb (snd (fst r)) callee) gen_relation_args).

Definition recorded (node : string) : string := "params.typeofNode(" ++ node ++ ")".
Definition capture (v : string) : string := "params.subNode(" ++ v ++ ")".
Definition capture_expr (v : string) : string := "params.subExpr(" ++ v ++ ")".

Lemma identical_to_relates_the_recorded_types :
  rows_of "makeTypesIdenticalFilter" "xtypes.Identical" = [[recorded (capture "lhsVarname"); recorded (capture "rhsVarname")]].
Proof. vm_compute. reflexivity. Qed.

Lemma implements_relates_the_recorded_type_and_the_loaded_interface :
  rows_of "makeTypeImplementsFilter" "xtypes.Implements" = [[recorded "x"; "iface"]; [recorded (capture_expr "varname"); "iface"]].
Proof. vm_compute. reflexivity. Qed.

Lemma has_method_asks_the_recorded_type :
  rows_of "makeTypeHasMethodFilter" "typeHasMethod" = [[recorded (capture "varname"); "fn"]] /\
  rows_of "typeHasMethod" "types.LookupFieldOrMethod" = [["typ"; "true"; "fn.Pkg()"; "fn.Name()"]] /\
  rows_of "typeHasMethod" "xtypes.Identical" =
    [["fn.Type()"; "types.LookupFieldOrMethod(typ, true, fn.Pkg(), fn.Name()).(*types.Func).Type()"]].
Proof. repeat split; vm_compute; reflexivity. Qed.

Lemma type_is_matches_the_recorded_type :
  rows_of "makeTypeIsFilter" "Pattern.MatchIdentical" =
    [["params.typematchState"; recorded "x" ++ ".Underlying()"]; ["params.typematchState"; recorded (capture "varname") ++ ".Underlying()"];
     ["params.typematchState"; recorded "x"]; ["params.typematchState"; recorded (capture "varname")]].
Proof. vm_compute. reflexivity. Qed.

Lemma natives_relate_the_two_popped_values :
  rows_of "dslTypesPackage.Implements" "xtypes.Implements" = [["pop2:stack.Pop().(types.Type)"; "pop1:stack.Pop().(*types.Interface)"]] /\
  rows_of "dslTypesPackage.Identical" "xtypes.Identical" = [["pop2:stack.Pop().(types.Type)"; "pop1:stack.Pop().(types.Type)"]] /\
  rows_of "dslTypesPackage.Implements" "stack.Push" =
    [["xtypes.Implements(pop2:stack.Pop().(types.Type), pop1:stack.Pop().(*types.Interface))"]] /\
  rows_of "dslTypesPackage.Identical" "stack.Push" = [["xtypes.Identical(pop2:stack.Pop().(types.Type), pop1:stack.Pop().(types.Type))"]] /\
  rows_of "dslVarFilterContext.Type" "stack.Push" =
    [["pop1:stack.Pop().(*filterParams).typeofNode(pop1:stack.Pop().(*filterParams).subExpr(pop1:stack.Pop().(*filterParams).varname))"]] /\
  rows_of "dslDoVar.Type" "stack.Push" =
    [["pop1:stack.Pop().(*dslDoVarRepr).params.typeofNode(pop1:stack.Pop().(*dslDoVarRepr).params.subNode(pop1:stack.Pop().(*dslDoVarRepr).name))"]].
Proof. repeat split; vm_compute; reflexivity. Qed.

Definition sources_of (fn : string) : list string :=
  map snd (filter (fun r => String.eqb (fst r) fn) gen_operand_sources).

Lemma typeof_node_is_the_recorded_type :
  sources_of "filterParams.typeofNode" = ["types.Unalias(params.ctx.Types.TypeOf(<e: assigned more than once>))"; "invalidType"].
Proof. vm_compute. reflexivity. Qed.

(* ---- which package a fully-qualified name is looked up in (FindType: Implements / HasMethod arguments at load time,
   ctx.GetType / ctx.GetInterface at run time): the text before the last dot is the import path; the object comes from the
   dependency of the current package whose path is EQUAL to it (findDependency accepts `pkg.Path() == path` and nothing else),
   else from what the importer returns for exactly that path *)
Definition fqn_path : string := "fqn[:strings.LastIndexByte(fqn, '.')]".
Definition fqn_name : string := "fqn[strings.LastIndexByte(fqn, '.') + 1:]".

Lemma find_type_resolves_by_exact_path :
  rows_of "engineState.FindType" "findDependency" = [["currentPkg"; fqn_path]] /\
  rows_of "engineState.FindType" "lookupType" =
    [["findDependency(currentPkg, " ++ fqn_path ++ ")"; fqn_path; fqn_name]; ["importer.Import(" ++ fqn_path ++ ")"; fqn_path; fqn_name]] /\
  rows_of "findDependency" "findDependency" = [["imported"; "path"]] /\
  sources_of "findDependency" = ["pkg"; "findDependency(imported, path)"; "nil"] /\
  sources_of "findDependency:if" =
    ["pkg.Path() == path"; "findDependency(imported, path) != nil && findDependency(imported, path).Complete()"].
Proof. repeat split; vm_compute; reflexivity. Qed.
