(* C14: obligations about code REGENERATED from /repo on this run (Gen_XTypes.v, go2coq xtypes). *)
From Coq Require Import List NArith Bool String Lia.
From RGW Require Import Gen_XTypes.
Import ListNotations.
Local Open Scope string_scope.

(* the cycle test of the recursive-interface comparison: "the same pair of interfaces was compared before",
   as an UNORDERED pair of addresses -- nothing weaker (it would cut comparisons that are not cycles and
   declare different interfaces identical), nothing stronger (it would not terminate on some cycles) *)
Lemma pair_identical_is_unordered_pair_equality :
  forall px py qx qy : N, gen_pair_identical px py qx qy = true <-> (px = qx /\ py = qy) \/ (px = qy /\ py = qx).
Proof.
  intros. unfold gen_pair_identical.
  repeat rewrite ?orb_true_iff, ?andb_true_iff, ?negb_true_iff, ?N.eqb_eq, ?N.eqb_neq. intuition congruence.
Qed.

(* it is consulted exactly once, against a stack entry built from the two interfaces being compared *)
Lemma pair_stack_used_once : gen_pair_uses = 1%nat /\ gen_pair_pushes = 1%nat.
Proof. split; reflexivity. Qed.

(* no function of the engine compares types with a go/types relation (Identical, Implements, AssertableTo, ...):
   those are pointer based and cannot relate a type to its counterpart from another type-check *)
Definition site_clean (s : string * string * list string) : bool :=
  forallb (fun c => negb (String.prefix "types." c)) (snd s).

Lemma no_go_types_relation_in_engine : forallb site_clean gen_relation_sites = true.
Proof. vm_compute. reflexivity. Qed.

(* every place named by the property reaches the xtypes relation it is supposed to *)
Definition expected_sites : list (string * string * string) := [
  ("internal/xtypes/xtypes.go", "Implements", "xtypes.Identical");
  ("internal/xtypes/xtypes.go", "Identical", "xtypes.typeIdentical");
  ("ruleguard/filters.go", "makeTypeImplementsFilter", "xtypes.Implements");
  ("ruleguard/filters.go", "makeTypesIdenticalFilter", "xtypes.Identical");
  ("ruleguard/filters.go", "typeHasMethod", "xtypes.Identical");
  ("ruleguard/libdsl.go", "dslTypesPackage.Implements", "xtypes.Implements");
  ("ruleguard/libdsl.go", "dslTypesPackage.Identical", "xtypes.Identical");
  ("ruleguard/typematch/typematch.go", "Pattern.matchIdentical", "xtypes.Identical")
].

Definition site_present (e : string * string * string) : bool :=
  existsb (fun s => String.eqb (fst (fst s)) (fst (fst e)) && String.eqb (snd (fst s)) (snd (fst e))
                    && existsb (String.eqb (snd e)) (snd s)) gen_relation_sites.

Lemma relation_sites_route_to_xtypes : forallb site_present expected_sites = true.
Proof. vm_compute. reflexivity. Qed.

(* ---- what each case of typeIdentical reads of its operands. Type identity is defined per type constructor on a fixed set of
   attributes (Go spec, "Type identity"): an interface by its method set (never by how it is spelled: embedded interfaces, explicit
   methods), a named type by its declaration and type arguments (never by its underlying type), a channel by direction and element,
   a struct by fields and tags, a signature by parameters, results and variadicity. Every case reads all the attributes it has to
   (`required`) and nothing beyond them and the listed harmless refinements (`allowed`). *)
Definition reads_spec : list (string * (list string * list string)) := [
  ("Basic", (["Kind"], []));
  ("Array", (["Elem"; "Len"], []));
  ("Slice", (["Elem"], []));
  ("Struct", (["Field"; "NumFields"; "Tag"], []));
  ("Pointer", (["Elem"], []));
  ("Tuple", (["At"; "Len"], []));
  ("Signature", (["Params"; "Results"; "Variadic"], ["TypeParams"]));
  ("Interface", (["Method"; "NumMethods"], ["IsComparable"; "IsMethodSet"; "Empty"]));
  ("Map", (["Elem"; "Key"], []));
  ("Chan", (["Dir"; "Elem"], []));
  ("Named", (["Obj"; "TypeArgs"], ["Origin"]))
].

Definition mem (x : string) (l : list string) : bool := existsb (String.eqb x) l.

Definition case_ok (c : string * list string) : bool :=
  match find (fun e => String.eqb (fst e) (fst c)) reads_spec with
  | Some (_, (required, allowed)) =>
    forallb (fun r => mem r (snd c)) required && forallb (fun r => mem r required || mem r allowed) (snd c)
  | None => false
  end.

Lemma case_reads_are_the_identity_attributes :
  forallb case_ok gen_case_reads = true /\
  forallb (fun e => existsb (fun c => String.eqb (fst c) (fst e)) gen_case_reads) reads_spec = true.
Proof. split; vm_compute; reflexivity. Qed.
