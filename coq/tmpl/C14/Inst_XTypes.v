(* C14: obligations about code REGENERATED from /repo on this run (Gen_XTypes.v, go2coq xtypes). *)
From Coq Require Import List NArith Bool String Lia.
From RGW Require Import Gen_XTypes.
Import ListNotations.
Local Open Scope string_scope.

(* the cycle test of the recursive-interface comparison: "the same pair of interfaces was compared before",
   as an UNORDERED pair of addresses -- nothing weaker (it would cut comparisons that are not cycles and
   declare different interfaces identical), nothing stronger (it would not terminate on some cycles) *)
Lemma pair_identical_is_unordered_pair_equality :
  forall px py qx qy : N, gen_pair_identical px py qx qy = true <-> (px = qx /\ py = qy) \/ (px = qy /\ py = qx).
Proof.
  intros. unfold gen_pair_identical.
  repeat rewrite ?orb_true_iff, ?andb_true_iff, ?negb_true_iff, ?N.eqb_eq, ?N.eqb_neq. intuition congruence.
Qed.

(* it is consulted exactly once, against a stack entry built from the two interfaces being compared *)
Lemma pair_stack_used_once : gen_pair_uses = 1%nat /\ gen_pair_pushes = 1%nat.
Proof. split; reflexivity. Qed.

(* no function of the engine compares types with a go/types relation (Identical, Implements, AssertableTo, ...):
   those are pointer based and cannot relate a type to its counterpart from another type-check *)
Definition site_clean (s : string * string * list string) : bool :=
  forallb (fun c => negb (String.prefix "types." c)) (snd s).

Lemma no_go_types_relation_in_engine : forallb site_clean gen_relation_sites = true.
Proof. vm_compute. reflexivity. Qed.

(* every place named by the property reaches the xtypes relation it is supposed to *)
Definition expected_sites : list (string * string * string) := [
  ("internal/xtypes/xtypes.go", "Implements", "xtypes.Identical");
  ("internal/xtypes/xtypes.go", "Identical", "xtypes.typeIdentical");
  ("ruleguard/filters.go", "makeTypeImplementsFilter", "xtypes.Implements");
  ("ruleguard/filters.go", "makeTypesIdenticalFilter", "xtypes.Identical");
  ("ruleguard/filters.go", "typeHasMethod", "xtypes.Identical");
  ("ruleguard/libdsl.go", "dslTypesPackage.Implements", "xtypes.Implements");
  ("ruleguard/libdsl.go", "dslTypesPackage.Identical", "xtypes.Identical");
  ("ruleguard/typematch/typematch.go", "Pattern.matchIdentical", "xtypes.Identical")
].

Definition site_present (e : string * string * string) : bool :=
  existsb (fun s => String.eqb (fst (fst s)) (fst (fst e)) && String.eqb (snd (fst s)) (snd (fst e))
                    && existsb (String.eqb (snd e)) (snd s)) gen_relation_sites.

Lemma relation_sites_route_to_xtypes : forallb site_present expected_sites = true.
Proof. vm_compute. reflexivity. Qed.
