(* C14: obligations about the leaf decisions of internal/xtypes TRANSLATED from /repo on this run (Gen_XNamed.v, go2coq xnamed). *)
From Coq Require Import List ZArith NArith Bool String Lia.
From RG.Types Require Import GType XIdentical.
From RGW Require Import Gen_XNamed.
Import ListNotations.
Local Open Scope string_scope.

(* ---- sameTypeName: same name, and either both in the universe scope (no package) or both package-level declarations of
   packages with the same path. The pointer comparison of the two packages is only consulted when one of them is nil,
   where it says "both are". *)
Lemma same_type_name_spec : forall x_name y_name x_has_pkg y_has_pkg same_pkg x_local y_local x_path y_path,
  (x_has_pkg = false -> y_has_pkg = false -> same_pkg = true) ->
  (x_has_pkg <> y_has_pkg -> same_pkg = false) ->
  gen_same_type_name x_name y_name x_has_pkg y_has_pkg same_pkg x_local y_local x_path y_path =
  String.eqb x_name y_name &&
  (if x_has_pkg && y_has_pkg then negb x_local && negb y_local && String.eqb x_path y_path
   else negb x_has_pkg && negb y_has_pkg).
Proof.
  intros xn yn xh yh sp xl yl xp yp Hnil Hdiff. unfold gen_same_type_name.
  destruct (String.eqb xn yn); [|reflexivity]. cbn [negb andb].
  destruct xh, yh; cbn [negb orb andb].
  - destruct xl, yl; reflexivity.
  - apply Hdiff. discriminate.
  - apply Hdiff. discriminate.
  - apply Hnil; reflexivity.
Qed.

(* ---- the Named case: a named type, the same declaration (by pointer or by sameTypeName), equally many type arguments and
   ALL of them identical -- nothing is answered before the arguments have been compared *)
Lemma named_identical_spec : forall y_is_named same_obj same_type_name x_nargs y_nargs all_args,
  gen_named_identical y_is_named same_obj same_type_name x_nargs y_nargs all_args =
  y_is_named && (same_obj || same_type_name) && Z.eqb x_nargs y_nargs && all_args.
Proof.
  intros. unfold gen_named_identical.
  destruct y_is_named, same_obj, same_type_name, (Z.eqb x_nargs y_nargs), all_args; reflexivity.
Qed.

(* in particular two instantiations of one generic type (same declaration!) are identical only if their arguments are *)
Lemma same_declaration_does_not_suffice : forall n m,
  gen_named_identical true true true n m false = false.
Proof. intros. rewrite named_identical_spec. destruct (Z.eqb n m); reflexivity. Qed.

(* the model's Named case (head_x on two HNamed heads + all2 identical_x on the type arguments) is the translated clause with
   the translated sameTypeName, for package-level types of packages (has_pkg, not local), whatever their universes *)
Lemma model_named_case_is_translated : forall u p n xs v q m ys,
  identical_x (T (HNamed u p n) xs) (T (HNamed v q m) ys) =
  gen_named_identical true false
    (gen_same_type_name n m true true false false false p q)
    (Z.of_nat (List.length xs)) (Z.of_nat (List.length ys)) (all2 identical_x xs ys).
Proof.
  intros. rewrite named_identical_spec.
  rewrite same_type_name_spec by (intros; try discriminate; congruence).
  cbn [identical_x unalias_top head_x negb andb orb].
  destruct (String.eqb n m); [|reflexivity]. destruct (String.eqb p q); [|reflexivity]. cbn [andb].
  destruct (all2 identical_x xs ys) eqn:A; [|rewrite andb_false_r; reflexivity].
  apply all2_length in A. rewrite A, Z.eqb_refl. reflexivity.
Qed.

(* ---- sameID: same spelling, and exported or declared in packages with the same path (or both without a package) *)
Lemma same_id_spec : forall f_name g_name f_exported f_has_pkg g_has_pkg same_pkg f_path g_path,
  (f_has_pkg = false -> g_has_pkg = false -> same_pkg = true) ->
  (f_has_pkg <> g_has_pkg -> same_pkg = false) ->
  gen_same_id f_name g_name f_exported f_has_pkg g_has_pkg same_pkg f_path g_path =
  String.eqb g_name f_name &&
  (f_exported || (if g_has_pkg && f_has_pkg then String.eqb g_path f_path else negb g_has_pkg && negb f_has_pkg)).
Proof.
  intros fn gn fe fh gh sp fp gp Hnil Hdiff. unfold gen_same_id.
  destruct (String.eqb gn fn); [|reflexivity]. cbn [negb andb].
  destruct fe; [reflexivity|]. cbn [orb].
  destruct gh, fh; cbn [negb orb andb]; try reflexivity.
  - apply Hdiff. discriminate.
  - apply Hdiff. discriminate.
  - apply Hnil; reflexivity.
Qed.

(* the model's sameID on field headers (package path "" = no package) is the translated function *)
Lemma model_same_id_is_translated : forall f g,
  sameID f g =
  gen_same_id (fh_name f) (fh_name g) (is_exported (fh_name f))
    (negb (String.eqb (fh_pkg f) "")) (negb (String.eqb (fh_pkg g) ""))
    (String.eqb (fh_pkg f) "" && String.eqb (fh_pkg g) "") (fh_pkg f) (fh_pkg g).
Proof.
  intros f g. rewrite same_id_spec.
  - unfold sameID. destruct (String.eqb (fh_name g) (fh_name f)); [|reflexivity]. cbn [andb].
    destruct (is_exported (fh_name f)); [reflexivity|]. cbn [orb].
    destruct (String.eqb (fh_pkg g) "") eqn:Eg, (String.eqb (fh_pkg f) "") eqn:Ef; cbn [negb andb].
    + apply String.eqb_eq in Eg, Ef. rewrite Eg, Ef. reflexivity.
    + apply String.eqb_eq in Eg. rewrite Eg. rewrite String.eqb_sym. exact Ef.
    + apply String.eqb_eq in Ef. rewrite Ef. exact Eg.
    + reflexivity.
  - intros Hf Hg. apply negb_false_iff in Hf, Hg. rewrite Hf, Hg. reflexivity.
  - intros Hd. destruct (String.eqb (fh_pkg f) ""), (String.eqb (fh_pkg g) ""); cbn in *; try reflexivity; congruence.
Qed.
