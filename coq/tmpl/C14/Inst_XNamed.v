(* C14: obligations about the leaf decisions of internal/xtypes TRANSLATED from /repo on this run (Gen_XNamed.v, go2coq xnamed). *)
From Coq Require Import List ZArith NArith Bool String Lia.
From RG.Types Require Import GType XIdentical.
From RGW Require Import Gen_XNamed.
Import ListNotations.
Local Open Scope string_scope.

(* ---- sameTypeName: same name, and either both in the universe scope (no package) or both package-level declarations of
   packages with the same path. The pointer comparison of the two packages is only consulted when one of them is nil,
   where it says "both are". *)
Lemma same_type_name_spec : forall x_name y_name x_has_pkg y_has_pkg same_pkg x_local y_local x_path y_path,
  (x_has_pkg = false -> y_has_pkg = false -> same_pkg = true) ->
  (x_has_pkg <> y_has_pkg -> same_pkg = false) ->
  gen_same_type_name x_name y_name x_has_pkg y_has_pkg same_pkg x_local y_local x_path y_path =
  String.eqb x_name y_name &&
  (if x_has_pkg && y_has_pkg then negb x_local && negb y_local && String.eqb x_path y_path
   else negb x_has_pkg && negb y_has_pkg).
Proof.
  intros xn yn xh yh sp xl yl xp yp Hnil Hdiff. unfold gen_same_type_name.
  destruct (String.eqb xn yn); [|reflexivity]. cbn [negb andb].
  destruct xh, yh; cbn [negb orb andb].
  - destruct xl, yl; reflexivity.
  - apply Hdiff. discriminate.
  - apply Hdiff. discriminate.
  - apply Hnil; reflexivity.
Qed.

(* ---- the Named case: a named type, the same declaration (by pointer or by sameTypeName), equally many type arguments and
   ALL of them identical -- nothing is answered before the arguments have been compared *)
Lemma named_identical_spec : forall y_is_named same_obj same_type_name x_nargs y_nargs all_args,
  gen_named_identical y_is_named same_obj same_type_name x_nargs y_nargs all_args =
  y_is_named && (same_obj || same_type_name) && Z.eqb x_nargs y_nargs && all_args.
Proof.
  intros. unfold gen_named_identical.
  destruct y_is_named, same_obj, same_type_name, (Z.eqb x_nargs y_nargs), all_args; reflexivity.
Qed.

(* in particular two instantiations of one generic type (same declaration!) are identical only if their arguments are *)
Lemma same_declaration_does_not_suffice : forall n m,
  gen_named_identical true true true n m false = false.
Proof. intros. rewrite named_identical_spec. destruct (Z.eqb n m); reflexivity. Qed.

(* the model's Named case (head_x on two HNamed heads + all2 identical_x on the type arguments) is the translated clause with
   the translated sameTypeName, for package-level types of packages (has_pkg, not local), whatever their universes *)
Lemma model_named_case_is_translated : forall u p n xs v q m ys,
  identical_x (T (HNamed u p n) xs) (T (HNamed v q m) ys) =
  gen_named_identical true false
    (gen_same_type_name n m true true false false false p q)
    (Z.of_nat (List.length xs)) (Z.of_nat (List.length ys)) (all2 identical_x xs ys).
Proof.
  intros. rewrite named_identical_spec.
  rewrite same_type_name_spec by (intros; try discriminate; congruence).
  cbn [identical_x unalias_top head_x negb andb orb].
  destruct (String.eqb n m); [|reflexivity]. destruct (String.eqb p q); [|reflexivity]. cbn [andb].
  destruct (all2 identical_x xs ys) eqn:A; [|rewrite andb_false_r; reflexivity].
  apply all2_length in A. rewrite A, Z.eqb_refl. reflexivity.
Qed.

(* ---- sameID: same spelling, and exported or declared in packages with the same path (or both without a package) *)
Lemma same_id_spec : forall f_name g_name f_exported f_has_pkg g_has_pkg same_pkg f_path g_path,
  (f_has_pkg = false -> g_has_pkg = false -> same_pkg = true) ->
  (f_has_pkg <> g_has_pkg -> same_pkg = false) ->
  gen_same_id f_name g_name f_exported f_has_pkg g_has_pkg same_pkg f_path g_path =
  String.eqb g_name f_name &&
  (f_exported || (if g_has_pkg && f_has_pkg then String.eqb g_path f_path else negb g_has_pkg && negb f_has_pkg)).
Proof.
  intros fn gn fe fh gh sp fp gp Hnil Hdiff. unfold gen_same_id.
  destruct (String.eqb gn fn); [|reflexivity]. cbn [negb andb].
  destruct fe; [reflexivity|]. cbn [orb].
  destruct gh, fh; cbn [negb orb andb]; try reflexivity.
  - apply Hdiff. discriminate.
  - apply Hdiff. discriminate.
  - apply Hnil; reflexivity.
Qed.

(* the model's sameID on field headers (package path "" = no package) is the translated function *)
Lemma model_same_id_is_translated : forall f g,
  sameID f g =
  gen_same_id (fh_name f) (fh_name g) (is_exported (fh_name f))
    (negb (String.eqb (fh_pkg f) "")) (negb (String.eqb (fh_pkg g) ""))
    (String.eqb (fh_pkg f) "" && String.eqb (fh_pkg g) "") (fh_pkg f) (fh_pkg g).
Proof.
  intros f g. rewrite same_id_spec.
  - unfold sameID. destruct (String.eqb (fh_name g) (fh_name f)); [|reflexivity]. cbn [andb].
    destruct (is_exported (fh_name f)); [reflexivity|]. cbn [orb].
    destruct (String.eqb (fh_pkg g) "") eqn:Eg, (String.eqb (fh_pkg f) "") eqn:Ef; cbn [negb andb].
    + apply String.eqb_eq in Eg, Ef. rewrite Eg, Ef. reflexivity.
    + apply String.eqb_eq in Eg. rewrite Eg. rewrite String.eqb_sym. exact Ef.
    + apply String.eqb_eq in Ef. rewrite Ef. exact Eg.
    + reflexivity.
  - intros Hf Hg. apply negb_false_iff in Hf, Hg. rewrite Hf, Hg. reflexivity.
  - intros Hd. destruct (String.eqb (fh_pkg f) ""), (String.eqb (fh_pkg g) ""); cbn in *; try reflexivity; congruence.
Qed.

(* ---- the one-level cases: the same constructor on both sides, equal scalar attributes, identical components *)
Lemma basic_identical_spec : forall y_is_basic x_kind y_kind,
  gen_basic_identical y_is_basic x_kind y_kind = y_is_basic && Z.eqb x_kind y_kind.
Proof. intros. unfold gen_basic_identical. destruct y_is_basic; reflexivity. Qed.

(* arrays: a length is unknown exactly when it is NEGATIVE (the type checker's mark for a length it could not evaluate);
   0 is a length like any other *)
Lemma array_identical_spec : forall y_is_array x_len y_len elem,
  gen_array_identical y_is_array x_len y_len elem =
  y_is_array && ((x_len <? 0)%Z || (y_len <? 0)%Z || Z.eqb x_len y_len) && elem.
Proof.
  intros. unfold gen_array_identical.
  destruct y_is_array, elem, (x_len <? 0)%Z, (y_len <? 0)%Z, (Z.eqb x_len y_len); reflexivity.
Qed.

Lemma known_lengths_must_be_equal : forall n m elem, (0 <= n)%Z -> (0 <= m)%Z ->
  gen_array_identical true n m elem = Z.eqb n m && elem.
Proof.
  intros n m e Hn Hm. rewrite array_identical_spec.
  apply Z.ltb_ge in Hn, Hm. rewrite Hn, Hm. reflexivity.
Qed.

Lemma slice_identical_spec : forall y_is_slice elem, gen_slice_identical y_is_slice elem = y_is_slice && elem.
Proof. intros. unfold gen_slice_identical. destruct y_is_slice; reflexivity. Qed.

Lemma pointer_identical_spec : forall y_is_pointer elem, gen_pointer_identical y_is_pointer elem = y_is_pointer && elem.
Proof. intros. unfold gen_pointer_identical. destruct y_is_pointer; reflexivity. Qed.

Lemma map_identical_spec : forall y_is_map key elem, gen_map_identical y_is_map key elem = y_is_map && key && elem.
Proof. intros. unfold gen_map_identical. destruct y_is_map, key; reflexivity. Qed.

Lemma chan_identical_spec : forall y_is_chan x_dir y_dir elem,
  gen_chan_identical y_is_chan x_dir y_dir elem = y_is_chan && Z.eqb x_dir y_dir && elem.
Proof. intros. unfold gen_chan_identical. destruct y_is_chan; reflexivity. Qed.

Lemma signature_identical_spec : forall y_is_signature x_variadic y_variadic params results,
  gen_signature_identical y_is_signature x_variadic y_variadic params results =
  y_is_signature && Bool.eqb x_variadic y_variadic && params && results.
Proof. intros. unfold gen_signature_identical. destruct y_is_signature; reflexivity. Qed.

Lemma Z_of_N_eqb a b : Z.eqb (Z.of_N a) (Z.of_N b) = N.eqb a b.
Proof.
  destruct (N.eqb_spec a b) as [->|Hne]; [apply Z.eqb_refl|].
  apply Z.eqb_neq. intro H. apply Hne. apply N2Z.inj. exact H.
Qed.

(* the model's cases (head_x on two equal constructors + all2 identical_x on the components) are the translated clauses *)
Lemma model_one_level_cases_are_translated : forall a b c d,
  (forall k l, identical_x (T (HBasic k) []) (T (HBasic l) []) = gen_basic_identical true (Z.of_N k) (Z.of_N l)) /\
  (forall n m, identical_x (T (HArray n) [a]) (T (HArray m) [b]) = gen_array_identical true n m (identical_x a b)) /\
  identical_x (T HSlice [a]) (T HSlice [b]) = gen_slice_identical true (identical_x a b) /\
  identical_x (T HPointer [a]) (T HPointer [b]) = gen_pointer_identical true (identical_x a b) /\
  identical_x (T HMap [a; c]) (T HMap [b; d]) = gen_map_identical true (identical_x a b) (identical_x c d) /\
  (forall e f, identical_x (T (HChan e) [a]) (T (HChan f) [b]) = gen_chan_identical true (Z.of_N e) (Z.of_N f) (identical_x a b)) /\
  (forall v w, identical_x (T (HSig v) [a; c]) (T (HSig w) [b; d]) =
               gen_signature_identical true v w (identical_x a b) (identical_x c d)).
Proof.
  intros a b c d.
  repeat split; intros;
    rewrite ?basic_identical_spec, ?array_identical_spec, ?slice_identical_spec, ?pointer_identical_spec, ?map_identical_spec,
            ?chan_identical_spec, ?signature_identical_spec, ?Z_of_N_eqb;
    cbn [identical_x unalias_top head_x all2 andb]; rewrite ?andb_true_r, ?andb_assoc; reflexivity.
Qed.

(* a different constructor on the other side is never identical *)
Lemma other_constructor_is_different : forall n m e x y v w p r k l d f,
  gen_basic_identical false k l = false /\ gen_array_identical false n m e = false /\ gen_slice_identical false e = false /\
  gen_pointer_identical false e = false /\ gen_map_identical false x y = false /\ gen_chan_identical false d f e = false /\
  gen_signature_identical false v w p r = false.
Proof. intros. repeat split. Qed.

Lemma one_level_cases_spec :
  (forall b k l, gen_basic_identical b k l = b && Z.eqb k l) /\
  (forall b e, gen_slice_identical b e = b && e) /\ (forall b e, gen_pointer_identical b e = b && e) /\
  (forall b k e, gen_map_identical b k e = b && k && e) /\
  (forall b d f e, gen_chan_identical b d f e = b && Z.eqb d f && e) /\
  (forall b v w p r, gen_signature_identical b v w p r = b && Bool.eqb v w && p && r).
Proof.
  repeat apply conj; intros.
  - apply basic_identical_spec.
  - apply slice_identical_spec.
  - apply pointer_identical_spec.
  - apply map_identical_spec.
  - apply chan_identical_spec.
  - apply signature_identical_spec.
Qed.
