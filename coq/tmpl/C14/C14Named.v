(* Property C14 -- theorems about the leaf decisions of internal/xtypes TRANSLATED from source on this run (proved in
   Inst_XNamed.v over Gen_XNamed.v, go2coq xnamed). Theorems only. *)
From Coq Require Import List ZArith NArith Bool String.
From RG.Types Require Import GType XIdentical.
From RGW Require Import Gen_XNamed Inst_XNamed.
Import ListNotations.
Local Open Scope string_scope.

(* typeIdentical's `case *types.Named:`: named on both sides, the same declaration (pointer or sameTypeName), equally many
   type arguments, ALL of them identical *)
Theorem C14_named_case_of_the_source : forall y_is_named same_obj same_type_name x_nargs y_nargs all_args,
  gen_named_identical y_is_named same_obj same_type_name x_nargs y_nargs all_args =
  y_is_named && (same_obj || same_type_name) && Z.eqb x_nargs y_nargs && all_args.
Proof. exact named_identical_spec. Qed.
Print Assumptions C14_named_case_of_the_source.

(* "... nor different instantiations of one generic type": the same declaration never suffices *)
Theorem C14_instantiations_need_identical_arguments : forall n m, gen_named_identical true true true n m false = false.
Proof. exact same_declaration_does_not_suffice. Qed.
Print Assumptions C14_instantiations_need_identical_arguments.

Theorem C14_same_type_name_of_the_source : forall x_name y_name x_has_pkg y_has_pkg same_pkg x_local y_local x_path y_path,
  (x_has_pkg = false -> y_has_pkg = false -> same_pkg = true) ->
  (x_has_pkg <> y_has_pkg -> same_pkg = false) ->
  gen_same_type_name x_name y_name x_has_pkg y_has_pkg same_pkg x_local y_local x_path y_path =
  String.eqb x_name y_name &&
  (if x_has_pkg && y_has_pkg then negb x_local && negb y_local && String.eqb x_path y_path
   else negb x_has_pkg && negb y_has_pkg).
Proof. exact same_type_name_spec. Qed.
Print Assumptions C14_same_type_name_of_the_source.

(* the model identical_x (about which the C14 theorems speak) has exactly these decisions in its Named case and in sameID *)
Theorem C14_model_named_case_is_translated_source : forall u p n xs v q m ys,
  identical_x (T (HNamed u p n) xs) (T (HNamed v q m) ys) =
  gen_named_identical true false
    (gen_same_type_name n m true true false false false p q)
    (Z.of_nat (List.length xs)) (Z.of_nat (List.length ys)) (all2 identical_x xs ys).
Proof. exact model_named_case_is_translated. Qed.
Print Assumptions C14_model_named_case_is_translated_source.

Theorem C14_model_same_id_is_translated_source : forall f g,
  sameID f g =
  gen_same_id (fh_name f) (fh_name g) (is_exported (fh_name f))
    (negb (String.eqb (fh_pkg f) "")) (negb (String.eqb (fh_pkg g) ""))
    (String.eqb (fh_pkg f) "" && String.eqb (fh_pkg g) "") (fh_pkg f) (fh_pkg g).
Proof. exact model_same_id_is_translated. Qed.
Print Assumptions C14_model_same_id_is_translated_source.

(* the one-level cases of typeIdentical as they stand in the source: arrays are identical iff their element types are and
   their lengths are equal -- only a NEGATIVE length (the type checker's "unknown") is let through; 0 is a length like any other *)
Theorem C14_array_case_of_the_source : forall y_is_array x_len y_len elem,
  gen_array_identical y_is_array x_len y_len elem =
  y_is_array && ((x_len <? 0)%Z || (y_len <? 0)%Z || Z.eqb x_len y_len) && elem.
Proof. exact array_identical_spec. Qed.
Print Assumptions C14_array_case_of_the_source.

Theorem C14_known_array_lengths_must_be_equal : forall n m elem, (0 <= n)%Z -> (0 <= m)%Z ->
  gen_array_identical true n m elem = Z.eqb n m && elem.
Proof. exact known_lengths_must_be_equal. Qed.
Print Assumptions C14_known_array_lengths_must_be_equal.

Theorem C14_one_level_cases_of_the_source :
  (forall b k l, gen_basic_identical b k l = b && Z.eqb k l) /\
  (forall b e, gen_slice_identical b e = b && e) /\ (forall b e, gen_pointer_identical b e = b && e) /\
  (forall b k e, gen_map_identical b k e = b && k && e) /\
  (forall b d f e, gen_chan_identical b d f e = b && Z.eqb d f && e) /\
  (forall b v w p r, gen_signature_identical b v w p r = b && Bool.eqb v w && p && r).
Proof. exact one_level_cases_spec. Qed.
Print Assumptions C14_one_level_cases_of_the_source.

(* the model identical_x has exactly these decisions in its Basic / Array / Slice / Pointer / Map / Chan / Signature cases *)
Theorem C14_model_one_level_cases_are_translated_source : forall a b c d,
  (forall k l, identical_x (T (HBasic k) []) (T (HBasic l) []) = gen_basic_identical true (Z.of_N k) (Z.of_N l)) /\
  (forall n m, identical_x (T (HArray n) [a]) (T (HArray m) [b]) = gen_array_identical true n m (identical_x a b)) /\
  identical_x (T HSlice [a]) (T HSlice [b]) = gen_slice_identical true (identical_x a b) /\
  identical_x (T HPointer [a]) (T HPointer [b]) = gen_pointer_identical true (identical_x a b) /\
  identical_x (T HMap [a; c]) (T HMap [b; d]) = gen_map_identical true (identical_x a b) (identical_x c d) /\
  (forall e f, identical_x (T (HChan e) [a]) (T (HChan f) [b]) = gen_chan_identical true (Z.of_N e) (Z.of_N f) (identical_x a b)) /\
  (forall v w, identical_x (T (HSig v) [a; c]) (T (HSig w) [b; d]) =
               gen_signature_identical true v w (identical_x a b) (identical_x c d)).
Proof. exact model_one_level_cases_are_translated. Qed.
Print Assumptions C14_model_one_level_cases_are_translated_source.

(* non-vacuity: text/template.Template vs html/template.Template, L[int] vs L[string], L[int] vs its counterpart *)
Example c14named_examples :
  let tint := T (HBasic 2) [] in let tstr := T (HBasic 17) [] in
  identical_x (T (HNamed 1 "text/template" "Template") []) (T (HNamed 1 "html/template" "Template") []) = false /\
  identical_x (T (HNamed 1 "p" "L") [tint]) (T (HNamed 1 "p" "L") [tstr]) = false /\
  identical_x (T (HNamed 1 "p" "L") [tint]) (T (HNamed 2 "p" "L") [tint]) = true /\
  gen_same_type_name "error" "error" false false true false false "" "" = true /\
  gen_same_type_name "T" "T" true true false true false "p" "p" = false /\
  identical_x (T (HArray 0) [tint]) (T (HArray 4) [tint]) = false /\ identical_x (T (HArray 0) [tint]) (T (HArray 0) [tint]) = true /\
  gen_array_identical true 0 4 true = false /\ gen_array_identical true (-1) 4 true = true.
Proof. vm_compute. repeat split; reflexivity. Qed.
