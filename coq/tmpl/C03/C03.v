(* Property C03 -- theorems only. Closed by `exact` of lemmas of RG.Engine.RenderSpec / RenderLoop (generic), of
   Inst_Render.v (about nodeText's in-range test and the report-path facts REGENERATED from /repo on this run) and of
   Inst_RenderLoop.v (about the scanning loop of renderMessage TRANSLATED from /repo on this run). *)
From Coq Require Import List ZArith Lia Bool Arith Permutation String.
From RG.Base Require Import Outcome GoInt GoSlice.
From RG.Regex Require Import Utf8.
From RG.Engine Require Import TruncateSpec RenderSpec RenderLoop RenderPre.
From RGW Require Import Gen_C03 Inst_Render Gen_C03Loop Def_RenderLoop Inst_RenderLoop Gen_C03Pre Def_RenderPre Inst_RenderPre.
From RG.Engine Require Import FileBytes.
From RGW Require Import Gen_C03Src Inst_FileBytes.
Import ListNotations.
Local Open Scope Z_scope.

(* sorting the captures by name length (ANY order among equal lengths, so also an unstable sort) and taking the first
   prefix hit is the longest-name match: for all capture sets with distinct names, all templates, all value functions *)
Theorem C03_render_longest_name :
  forall (C : Type) (cname : C -> bytes) (cval : C -> bytes -> bytes) (whole : bytes -> bytes) caps caps' fuel msg,
  NoDup (map cname caps) -> Permutation caps caps' -> len_sorted cname caps' ->
  interp cname cval whole (first_prefix cname caps') fuel msg = interp cname cval whole (longest cname caps) fuel msg.
Proof. exact (@render_longest_name). Qed.
Print Assumptions C03_render_longest_name.

(* the renderer (insertion-sorted captures) meets the interpolation specification *)
Theorem C03_render_is_spec :
  forall trunc caps whole_text whole_fix msg, NoDup (map ccap_name caps) ->
  render_msg trunc caps whole_text whole_fix msg = render_msg_spec trunc caps whole_text whole_fix msg.
Proof. intros. apply render_is_spec. assumption. Qed.
Print Assumptions C03_render_is_spec.

(* exact source text, including a node that ends exactly at EOF (to = |src|) *)
Theorem C03_node_text_exact :
  forall src from to fb, 0 <= from -> from < len src -> from <= to -> to <= len src ->
  node_text nodeTextInRange src from to fb = Ok (sub src from to).
Proof. exact node_text_exact. Qed.
Print Assumptions C03_node_text_exact.

Theorem C03_node_text_total :
  forall src from to fb, from <= to -> exists r, node_text nodeTextInRange src from to fb = Ok r.
Proof. exact node_text_total. Qed.
Print Assumptions C03_node_text_total.

(* the reported node is the At() capture when given, else the whole match; a suggestion replaces exactly its range *)
Theorem C03_at_relocates_and_suggestion_range :
  forall r l whole caps rep, mk_report r l whole caps = Some rep ->
  exists node, (match r_loc r with None => node = whole | Some v => loc_node v whole caps = Some node end) /\
               rep_pos rep = n_pos node /\ rep_end rep = n_end node /\
               (forall f t s, rep_sugg rep = Some (f, t, s) -> f = n_pos node /\ t = n_end node).
Proof. exact at_relocates. Qed.
Print Assumptions C03_at_relocates_and_suggestion_range.

(* what At() names: "$$" is the match itself; a bound capture is the FIRST capture of that name -- unless it matched nothing
   (an empty `$*xs` list has no position; a negative offset stands for token.NoPos), then the match itself is reported *)
Theorem C03_at_of_the_whole_match : forall whole caps, loc_node dollar_dollar whole caps = Some whole.
Proof. exact loc_node_whole. Qed.
Print Assumptions C03_at_of_the_whole_match.

Theorem C03_at_of_a_capture :
  forall v whole caps nd, v <> dollar_dollar -> captured_by_name v caps = Some nd ->
  loc_node v whole caps = Some (if absent nd then whole else nd).
Proof. exact loc_node_capture. Qed.
Print Assumptions C03_at_of_a_capture.

Theorem C03_suggest_untruncated :
  forall r l whole caps rep f t s, mk_report r l whole caps = Some rep -> rep_sugg rep = Some (f, t, s) ->
  s = render_msg None (ccaps_of caps) (n_text whole) (n_fix whole) (r_sugg r).
Proof. exact suggest_untruncated. Qed.
Print Assumptions C03_suggest_untruncated.

(* suggesting a node's own text leaves the file (hence its AST) unchanged; an edit touches nothing outside its range *)
Theorem C03_suggest_own_text_identity :
  forall src from to, 0 <= from -> from <= to -> to <= len src -> apply_edit src from to (sub src from to) = src.
Proof. exact suggest_own_text_identity. Qed.
Print Assumptions C03_suggest_own_text_identity.

Theorem C03_edit_is_local :
  forall src from to repl, 0 <= from -> from <= to -> to <= len src ->
  firstn (Z.to_nat from) (apply_edit src from to repl) = firstn (Z.to_nat from) src /\
  skipn (Z.to_nat from + List.length repl) (apply_edit src from to repl) = skipn (Z.to_nat to) src.
Proof. exact apply_edit_outside. Qed.
Print Assumptions C03_edit_is_local.

Theorem C03_rule_line_is_alternative_line :
  forall proto alt_lines i ln, nth_error alt_lines i = Some ln ->
  exists r, nth_error (load_alternatives proto alt_lines) i = Some r /\ r_line r = ln /\ r_msg r = r_msg proto.
Proof. exact rule_line_is_alternative_line. Qed.
Print Assumptions C03_rule_line_is_alternative_line.

(* the scanning loop of renderMessage AS TRANSLATED FROM THE SOURCE on this run, started from the translated initial state,
   computes the interpolation with the first-prefix lookup over the capture list it is given: for every template, every
   capture list (any representation N of nodes, any nodeText / fixedText / truncateText), with or without truncation;
   it never indexes the template out of range (the result is Ok) *)
Theorem C03_scan_loop_is_interp :
  forall (N : Type) (m_Node : N) (nodeText : N -> bytes) (fixedText : bytes -> N -> bytes -> bytes) (truncateText : bytes -> Z -> bytes)
         (truncateLen : Z) (truncate : bool) (msg : bytes) (capture : list (bytes * N)) (fuel : nat),
  (List.length msg < fuel)%nat ->
  exists i, for_loop fuel (gen_renderMessage_body m_Node nodeText fixedText truncateText truncateLen msg capture truncate) (0, [])
            = Ok (i, interp gcname (gcval nodeText fixedText truncateText truncateLen truncate)
                            (gwhole m_Node nodeText fixedText truncateText truncateLen truncate)
                            (first_prefix gcname capture) (S (List.length msg)) msg).
Proof. intros N. exact (@gen_scan_is_interp N). Qed.
Print Assumptions C03_scan_loop_is_interp.

(* hence renderMessage with the translated loop (captures sorted by name length in front of it) IS the model the other
   theorems speak about, on all inputs *)
Theorem C03_translated_render_is_model :
  forall trunc caps whole_text whole_fixable msg,
  gen_render_msg trunc caps whole_text whole_fixable msg = Ok (render_msg trunc caps whole_text whole_fixable msg).
Proof. exact gen_render_msg_is_render_msg. Qed.
Print Assumptions C03_translated_render_is_model.

(* the STABLE sort by name length followed by the first prefix hit is the longest-name match with ties resolved in favour
   of the EARLIER capture: for ALL capture lists -- also when a name occurs twice (a regexp may name two groups alike) *)
Theorem C03_stable_sort_first_of_name :
  forall (C : Type) (cname : C -> bytes) caps rest, first_prefix cname (sort_len cname caps) rest = longest cname caps rest.
Proof. exact (@first_prefix_stable_is_longest). Qed.
Print Assumptions C03_stable_sort_first_of_name.

Theorem C03_longest_is_first_of_its_name :
  forall (C : Type) (cname : C -> bytes) caps rest c, longest cname caps rest = Some c ->
  forall pre d post, caps = pre ++ d :: post -> cname d = cname c -> (forall x, In x pre -> cname x <> cname c) -> c = d.
Proof. exact (@longest_first_of_name). Qed.

(* the statements of renderMessage IN FRONT OF the loop, as translated from the source on this run (go2coq c03pre), leave
   exactly the captures that hold a node -- no nil interface (a capture bound to no node), no typed nil pointer --, longest
   name first, captures of equal name length in their original order. sort.Slice is an abstract operation about which
   nothing is assumed: were it the sort the source calls, this would not be provable. reflect's IsNil is never asked about a
   nil interface (the result is Ok). *)
Theorem C03_translated_capture_preparation_is_model :
  forall (N : Type) sort_Slice (caps : list (bytes * nval N)),
  gen_renderMessage_captures v_is_nil_interface v_reflect_IsNil v_IsEmptyNodeSlice sort_Slice (@stable_sort (bytes * nval N)) caps
  = Ok (live_sorted caps).
Proof. intros N. exact (@gen_captures_is_live_sorted N). Qed.
Print Assumptions C03_translated_capture_preparation_is_model.

(* renderMessage as regenerated -- capture preparation + scanning loop -- is the interpolation specification on the live
   captures, for all capture lists (names may repeat), templates, TruncateLen values *)
Theorem C03_translated_render_full_is_spec :
  forall trunc caps whole_text whole_fixable msg,
  gen_render_msg_full trunc caps whole_text whole_fixable msg = Ok (render_msg_spec trunc (live_ccaps caps) whole_text whole_fixable msg).
Proof. exact gen_render_msg_full_is_spec. Qed.
Print Assumptions C03_translated_render_full_is_spec.

(* the statements of runner.go / ir_loader.go that the report model mirrors are the ones in the source today *)
Theorem C03_report_path_facts : forallb snd gen_c03_facts = true /\ (26 <= List.length gen_c03_facts)%nat.
Proof. exact (conj c03_facts_hold c03_facts_count). Qed.
Print Assumptions C03_report_path_facts.

(* a name that occurs twice: `$dd` is the FIRST capture named dd (14 captures, the second `dd` at position 9) *)
Example c03_first_of_name :
  let nm (s : list Z) := s in
  let caps := map (fun p => (fst p, VNode (snd p, false)))
    [([101;101;101],[49]); ([100;100],[50]); ([103;103],[51]); ([104],[52]); ([105;105],[53]); ([106;106;106],[54]); ([107;107],[55]);
     ([108],[56]); ([109;109;109],[57]); ([100;100],[65]); ([111;111],[66]); ([112],[67]); ([113;113;113],[68]); ([114;114],[69])] in
  gen_render_msg_full None caps [] false [36;100;100] = Ok [50].
Proof. vm_compute. reflexivity. Qed.

(* non-vacuity *)
Example c03_longest_wins :
  (* captures x="1", xy="2", xyz="3" given in an order that is NOT sorted; template "$xyz|$xy|$x|$xyzw|$nope|$$" *)
  let caps := [([120], [49], false); ([120;121;122], [51], false); ([120;121], [50], false)] in
  render_msg None caps [87] false
    [36;120;121;122;124;36;120;121;124;36;120;124;36;120;121;122;119;124;36;110;111;112;101;124;36;36]
  = [51;124;50;124;49;124;51;119;124;36;110;111;112;101;124;87]
  /\ NoDup (map ccap_name caps).
Proof. split; [vm_compute; reflexivity|]. repeat constructor; cbn; intuition discriminate. Qed.

Example c03_eof_node : node_text nodeTextInRange [49;32;43;32;32;50] 0 6 [88] = Ok [49;32;43;32;32;50]
  /\ node_text nodeTextInRange [49;32;43;32;32;50] 5 6 [88] = Ok [50]
  /\ node_text nodeTextInRange [49;32;43] 2 9 [88] = Ok [88].
Proof. repeat split; vm_compute; reflexivity. Qed.

Example c03_report :
  let whole := {| n_pos := 10; n_end := 20; n_text := [87]; n_fix := false |} in
  let x := {| n_pos := 12; n_end := 13; n_text := [49]; n_fix := false |} in
  mk_report {| r_msg := [36;120]; r_sugg := [36;36]; r_loc := Some [120]; r_line := 7 |} 0 whole [([120], x)]
  = Some {| rep_pos := 12; rep_end := 13; rep_msg := [49]; rep_sugg := Some (12, 13, [87]); rep_line := 7 |}.
Proof. vm_compute. reflexivity. Qed.

(* ---- the bytes the texts are sliced from: rulesRunner.fileBytes, translated from runner.go on this run, is the specification
   (the slice this run already holds, else the file as it is on disk NOW), for every disk, file name and state of rr.src *)
Theorem C03_translated_fileBytes_is_spec :
  forall (d : disk) (name : bytes) (w : fworld), gen_fileBytes d name w = file_bytes d name w.
Proof. exact gen_fileBytes_is_file_bytes. Qed.
Print Assumptions C03_translated_fileBytes_is_spec.

(* for every HISTORY of runs through one reused RunnerState -- any disks (the file may have been rewritten between two runs:
   other bytes of the same length at the same path included), any file names, any number of nodeText calls per run, any
   state the runner object was left in -- every nodeText of every run slices the bytes its file has on disk during that
   run.  The reset flag is read off newRulesRunner on this run. *)
Theorem C03_every_run_slices_the_file_of_its_time :
  forall (runs : list frun) (w : fworld), history gen_fileBytes gen_c03_runner_reset w runs = map expected_of runs.
Proof. exact gen_history_reads_current_disk. Qed.
Print Assumptions C03_every_run_slices_the_file_of_its_time.

Theorem C03_file_bytes_facts : forallb snd gen_c03_src_facts = true /\ (3 <= List.length gen_c03_src_facts)%nat.
Proof. exact (conj c03_src_facts_hold c03_src_facts_count). Qed.
Print Assumptions C03_file_bytes_facts.

(* a cache of an earlier run's bytes is invisible exactly when what it is keyed by determines the bytes ... *)
Theorem C03_cache_sound_when_key_determines_bytes :
  forall (K : Type) (key : disk -> bytes -> K) (key_eqb : K -> K -> bool), key_determines key key_eqb ->
  forall runs cache, cache_ok key key_eqb cache ->
  cached_history key key_eqb cache runs = map (fun r => disk_bytes (fst r) (snd r)) runs.
Proof. exact (@cached_history_sound). Qed.
Print Assumptions C03_cache_sound_when_key_determines_bytes.

(* ... and (file name, byte length) does not; neither does carrying rr.src from one run to the next *)
Example c03_name_and_length_do_not_determine_the_bytes :
  cached_history name_len_key name_len_eqb None [(disk_v1, [102]); (disk_v2, [102])] = [[97; 109; 121]; [97; 109; 121]]
  /\ history file_bytes false fresh_runner [(disk_v1, [102], 1%nat); (disk_v2, [102], 1%nat)] = [[Some [97; 109; 121]]; [Some [97; 109; 121]]]
  /\ history gen_fileBytes gen_c03_runner_reset fresh_runner [(disk_v1, [102], 1%nat); (disk_v2, [102], 1%nat)] = [[Some [97; 109; 121]]; [Some [101; 118; 101]]].
Proof. repeat split; vm_compute; reflexivity. Qed.
