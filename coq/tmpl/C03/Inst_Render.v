(* C03: obligations about the parts of the report path REGENERATED from /repo on this run. *)
From Coq Require Import List ZArith Lia Bool Arith String.
From RG.Base Require Import Outcome GoInt GoSlice.
From RG.Engine Require Import TruncateSpec RenderSpec.
From RGW Require Import Gen_C03.
Import ListNotations.
Local Open Scope Z_scope.

(* the regenerated in-range test of nodeText never panics and accepts exactly 0 <= from < |src|, from <= to <= |src| *)
Lemma in_range_spec from to src :
  nodeTextInRange from to src = Ok ((0 <=? from) && (from <? len src) && ((from <=? to) && (to <=? len src))).
Proof.
  unfold nodeTextInRange, bind.
  destruct (Z.leb 0 from), (Z.ltb from (len src)), (Z.leb from to), (Z.leb to (len src)); reflexivity.
Qed.

(* node_text_exact: a node that lies in the file, INCLUDING one that ends exactly at EOF, is rendered as its source bytes *)
Lemma node_text_exact src from to fb :
  0 <= from -> from < len src -> from <= to -> to <= len src ->
  node_text nodeTextInRange src from to fb = Ok (sub src from to).
Proof.
  intros H1 H2 H3 H4. unfold node_text. rewrite in_range_spec. cbn [bind].
  replace ((0 <=? from) && (from <? len src) && ((from <=? to) && (to <=? len src))) with true by lia.
  rewrite slice_ok by lia. reflexivity.
Qed.

(* outside the file the fallback text is used; nodeText never panics -- also when the extent is reversed (from > to: the
   nodes of a gogrep node list need not be in source order), the fallback is used then *)
Lemma node_text_total_any src from to fb : exists r, node_text nodeTextInRange src from to fb = Ok r.
Proof.
  unfold node_text. rewrite in_range_spec. cbn [bind].
  destruct ((0 <=? from) && (from <? len src) && ((from <=? to) && (to <=? len src))) eqn:E; [|eauto].
  rewrite slice_ok by lia. eauto.
Qed.

Lemma node_text_total src from to fb : from <= to -> exists r, node_text nodeTextInRange src from to fb = Ok r.
Proof. intros _. apply node_text_total_any. Qed.

(* every fact read off runner.go / ir_loader.go holds *)
Lemma c03_facts_hold : forallb snd gen_c03_facts = true.
Proof. vm_compute. reflexivity. Qed.

Lemma c03_facts_count : (26 <= List.length gen_c03_facts)%nat.
Proof. vm_compute. lia. Qed.
