(* C03: the scanning loop of renderMessage REGENERATED from runner.go (Gen_C03Loop.gen_renderMessage_body) does, on every
   position of every template, exactly what RenderLoop.step_spec says; hence the regenerated loop computes
   RenderSpec.interp with the first-prefix lookup -- for all templates, capture lists, node types and text functions. *)
From Coq Require Import List ZArith Lia Bool Arith.
From RG.Base Require Import Outcome GoInt GoSlice.
From RG.Regex Require Import Utf8.
From RG.Engine Require Import TruncateSpec RenderSpec.
From RG.Engine Require Import RenderLoop.
From RGW Require Import Gen_C03Loop Def_RenderLoop.
Import ListNotations.
Local Open Scope Z_scope.

Section Inst.
Context {N : Type}.
Variable m_Node : N.
Variable rr_nodeText : N -> bytes.
Variable rr_fixedText : bytes -> N -> bytes -> bytes.
Variable truncateText : bytes -> Z -> bytes.
Variable rr_truncateLen : Z.
Variable truncate : bool.

(* the text inserted for a node, given the template text that follows its name *)
Definition shown (nd : N) (following : bytes) : bytes :=
  let t := rr_fixedText (rr_nodeText nd) nd following in
  if truncate then truncateText t rr_truncateLen else t.

Definition gcname (c : bytes * N) : bytes := fst c.
Definition gcval (c : bytes * N) (following : bytes) : bytes := shown (snd c) following.
Definition gwhole (following : bytes) : bytes := shown m_Node following.

Lemma gen_body_is_step_spec msg capture i result :
  0 <= i <= len msg ->
  gen_renderMessage_body m_Node rr_nodeText rr_fixedText truncateText rr_truncateLen msg capture truncate (i, result)
  = Ok (step_spec gcname gcval gwhole capture msg i result).
Proof.
  intros Hi. unfold gen_renderMessage_body, step_spec.
  rewrite (slice_from msg i Hi). cbn [bind].
  pose proof (index_byte_split (skipn (Z.to_nat i) msg)) as Hj. unfold dollar in Hj.
  destruct (split_dollar (skipn (Z.to_nat i) msg)) as [pre [rest|]] eqn:E.
  - apply split_dollar_some in E as [Es _]. rewrite Hj.
    assert (Hne : (len pre =? -1) = false) by (unfold len; lia). rewrite Hne.
    rewrite (slice_pre msg pre (dollar :: rest) i Hi Es). cbn [bind].
    assert (Hl : len (dollar :: rest) = 1 + len rest) by (unfold len; cbn [length]; lia).
    assert (Hafter : forall k, 0 <= k <= len rest -> slice msg (i + len pre + 1 + k) (len msg) = Ok (skipn (Z.to_nat k) rest)).
    { intros k Hk. replace (i + len pre + 1 + k) with (i + len pre + (1 + k)) by lia.
      rewrite (slice_after msg pre (dollar :: rest) i (1 + k) Hi Es) by lia.
      replace (Z.to_nat (1 + k)) with (S (Z.to_nat k)) by lia. reflexivity. }
    replace (i + len pre + 1) with (i + len pre + 1 + 0) at 1 by lia.
    rewrite (Hafter 0) by (unfold len; lia). cbn [bind Z.to_nat skipn].
    destruct rest as [|ch2 rest'].
    + (* `$` ends the template *)
      cbn [has_prefixb]. cbn [bind].
      replace (i + len pre + 1) with (i + len pre + 1 + 0) by lia. rewrite (Hafter 0) by (unfold len; lia). cbn [Z.to_nat skipn].
      change (fun c : bytes * N => bind (Ok []) (fun t5 : list Z => Ok (has_prefixb (fst c) t5)))
        with (fun c : bytes * N => Ok (has_prefixb (gcname c) [])).
      rewrite range_first_is_first_prefix. cbn [bind]. unfold lookup.
      destruct (first_prefix gcname capture []) as [c|] eqn:EL; cbn [bind].
      * assert (Hc : fst c = []).
        { clear -EL. induction capture as [|d t IH]; cbn in EL; [discriminate|].
          destruct (has_prefixb (gcname d) []) eqn:Ep; [injection EL as <-; unfold gcname in Ep; destruct (fst d); [reflexivity|discriminate]|auto]. }
        unfold gcname. rewrite Hc. cbn [len length Z.of_nat].
        replace (i + len pre + 1 + 0 + 0) with (i + len pre + 1 + 0) by lia. rewrite (Hafter 0) by (unfold len; lia).
        cbn [bind Z.to_nat skipn]. unfold gcval, shown.
        destruct truncate; cbn [bind]; do 3 f_equal; unfold len; cbn [length]; lia.
      * do 3 f_equal. unfold len; cbn [length]; lia.
    + cbn [has_prefixb]. destruct (36 =? ch2) eqn:E36.
      * assert (E2 : (ch2 =? dollar) = true) by (unfold dollar; lia). rewrite E2. cbn [has_prefixb andb bind].
        rewrite (Hafter 1) by (unfold len; cbn [length]; lia). cbn [bind]. change (Z.to_nat 1) with 1%nat. cbn [skipn].
        unfold gwhole, shown. destruct truncate; cbn [bind]; do 3 f_equal; unfold len; cbn [length]; lia.
      * assert (E2 : (ch2 =? dollar) = false) by (unfold dollar; lia). rewrite E2. cbn [andb bind].
        replace (i + len pre + 1) with (i + len pre + 1 + 0) by lia. rewrite (Hafter 0) by (unfold len; lia). cbn [Z.to_nat skipn].
        change (fun c : bytes * N => bind (Ok (ch2 :: rest')) (fun t5 : list Z => Ok (has_prefixb (fst c) t5)))
          with (fun c : bytes * N => Ok (has_prefixb (gcname c) (ch2 :: rest'))).
        rewrite range_first_is_first_prefix. cbn [bind]. unfold lookup.
        destruct (first_prefix gcname capture (ch2 :: rest')) as [c|] eqn:EL; cbn [bind].
        -- assert (Hp : has_prefixb (gcname c) (ch2 :: rest') = true).
           { clear -EL. induction capture as [|d t IH]; cbn in EL; [discriminate|].
             destruct (has_prefixb (gcname d) (ch2 :: rest')) eqn:Ep; [injection EL as <-; exact Ep|auto]. }
           apply has_prefixb_length in Hp. unfold gcname in *.
           replace (i + len pre + 1 + 0 + len (fst c)) with (i + len pre + 1 + len (fst c)) by lia.
           rewrite (Hafter (len (fst c))) by (unfold len; lia). cbn [bind].
           unfold gcval, shown. replace (Z.to_nat (len (fst c))) with (length (fst c)) by (unfold len; lia).
           destruct truncate; cbn [bind]; do 3 f_equal; unfold len; cbn [length]; lia.
        -- do 3 f_equal. unfold len; cbn [length]; lia.
  - rewrite Hj. apply split_dollar_none in E as [-> _]. reflexivity.
Qed.

(* the regenerated loop, started as renderMessage starts it (i = 0, empty result), yields the interpolation *)
Theorem gen_scan_is_interp msg capture fuel :
  (length msg < fuel)%nat ->
  exists i, for_loop fuel (gen_renderMessage_body m_Node rr_nodeText rr_fixedText truncateText rr_truncateLen msg capture truncate) (0, [])
            = Ok (i, interp gcname gcval gwhole (first_prefix gcname capture) (S (length msg)) msg).
Proof.
  intros Hf. apply (loop_is_interp gcname gcval gwhole capture msg); [|exact Hf].
  intros i result Hi. apply gen_body_is_step_spec. exact Hi.
Qed.
End Inst.

(* ---- the regenerated loop on RenderSpec's concrete captures (Def_RenderLoop.gen_render_msg) is the model render_msg *)
Theorem gen_render_msg_is_render_msg trunc caps whole_text whole_fixable msg :
  gen_render_msg trunc caps whole_text whole_fixable msg = Ok (render_msg trunc caps whole_text whole_fixable msg).
Proof.
  unfold gen_render_msg, gen_renderMessage_init.
  destruct (gen_scan_is_interp (N := bytes * bool) (whole_text, whole_fixable) fst
              (fun text n following => fixed_text (snd n) text following) trunc_fn
              (match trunc with Some l => l | None => 0 end) (match trunc with Some _ => true | None => false end)
              msg (map cnode_of (sort_len ccap_name caps)) (S (length msg)) (Nat.lt_succ_diag_r _)) as [i E].
  rewrite E. cbn [bind gen_renderMessage_result]. f_equal.
  unfold render_msg, render.
  rewrite (interp_map cnode_of ccap_name (ccap_val trunc)).
  - apply interp_ext_whole. intros r. unfold gwhole, shown, shown_text, trunc_fn. cbn [fst snd]. destruct trunc; reflexivity.
  - intros c. reflexivity.
  - intros c r. unfold gcval, shown, ccap_val, shown_text, trunc_fn, cnode_of. cbn [fst snd]. destruct trunc; reflexivity.
Qed.
