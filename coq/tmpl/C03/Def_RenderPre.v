(* C03: renderMessage with BOTH its capture preparation and its scanning loop TAKEN FROM THE SOURCE (Gen_C03Pre,
   Gen_C03Loop), on concrete capture values. Definitions only: the executed model of the correspondence runs uses
   gen_render_msg_full whether or not the proofs of Inst_RenderPre.v still go through. *)
From Coq Require Import List ZArith Lia Bool Arith.
From RG.Base Require Import Outcome GoInt GoSlice.
From RG.Regex Require Import Utf8.
From RG.Engine Require Import TruncateSpec RenderSpec RenderLoop RenderPre.
From RGW Require Import Gen_C03Loop Def_RenderLoop Gen_C03Pre.
Import ListNotations.
Local Open Scope Z_scope.

(* a node the renderer can show is (exact source text, fixable) *)
Definition vnode := nval (bytes * bool).
(* a capture as the correspondence supplies it: kind 0 = a node, 1 = typed nil pointer, 2 = nil interface, 3 = empty node slice *)
Definition to_val (c : ccap * Z) : bytes * vnode :=
  (ccap_name (fst c),
   if snd c =? 1 then VTypedNil else if snd c =? 2 then VNilIface else if snd c =? 3 then VEmptySlice
   else VNode (snd (fst (fst c)), snd (fst c))).
Definition node_of (v : vnode) : bytes * bool := match v with VNode n => n | _ => ([], false) end.
Definition to_ccap (c : bytes * vnode) : ccap := (fst c, fst (node_of (snd c)), snd (node_of (snd c))).

(* the translated statements in front of the loop. Both library sorts are EXECUTED as the stable insertion sort (Go's
   sort.Slice is an insertion sort -- hence stable -- up to 12 elements; the proofs assume nothing of the kind) *)
Definition gen_captures (caps : list (bytes * vnode)) : outcome (list (bytes * vnode)) :=
  gen_renderMessage_captures v_is_nil_interface v_reflect_IsNil v_IsEmptyNodeSlice
    (@stable_sort (bytes * vnode)) (@stable_sort (bytes * vnode)) caps.

Definition gen_render_msg_full (trunc : option Z) (caps : list (bytes * vnode)) (whole_text : bytes) (whole_fixable : bool) (msg : bytes) : outcome bytes :=
  if gen_renderMessage_early_return && forallb (fun ch => negb (ch =? dollar)) msg then Ok msg else
  bind (gen_captures caps) (fun capture =>
  bind (for_loop (S (length msg))
          (gen_renderMessage_body (N := bytes * bool) (whole_text, whole_fixable) fst
             (fun text n following => fixed_text (snd n) text following) trunc_fn
             (match trunc with Some l => l | None => 0 end)
             msg (map (fun c => (fst c, node_of (snd c))) capture) (match trunc with Some _ => true | None => false end))
          gen_renderMessage_init)
       (fun st => Ok (gen_renderMessage_result st))).
