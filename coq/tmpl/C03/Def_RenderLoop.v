(* C03: renderMessage with its scanning loop TAKEN FROM THE SOURCE (Gen_C03Loop), on RenderSpec's concrete captures.
   Definitions only: the executed model of the correspondence runs uses gen_render_msg whether or not the proofs of
   Inst_RenderLoop.v still go through. *)
From Coq Require Import List ZArith Lia Bool Arith.
From RG.Base Require Import Outcome GoInt GoSlice.
From RG.Regex Require Import Utf8.
From RG.Engine Require Import TruncateSpec RenderSpec RenderLoop.
From RGW Require Import Gen_C03Loop.
Import ListNotations.
Local Open Scope Z_scope.

(* a node is (exact source text, fixable) *)
Definition cnode_of (c : ccap) : bytes * (bytes * bool) := (ccap_name c, (snd (fst c), snd c)).
Definition trunc_fn (t : bytes) (l : Z) : bytes :=
  match shown_oracle t l with Some r => r | None => firstn (Z.to_nat (Z.max (eff_len l) 0)) t end.

(* renderMessage with its scanning loop taken from the source: captures sorted by name length (hand model of the
   sort.Slice call in front of the loop), then the regenerated loop from the regenerated initial state *)
Definition gen_render_msg (trunc : option Z) (caps : list ccap) (whole_text : bytes) (whole_fixable : bool) (msg : bytes) : outcome bytes :=
  bind (for_loop (S (length msg))
          (gen_renderMessage_body (N := bytes * bool) (whole_text, whole_fixable) fst
             (fun text n following => fixed_text (snd n) text following) trunc_fn
             (match trunc with Some l => l | None => 0 end)
             msg (map cnode_of (sort_len ccap_name caps)) (match trunc with Some _ => true | None => false end))
          gen_renderMessage_init)
       (fun st => Ok (gen_renderMessage_result st)).

