(* C03 / C12: rulesRunner.fileBytes as TRANSLATED from runner.go on this run (go2coq c03src) is the specification
   RG.Engine.FileBytes.file_bytes, the reused runner object is overwritten at the start of every run, and therefore every run of
   every history through one RunnerState slices the bytes its file has on disk when it is analysed (re-proved each run). *)
From Coq Require Import List ZArith Bool Lia String.
From RG.Base Require Import Outcome GoSlice.
From RG.Engine Require Import FileBytes.
From RGW Require Import Gen_C03Src.
Import ListNotations.
Local Open Scope Z_scope.

(* for every disk, every file name and every state of rr.src *)
Theorem gen_fileBytes_is_file_bytes : forall d name w, gen_fileBytes d name w = file_bytes d name w.
Proof.
  intros d name [s]. unfold gen_fileBytes, file_bytes, disk_bytes. cbn [w_src].
  destruct s as [b|]; cbn; [reflexivity|].
  destruct (d name) as [[b|] [|]]; reflexivity.
Qed.

(* `*rr = rulesRunner{...}` (without src / filename) is a statement of newRulesRunner: rr.src is nil when a run starts *)
Lemma c03_runner_reset : gen_c03_runner_reset = true.
Proof. vm_compute. reflexivity. Qed.

Lemma c03_src_facts_hold : forallb snd gen_c03_src_facts = true.
Proof. vm_compute. reflexivity. Qed.

Lemma c03_src_facts_count : (3 <= List.length gen_c03_src_facts)%nat.
Proof. vm_compute. lia. Qed.

(* whatever the earlier runs of the state read (another path, the same path, a version of the same byte length), every
   nodeText of every run slices the bytes the run's file has on disk during that run *)
Theorem gen_history_reads_current_disk :
  forall runs w, history gen_fileBytes gen_c03_runner_reset w runs = map expected_of runs.
Proof.
  intros runs w. rewrite c03_runner_reset.
  apply history_reads_current_disk_ext. exact gen_fileBytes_is_file_bytes.
Qed.
