(* C03: the statements of renderMessage in front of its scanning loop, REGENERATED from runner.go (Gen_C03Pre), leave
   exactly the captures that hold a node (no nil interface, no typed nil pointer), sorted by name length with captures of
   equal name length -- in particular captures that carry the SAME name -- in their original order; together with the
   regenerated loop: renderMessage is the model render_msg on the live captures, and `$name` is the longest name that
   fits, the FIRST capture of that name. Nothing is assumed about sort.Slice: if the source calls it, this file breaks. *)
From Coq Require Import List ZArith Lia Bool Arith Permutation.
From RG.Base Require Import Outcome GoInt GoSlice.
From RG.Regex Require Import Utf8.
From RG.Engine Require Import TruncateSpec RenderSpec RenderLoop RenderPre.
From RGW Require Import Gen_C03Loop Def_RenderLoop Inst_RenderLoop Gen_C03Pre Def_RenderPre.
Import ListNotations.
Local Open Scope Z_scope.

Section Pre.
Context {N : Type}.
(* sort.Slice: a library function about which nothing is assumed here (its documentation promises no stability) *)
Variable sort_Slice : (bytes * nval N -> bytes * nval N -> bool) -> list (bytes * nval N) -> list (bytes * nval N).

Theorem gen_captures_is_live_sorted (caps : list (bytes * nval N)) :
  gen_renderMessage_captures v_is_nil_interface v_reflect_IsNil v_IsEmptyNodeSlice sort_Slice (@stable_sort (bytes * nval N)) caps
  = Ok (live_sorted caps).
Proof.
  unfold gen_renderMessage_captures, live_sorted.
  destruct caps as [|c0 t]; [reflexivity|].
  replace (negb (len (c0 :: t) =? 0)) with true by (unfold len; cbn [length]; lia).
  rewrite (fold_loop_filter (fun c => usable (snd c))).
  2:{ intros [nm v] acc. destruct v; reflexivity. }
  cbn [bind app]. set (lv := filter (fun c => usable (snd c)) (c0 :: t)).
  destruct (len lv >? 1) eqn:E; cbn [bind].
  - now rewrite stable_sort_is_sort_len.
  - rewrite sort_len_short; [reflexivity|]. unfold len in E. lia.
Qed.

(* no nil interface and no typed nil pointer reaches the scanning loop (which reads c.Node as a node) *)
Corollary gen_captures_hold_nodes caps capture :
  gen_renderMessage_captures v_is_nil_interface v_reflect_IsNil v_IsEmptyNodeSlice sort_Slice (@stable_sort (bytes * nval N)) caps = Ok capture ->
  Forall (fun c => usable (snd c) = true) capture.
Proof.
  rewrite gen_captures_is_live_sorted. intros [= <-]. apply Forall_forall. intros c Hc. eapply live_sorted_usable; exact Hc.
Qed.
End Pre.

(* the live captures as RenderSpec's concrete captures *)
Definition live_ccaps (caps : list (bytes * vnode)) : list ccap := map to_ccap (filter (fun c => usable (snd c)) caps).

Lemma has_dollar_forallb msg : forallb (fun ch => negb (ch =? dollar)) msg = true -> forall tr caps w wf, render_msg tr caps w wf msg = msg.
Proof.
  intros H tr caps w wf. unfold render_msg, render. apply interp_no_dollar; [lia|exact H].
Qed.

(* renderMessage as regenerated (capture preparation + loop) is the model on the live captures *)
Theorem gen_render_msg_full_is_render_msg trunc caps whole_text whole_fixable msg :
  gen_render_msg_full trunc caps whole_text whole_fixable msg = Ok (render_msg trunc (live_ccaps caps) whole_text whole_fixable msg).
Proof.
  unfold gen_render_msg_full.
  destruct (gen_renderMessage_early_return && forallb (fun ch => negb (ch =? dollar)) msg) eqn:Ee.
  - apply andb_prop in Ee as [_ Hd]. now rewrite has_dollar_forallb.
  - unfold gen_captures, vnode. rewrite (gen_captures_is_live_sorted (N := bytes * bool)). cbn [bind].
    rewrite <- (gen_render_msg_is_render_msg trunc (live_ccaps caps) whole_text whole_fixable msg).
    unfold gen_render_msg, live_ccaps, live_sorted.
    rewrite sort_len_map. rewrite !map_map. do 3 f_equal.
    change (sort_len (fun c : bytes * vnode => ccap_name (to_ccap c))) with (sort_len (fun c : bytes * vnode => fst c)).
    apply map_ext. intros [nm v]. unfold cnode_of, to_ccap, ccap_name. cbn [fst snd]. destruct (node_of v); reflexivity.
Qed.

(* ... hence `$name` in a template is the LONGEST capture name that fits, and among captures carrying that name the FIRST:
   for all capture lists, names repeated or not *)
Theorem gen_render_msg_full_is_spec trunc caps whole_text whole_fixable msg :
  gen_render_msg_full trunc caps whole_text whole_fixable msg = Ok (render_msg_spec trunc (live_ccaps caps) whole_text whole_fixable msg).
Proof.
  rewrite gen_render_msg_full_is_render_msg. unfold render_msg, render_msg_spec. now rewrite render_is_spec_any.
Qed.
