(* C13 -- obligations about the code REGENERATED from /repo on this run (Gen_Load.v, Gen_Place.v). *)
From Coq Require Import List String Bool ZArith NArith.
From RG.Load Require Import LoadModel FuncEnv LoadFile LoadIR Place.
From RGW Require Import Gen_Load Gen_Place.
Import ListNotations.

Section Inst.
Variable R : Type.
Variable G : Type.
Variable gname : G -> N.
Variable NB : nat.

(* engine.Load, from the LoadFile call to the end, is the model's load_step -- for every engine state and every file result *)
Lemma load_tail_is_step e fr :
  tinterp R G gname NB gen_Load_tail e fr =
  TReturned R G (fst (load_step R G gname NB e fr)) (snd (load_step R G gname NB e fr)).
Proof. exact (canonical_tail_correct R G gname NB e fr). Qed.

Lemma loadfromir_tail_is_step e fr :
  tinterp R G gname NB gen_LoadFromIR_tail e fr =
  TReturned R G (fst (load_step R G gname NB e fr)) (snd (load_step R G gname NB e fr)).
Proof. exact (canonical_tail_correct R G gname NB e fr). Qed.

(* mergeRuleSets is the model's merge -- for every list of rule sets *)
Lemma merge_is_model l : minterp R G gname NB gen_merge l = Some (merge R G gname NB l).
Proof. exact (canonical_merge_correct R G gname NB l). Qed.

(* appendScopedRuleSet is the model's append_scoped *)
Lemma append_is_model d s :
  exists r, ainterp R NB gen_append_scoped d s = Some r /\
    cat_num R r = cat_num R (append_scoped R NB d s) /\
    (forall t, by_tag R r t = by_tag R (append_scoped R NB d s) t) /\
    comments R r = comments R (append_scoped R NB d s).
Proof. exact (canonical_append_correct R NB d s). Qed.
End Inst.

Local Open Scope string_scope.

(* Load and LoadFromIR differ only in the conversion prelude (and in the package handed to the loader) *)
Lemma load_paths_agree :
  gen_Load_tail = gen_LoadFromIR_tail /\
  gen_Load_setup = hd "" gen_LoadFromIR_setup
                   :: "IRFILE, pkg, err := convertAST(ctx, imp, filename, data)" :: "if err != nil { return err }"
                   :: tl gen_LoadFromIR_setup /\
  gen_LoadFromIR_prelude = [] /\
  gen_Load_prelude = ["data, err := io.ReadAll(r)"; "if err != nil { return err }"].
Proof. repeat split; reflexivity. Qed.

(* the secondary functions the hand-written model (LoadFile.v, FuncEnv.v) was written against have the modelled shape *)
Lemma pinned_LoadedGroups : gen_LoadedGroups =
  ["if e.ruleSet == nil { return nil }";
   "result := make([]GoRuleGroup, 0, len(e.ruleSet.groups))";
   "for _, g := range e.ruleSet.groups { result = append(result, *g) }";
   "sort.Slice(result, func(i, j int) bool { return result[i].Name < result[j].Name })";
   "return result"].
Proof. reflexivity. Qed.

Lemma pinned_Run : gen_Run =
  ["if e.ruleSet == nil { return errors.New(""used Run() with an empty rule set; forgot to call Load() first?"") }";
   "rset := e.ruleSet";
   "return newRulesRunner(ctx, buildContext, e.state, rset).run(f)"].
Proof. reflexivity. Qed.

Lemma pinned_cloneRuleSlice : gen_cloneRuleSlice =
  ["out := make([]goRule, len(slice))";
   "for i, rule := range slice { clone := rule clone.pat = rule.pat.Clone() out[i] = clone }";
   "return out"].
Proof. reflexivity. Qed.

(* LoadFile: bundles, then the file's functions, then its groups; result = own set or mergeRuleSets(own :: imported) *)
Lemma pinned_LoadFile : gen_LoadFile =
  ["l.filename = filename";
   "l.file = f";
   "l.res = &goRuleSet{ universal: &scopedGoRuleSet{}, groups: make(map[string]*GoRuleGroup), }";
   "for _, imp := range f.BundleImports { if l.importedPkg != """" { return nil, l.errorf(imp.Line, nil, ""imports from imported packages are not supported yet"") } if err := l.loadBundle(imp); err != nil { return nil, err } }";
   "if err := l.compileFilterFuncs(filename, f); err != nil { return nil, err }";
   "for i := range f.RuleGroups { if err := l.loadRuleGroup(&f.RuleGroups[i]); err != nil { return nil, err } }";
   "if len(l.imported) != 0 { toMerge := []*goRuleSet{l.res} toMerge = append(toMerge, l.imported...) merged, err := mergeRuleSets(toMerge) if err != nil { return nil, err } l.res = merged }";
   "return l.res, nil"].
Proof. reflexivity. Qed.

Lemma pinned_loadBundle : gen_loadBundle =
  ["files, err := findBundleFiles(bundle.PkgPath)";
   "if err != nil { return l.errorf(bundle.Line, err, ""can't find imported bundle files"") }";
   "for _, filename := range files { rset, err := l.loadExternFile(bundle.Prefix, bundle.PkgPath, filename) if err != nil { return l.errorf(bundle.Line, err, ""error during bundle file loading"") } l.imported = append(l.imported, rset) }";
   "return nil"].
Proof. reflexivity. Qed.

(* loadRuleGroup: final name, then GroupFilter, only then the name is registered *)
Lemma pinned_loadRuleGroup : gen_loadRuleGroup =
  ["l.group = &GoRuleGroup{ Line: group.Line, Filename: l.filename, Name: group.Name, DocSummary: group.DocSummary, DocBefore: group.DocBefore, DocAfter: group.DocAfter, DocNote: group.DocNote, DocTags: group.DocTags, }";
   "if l.prefix != """" { l.group.Name = l.prefix + ""/"" + l.group.Name }";
   "if l.ctx.GroupFilter != nil && !l.ctx.GroupFilter(l.group) { return nil }";
   "if _, ok := l.res.groups[l.group.Name]; ok { panic(fmt.Sprintf(""duplicated function %s after the typecheck"", l.group.Name)) }";
   "l.res.groups[l.group.Name] = l.group"].
Proof. reflexivity. Qed.

(* compileFilterFuncs: unbind the declared names, then compile and bind in source order *)
Lemma pinned_compileFilterFuncs : gen_compileFilterFuncs =
  ["for _, decl := range f.Syntax.Decls { if decl, ok := decl.(*ast.FuncDecl); ok { l.state.env.RemoveFunc(f.Pkg.Path(), decl.Name.String()) } }";
   "for _, decl := range f.Syntax.Decls { decl, ok := decl.(*ast.FuncDecl) if !ok { continue } ctx := &quasigo.CompileContext{ Env: l.state.env, Package: f.Pkg, Types: f.Types, Fset: fset, } compiled, err := quasigo.Compile(ctx, decl) if err != nil { return err } if l.ctx.DebugFunc == decl.Name.String() { l.ctx.DebugPrint(quasigo.Disasm(l.state.env, compiled)) } ctx.Env.AddFunc(f.Pkg.Path(), decl.Name.String(), compiled) }";
   "return nil"].
Proof. reflexivity. Qed.

Lemma pinned_env :
  gen_env_addFunc = ["id := len(env.userFuncs)"; "env.userFuncs = append(env.userFuncs, f)"; "env.nameToFuncID[key] = uint16(id)"] /\
  gen_env_AddFunc = ["env.addFunc(funcKey{qualifier: pkgPath, name: funcName}, f)"] /\
  gen_env_RemoveFunc = ["delete(env.nameToFuncID, funcKey{qualifier: pkgPath, name: funcName})"] /\
  gen_env_GetFunc = ["id, ok := env.nameToFuncID[funcKey{qualifier: pkgPath, name: funcName}]"; "if !ok { return nil }"; "return env.userFuncs[id]"] /\
  gen_env_UpdateEvalEnv = ["evalEnv.nativeFuncs = env.nativeFuncs"; "evalEnv.userFuncs = env.userFuncs"] /\
  gen_newRulesRunner_state =
    ["runnerState := ctx.State";
     "if runnerState == nil { runnerState = newRunnerState(state) } else { runnerState.Reset() state.env.UpdateEvalEnv(runnerState.evalEnv) }"].
Proof. repeat split; reflexivity. Qed.

(* the state the model tracks is all the state there is: engine = {state, ruleSet}; rule set = {universal, groups};
   scoped set = {categorizedNum, rulesByTag, commentRules}; function table = user functions + name map (natives are fixed at start) *)
Lemma inventories :
  gen_fields_engine = ["state *engineState"; "ruleSet *goRuleSet"] /\
  gen_fields_goRuleSet = ["universal *scopedGoRuleSet"; "groups map[string]*GoRuleGroup"] /\
  gen_fields_scopedGoRuleSet = ["categorizedNum int"; "rulesByTag [nodetag.NumBuckets][]goRule"; "commentRules []goCommentRule"] /\
  gen_fields_engineState = ["env *quasigo.Env"; "typeByFQNMu sync.RWMutex"; "typeByFQN map[string]types.Type";
                            "pkgCacheMu sync.RWMutex"; "pkgCache map[string]*types.Package"] /\
  gen_fields_Env = ["nativeFuncs []nativeFunc"; "nameToNativeFuncID map[funcKey]uint16"; "userFuncs []*Func";
                    "nameToFuncID map[funcKey]uint16"; "debug *debugInfo"] /\
  gen_fields_EvalEnv = ["nativeFuncs []nativeFunc"; "userFuncs []*Func"; "Stack ValueStack"].
Proof. repeat split; reflexivity. Qed.

(* the exported type holds the engine and a build context, nothing else; its methods hand their arguments to the engine's methods
   and return what these return: no cache, no state between the caller and the engine the theorems are about *)
Lemma public_api_delegates :
  gen_fields_Engine = ["impl *engine"; "BuildContext *build.Context"] /\
  gen_api_NewEngine = ["return &Engine{impl: newEngine()}"] /\
  gen_api_Load = ["return e.impl.Load(ctx, e.BuildContext, filename, r)"] /\
  gen_api_LoadFromIR = ["return e.impl.LoadFromIR(ctx, e.BuildContext, filename, f)"] /\
  gen_api_LoadedGroups = ["return e.impl.LoadedGroups()"] /\
  gen_api_Run = ["return e.impl.Run(ctx, e.BuildContext, f)"].
Proof. repeat split; reflexivity. Qed.

(* placement loop of loadSyntaxRule: one append per destination bucket, one categorized rule *)
Lemma pinned_place_loop : gen_place_loop =
  ["for _, tag := range dstTags { dst.rulesByTag[tag] = append(dst.rulesByTag[tag], result) }"; "dst.categorizedNum++"; "return nil"].
Proof. reflexivity. Qed.

Lemma multi_match_tags_known : forallb (fun s => existsb (String.eqb s) (map fst gen_nodetags)) gen_multi_match_tags = true.
Proof. vm_compute. reflexivity. Qed.
