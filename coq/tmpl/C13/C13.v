(* Property C13 -- theorems only; each is closed by `exact` of a lemma of RG.Load (generic) or Inst_Load (about the
   code regenerated from /repo on this run). *)
From Coq Require Import List String Bool ZArith NArith.
From RG.Load Require Import LoadModel FuncEnv LoadFile LoadIR Place.
From RGW Require Import Gen_Load Gen_Place Inst_Load.
Import ListNotations.

(* ---- the regenerated code is the model *)
Theorem C13_Load_is_load_step :
  forall (R G : Type) (gname : G -> N) (NB : nat) e fr,
  tinterp R G gname NB gen_Load_tail e fr = TReturned R G (fst (load_step R G gname NB e fr)) (snd (load_step R G gname NB e fr)).
Proof. exact load_tail_is_step. Qed.
Print Assumptions C13_Load_is_load_step.

Theorem C13_LoadFromIR_is_load_step :
  forall (R G : Type) (gname : G -> N) (NB : nat) e fr,
  tinterp R G gname NB gen_LoadFromIR_tail e fr = TReturned R G (fst (load_step R G gname NB e fr)) (snd (load_step R G gname NB e fr)).
Proof. exact loadfromir_tail_is_step. Qed.
Print Assumptions C13_LoadFromIR_is_load_step.

Theorem C13_mergeRuleSets_is_merge :
  forall (R G : Type) (gname : G -> N) (NB : nat) l, minterp R G gname NB gen_merge l = Some (merge R G gname NB l).
Proof. exact merge_is_model. Qed.
Print Assumptions C13_mergeRuleSets_is_merge.

Theorem C13_appendScopedRuleSet_is_append :
  forall (R : Type) (NB : nat) d s, exists r, ainterp R NB gen_append_scoped d s = Some r /\
    cat_num R r = cat_num R (append_scoped R NB d s) /\ (forall t, by_tag R r t = by_tag R (append_scoped R NB d s) t) /\
    comments R r = comments R (append_scoped R NB d s).
Proof. exact (fun R NB => append_is_model R NB). Qed.
Print Assumptions C13_appendScopedRuleSet_is_append.

(* ---- histories of the rule-set state machine (all histories, all file results) *)
Theorem C13_loaded_groups_history :
  forall (R G : Type) (gname : G -> N) (NB : nat) (h : list (file_result R G)),
  eng_groups R G (exec R G gname NB None h) = concat_groups R G (accepted R G gname NB None h).
Proof. exact loaded_groups_history. Qed.
Print Assumptions C13_loaded_groups_history.

Theorem C13_rules_history :
  forall (R G : Type) (gname : G -> N) (NB : nat) (h : list (file_result R G)) t,
  eng_bucket R G (exec R G gname NB None h) t = concat_bucket R G (accepted R G gname NB None h) t /\
  eng_comments R G (exec R G gname NB None h) = concat_comments R G (accepted R G gname NB None h).
Proof. exact rules_history. Qed.
Print Assumptions C13_rules_history.

Theorem C13_accepted_calls_characterised :
  forall (R G : Type) (gname : G -> N) (NB : nat) (h : list (file_result R G)) e,
  wf_eng R G gname NB e -> Forall (wf_result R G gname NB) h ->
  accepted R G gname NB e h = spec_accepted R G gname (names G gname (eng_groups R G e)) h.
Proof. exact accepted_is_spec. Qed.
Print Assumptions C13_accepted_calls_characterised.

Theorem C13_failed_load_atomic :
  forall (R G : Type) (gname : G -> N) (NB : nat) e h1 fr h2,
  snd (load_step R G gname NB (exec R G gname NB e h1) fr) = false ->
  exec R G gname NB e (h1 ++ fr :: h2) = exec R G gname NB e (h1 ++ h2) /\
  returns R G gname NB (exec R G gname NB e h1) (fr :: h2) = false :: returns R G gname NB (exec R G gname NB e h1) h2 /\
  fst (load_step R G gname NB (exec R G gname NB e h1) fr) = exec R G gname NB e h1.
Proof. exact failed_load_atomic. Qed.
Print Assumptions C13_failed_load_atomic.

Theorem C13_loaded_names_unique :
  forall (R G : Type) (gname : G -> N) (NB : nat) (h : list (file_result R G)),
  Forall (wf_result R G gname NB) h -> NoDup (names G gname (eng_groups R G (exec R G gname NB None h))).
Proof. exact loaded_names_unique. Qed.
Print Assumptions C13_loaded_names_unique.

Theorem C13_run_history :
  forall (R G : Type) (gname : G -> N) (NB : nat) (node : Type) (accepts : R -> node -> bool) (multi : N -> bool) h t n,
  run_node R G node accepts multi (exec R G gname NB None h) t n =
  run_bucket R node accepts multi t (concat_bucket R G (accepted R G gname NB None h) t) n.
Proof. exact run_history. Qed.
Print Assumptions C13_run_history.

Theorem C13_earlier_file_wins_single_match_tags :
  forall (R : Type) (node : Type) (accepts : R -> node -> bool) (multi : N -> bool) t a b n,
  run_bucket R node accepts multi t (a ++ b) n =
  if multi t then run_bucket R node accepts multi t a n ++ run_bucket R node accepts multi t b n
  else match run_bucket R node accepts multi t a n with [] => run_bucket R node accepts multi t b n | r => r end.
Proof. exact run_bucket_app. Qed.
Print Assumptions C13_earlier_file_wins_single_match_tags.

Theorem C13_walker_entered_iff_some_rule :
  forall (R G : Type) (gname : G -> N) (NB : nat) (h : list (file_result R G)),
  Forall (wf_result R G gname NB) h ->
  (eng_cat R G (exec R G gname NB None h) = 0%Z <-> forall t, In t (tags NB) -> eng_bucket R G (exec R G gname NB None h) t = []).
Proof. exact walk_enabled_iff. Qed.
Print Assumptions C13_walker_entered_iff_some_rule.

(* public_api_delegates: Engine.Load / LoadFromIR / LoadedGroups / Run are the engine's methods (pure delegation, no field besides
   the engine and the build context): every theorem above about the engine is a theorem about what the API's caller observes *)
Theorem C13_public_api_delegates : (
  gen_fields_Engine = ["impl *engine"; "BuildContext *build.Context"] /\
  gen_api_NewEngine = ["return &Engine{impl: newEngine()}"] /\
  gen_api_Load = ["return e.impl.Load(ctx, e.BuildContext, filename, r)"] /\
  gen_api_LoadFromIR = ["return e.impl.LoadFromIR(ctx, e.BuildContext, filename, f)"] /\
  gen_api_LoadedGroups = ["return e.impl.LoadedGroups()"] /\
  gen_api_Run = ["return e.impl.Run(ctx, e.BuildContext, f)"])%string.
Proof. exact public_api_delegates. Qed.
Print Assumptions C13_public_api_delegates.

(* ---- one file: GroupFilter, bundles, functions *)
Theorem C13_filtered_group_frees_name :
  forall (NB : nat) (mangle : N -> N -> N), (forall p a b, mangle p a = mangle p b -> a = b) ->
  forall flt env rf env' rs n,
  load_rfile NB mangle flt env rf = (env', FOk lrule grp rs) -> flt n = false ->
  ~ In n (names grp gname (groups lrule grp rs)).
Proof. exact filtered_group_frees_name. Qed.
Print Assumptions C13_filtered_group_frees_name.

Theorem C13_loaded_file_groups :
  forall (NB : nat) (mangle : N -> N -> N), (forall p a b, mangle p a = mangle p b -> a = b) ->
  forall flt env rf env' rs,
  load_rfile NB mangle flt env rf = (env', FOk lrule grp rs) -> groups lrule grp rs = spec_groups mangle flt rf.
Proof. exact loaded_file_groups. Qed.
Print Assumptions C13_loaded_file_groups.

Theorem C13_function_table_irrelevant :
  forall env ds, closed ds -> snd (compile_file true env ds) = snd (compile_file true [] ds).
Proof. exact compile_env_irrelevant. Qed.
Print Assumptions C13_function_table_irrelevant.

Theorem C13_file_result_independent_of_function_table :
  forall (NB : nat) (mangle : N -> N -> N) flt env1 env2 rf,
  rfile_ok NB rf -> snd (load_rfile NB mangle flt env1 rf) = snd (load_rfile NB mangle flt env2 rf).
Proof. exact load_rfile_env_irrelevant. Qed.
Print Assumptions C13_file_result_independent_of_function_table.

Theorem C13_failed_load_atomic_full :
  forall (NB : nat) (mangle : N -> N -> N) (e : engine) (c : call) (h : list call),
  Forall (fun c => rfile_ok NB (snd c)) h ->
  snd (load NB mangle e c) = false ->
  e_rules (fst (load NB mangle e c)) = e_rules e /\
  e_rules (fst (run_calls NB mangle e (c :: h))) = e_rules (fst (run_calls NB mangle e h)) /\
  snd (run_calls NB mangle e (c :: h)) = false :: snd (run_calls NB mangle e h).
Proof. exact failed_load_atomic_full. Qed.
Print Assumptions C13_failed_load_atomic_full.

Theorem C13_engine_is_state_machine_on_file_results :
  forall (NB : nat) (mangle : N -> N -> N) (h : list call) r env,
  e_rules (fst (run_calls NB mangle (mkE r env) h)) = exec lrule grp gname NB r (results NB mangle env h) /\
  snd (run_calls NB mangle (mkE r env) h) = returns lrule grp gname NB r (results NB mangle env h).
Proof. exact run_calls_is_exec. Qed.
Print Assumptions C13_engine_is_state_machine_on_file_results.

Theorem C13_file_results_wellformed :
  forall (NB : nat) (mangle : N -> N -> N), (forall p a b, mangle p a = mangle p b -> a = b) ->
  forall (h : list call) env, Forall (fun c => rfile_ok NB (snd c)) h ->
  Forall (wf_result lrule grp gname NB) (results NB mangle env h).
Proof. exact results_wf. Qed.
Print Assumptions C13_file_results_wellformed.

Theorem C13_load_paths_agree :
  gen_Load_tail = gen_LoadFromIR_tail /\
  gen_Load_setup = hd ""%string gen_LoadFromIR_setup
                   :: "IRFILE, pkg, err := convertAST(ctx, imp, filename, data)"%string :: "if err != nil { return err }"%string
                   :: tl gen_LoadFromIR_setup /\
  gen_LoadFromIR_prelude = [] /\
  gen_Load_prelude = ["data, err := io.ReadAll(r)"%string; "if err != nil { return err }"%string].
Proof. exact load_paths_agree. Qed.
Print Assumptions C13_load_paths_agree.

(* ---- non-vacuity: concrete files, a concrete history with a collision, a failing file, a filtered group and a bundle *)
Local Open Scope N_scope.
Definition ex_mangle (p a : N) : N := p * 1000 + a.
Definition ex_NB : nat := N.to_nat gen_num_buckets.
(* file 1: helper, check calling it; groups 1 and 2. file 2: group 2 again (collides) and group 3. file 3: a bad rule.
   file 4: group 2 only, imports a bundle with prefix 7 that defines group 1 *)
Definition ex_f1 := mkRF [] (mkSF 1 [mkF 50 12 []; mkF 51 1 [50]]
  [mkFG 1 [mkGR 100 (RSyntax [4]) (Some 51)]; mkFG 2 [mkGR 101 (RSyntax [4]) None; mkGR 102 RComment None]]).
Definition ex_f2 := mkRF [] (mkSF 2 [] [mkFG 2 [mkGR 200 (RSyntax [4]) None]; mkFG 3 [mkGR 201 (RSyntax [5; 8; 10]) None]]).
Definition ex_f3 := mkRF [] (mkSF 3 [mkF 50 18 []] [mkFG 4 [mkGR 300 (RSyntax [4]) None; mkGR 301 RBad None]]).
Definition ex_f4 := mkRF [(Some 7, [mkSF 40 [] [mkFG 1 [mkGR 400 (RSyntax [47]) None]]])] (mkSF 4 [] [mkFG 2 [mkGR 401 (RSyntax [4]) None]]).
Definition ex_all (_ : N) := true.
Definition ex_not2 (n : N) := negb (N.eqb n 2).
Definition ex_history : list call := [(ex_all, ex_f1); (ex_all, ex_f2); (ex_all, ex_f3); (ex_not2, ex_f2); (ex_all, ex_f4); (ex_not2, ex_f4)].

Example ex_files_ok : Forall (fun c => rfile_ok ex_NB (snd c)) ex_history.
Proof. unfold ex_history. repeat (apply Forall_cons; [apply rfile_okb_sound; vm_compute; reflexivity|]). apply Forall_nil. Qed.

(* returns: f1 ok; f2 collides on group 2; f3 has a bad rule; f2 without group 2 ok; f4 collides on 2; f4 without 2 ok (7001 is new) *)
Example ex_returns : snd (run_calls ex_NB ex_mangle (mkE None []) ex_history) = [true; false; false; true; false; true].
Proof. vm_compute. reflexivity. Qed.

Example ex_groups : map fst (eng_groups lrule grp (e_rules (fst (run_calls ex_NB ex_mangle (mkE None []) ex_history)))) = [1; 2; 3; 7001].
Proof. vm_compute. reflexivity. Qed.

Example ex_bucket4 : map lr_id (eng_bucket lrule grp (e_rules (fst (run_calls ex_NB ex_mangle (mkE None []) ex_history))) 4) = [100; 101].
Proof. vm_compute. reflexivity. Qed.

(* the failing third call left its helper (body 18) in the table, yet the rule of file 1 keeps its own helper (body 12) *)
Example ex_env_leftover :
  lookup (e_env (fst (run_calls ex_NB ex_mangle (mkE None []) (firstn 3 ex_history)))) 50 = Some (Sem 18 []) /\
  map lr_sem (eng_bucket lrule grp (e_rules (fst (run_calls ex_NB ex_mangle (mkE None []) (firstn 3 ex_history)))) 4) =
    [Some (Sem 1 [Sem 12 []]); None].
Proof. vm_compute. split; reflexivity. Qed.

Example ex_mangle_inj : forall p a b, ex_mangle p a = ex_mangle p b -> a = b.
Proof. unfold ex_mangle. intros p a b H. apply (N.add_cancel_l a b (p * 1000)). exact H. Qed.

(* every tag a pattern can have is placed inside the bucket array (or rejected) -- the precondition tags_ok of the file model *)
Example ex_place_used : place_of gen_place_cases 50 = PTags [5; 8; 10] /\ place_of gen_place_cases 4 = PTags [4] /\ place_of gen_place_cases 53 = PErr.
Proof. vm_compute. repeat split. Qed.
