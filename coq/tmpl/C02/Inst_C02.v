(* C02 -- proofs about the tables, closure conditions and leaf functions REGENERATED from /repo and from the linked
   go/types on this run (Gen_FilterTables.v, Gen_FilterPreds.v). *)
From Coq Require Import List ZArith Bool String Lia.
From RG.Base Require Import Outcome.
From RG.Filters Require Import FilterIR FilterAlgebra Predicates ExprFacts FileFacts ValueSources LoaderState.
From RGW Require Import Gen_FilterTables Gen_FilterPreds.
Import ListNotations.
Local Open Scope string_scope.

(* ---------------------------------------------------------------- OfKind *)
Definition ofkind_gen : string -> Z -> Z -> option bool :=
  ofkind_model info_bit gen_ofkind_special gen_string_to_basic_kind kind_num
               gen_cond_makeTypeOfKindFilter gen_cond_makeTypeIsSignedFilter gen_cond_makeTypeIsIntUintFilter.

(* for every documented kind name and every BasicKind of go/types the loader's dispatch + closure condition gives the
   verdict of the table in dsl.go *)
Lemma ofkind_table_correct :
  forallb (fun name =>
    forallb (fun e => match e with (kname, k, info) =>
               opt_bool_eqb (ofkind_gen name info k) (doc_ofkind info_bit name info kname) end) gen_basic_kinds)
    doc_kind_names = true.
Proof. vm_compute. reflexivity. Qed.

(* and no undocumented kind name is accepted *)
Lemma ofkind_names_exact :
  forallb (fun n => mem n doc_kind_names) (map fst gen_ofkind_special ++ map fst gen_string_to_basic_kind) = true
  /\ nodupb (map fst gen_ofkind_special ++ map fst gen_string_to_basic_kind) = true.
Proof. split; vm_compute; reflexivity. Qed.

(* the go/types tables the obligation ranges over are the real ones: all 26 kinds, distinct numbers *)
Lemma basic_kinds_complete :
  List.length gen_basic_kinds = 26%nat /\ NoDup (map (fun e => snd (fst e)) gen_basic_kinds).
Proof.
  split; [vm_compute; reflexivity|].
  apply (NoDup_count_occ' Z.eq_dec). intros z Hin.
  repeat (destruct Hin as [<-|Hin]; [vm_compute; reflexivity|]). destruct Hin.
Qed.

(* ---------------------------------------------------------------- GoVersion *)
Lemma version_compare_spec xM xm yM ym op b :
  cmp_spec op (lex_compare xM xm yM ym) = Some b -> gen_versionCompare xM xm op yM ym = Ok b.
Proof.
  intros H.
  assert (Hop : In op cmp_tokens).
  { unfold cmp_spec in H.
    repeat match type of H with
           | (if String.eqb ?a ?s then _ else _) = _ => destruct (String.eqb_spec a s); [subst; cbn; tauto|]
           end.
    discriminate. }
  cbn in Hop.
  destruct Hop as [<-|[<-|[<-|[<-|[<-|[<-|[]]]]]]]; cbn in H; injection H as <-;
    unfold gen_versionCompare; cbn; f_equal; unfold lex_compare;
    destruct (Z.compare_spec xM yM); destruct (Z.compare_spec xm ym);
    repeat match goal with
           | |- context [Z.eqb ?a ?b] => destruct (Z.eqb_spec a b)
           | |- context [Z.ltb ?a ?b] => destruct (Z.ltb_spec a b)
           | |- context [Z.leb ?a ?b] => destruct (Z.leb_spec a b)
           end; cbn; try reflexivity; lia.
Qed.

Lemma version_compare_total xM xm yM ym op : In op cmp_tokens -> exists b, gen_versionCompare xM xm op yM ym = Ok b.
Proof.
  intros Hop. destruct (cmp_spec_total op (lex_compare xM xm yM ym) Hop) as [b Hb].
  exists b. now apply version_compare_spec.
Qed.

(* makeGoVersionFilter (hand-modelled glue of two lines): no configured version accepts everything *)
Definition goversion_eval (ctxM ctxm : Z) (op : string) (vM vm : Z) : outcome bool :=
  if gen_version_is_any ctxM then Ok true else gen_versionCompare ctxM ctxm op vM vm.

Lemma goversion_any ctxm op vM vm : goversion_eval 0 ctxm op vM vm = Ok true.
Proof. reflexivity. Qed.

Lemma goversion_set ctxM ctxm op vM vm b : ctxM <> 0%Z ->
  cmp_spec op (lex_compare ctxM ctxm vM vm) = Some b -> goversion_eval ctxM ctxm op vM vm = Ok b.
Proof.
  intros Hne H. unfold goversion_eval, gen_version_is_any.
  destruct (Z.eqb_spec ctxM 0); [contradiction|]. now apply version_compare_spec.
Qed.

(* ---------------------------------------------------------------- Type.HasPointers *)
Definition has_pointers_gen : tshape -> bool := has_pointers gen_hasptr_basic_true gen_hasptr_cases.

Lemma hasptr_tables_ok :
  hasptr_conservative_okb gen_hasptr_basic_true = true /\ hasptr_exact_okb gen_hasptr_basic_true gen_hasptr_cases = true.
Proof. split; vm_compute; reflexivity. Qed.

(* ---------------------------------------------------------------- wiring *)
Lemma wiring_ok : wiring_okb gen_tables gen_load_ctor gen_ctors gen_dsl_paths = true.
Proof. vm_compute. reflexivity. Qed.

(* the `underlying` flag of Type.Is / Type.OfKind is set exactly for the Underlying() paths *)
Definition underlying_okb : bool :=
  match path_op gen_tables "Type.Is", path_op gen_tables "Type.Underlying.Is",
        path_op gen_tables "Type.OfKind", path_op gen_tables "Type.Underlying.OfKind" with
  | Some a, Some b, Some c, Some d =>
      opt_eqb (assoc a gen_load_underlying) b && opt_eqb (assoc b gen_load_underlying) b
      && opt_eqb (assoc c gen_load_underlying) d && opt_eqb (assoc d gen_load_underlying) d
      && negb (String.eqb a b) && negb (String.eqb c d)
  | _, _, _, _ => false
  end.
Lemma underlying_ok : underlying_okb = true.
Proof. vm_compute. reflexivity. Qed.

(* the operand selectors are the ones pred_eval assumes; Object.Is / Node.Is dispatch tables are the documented ones *)
Lemma selectors_ok : selectors_okb gen_subexpr_cases gen_typeof_cases gen_typeof_tail = true.
Proof. vm_compute. reflexivity. Qed.
Lemma object_is_ok : object_is_okb gen_object_is gen_object_is_accepted = true.
Proof. vm_compute. reflexivity. Qed.
Lemma node_is_ok : node_is_okb gen_node_is = true.
Proof. vm_compute. reflexivity. Qed.

(* the syntactic helpers behind Pure / ConstSlice / Object.* / SinkType.Is have the documented case structure from which
   is_pure / is_type_expr / ident_of / is_constant_slice / find_sink (RG.Filters.ExprFacts) are transcribed *)
Lemma helpers_ok :
  helpers_okb gen_pure_cases gen_typeexpr_cases gen_identof_cases gen_constslice_cases gen_sinkroot_cases gen_sinktype_cases
              gen_purelist_body gen_containing_func_body gen_sinktype_closure = true.
Proof. vm_compute. reflexivity. Qed.

(* the constructor summary a documented predicate path reaches *)
Definition ctor_of_path (p : string) : option ctor_info :=
  match assoc p doc_wiring with
  | Some (WPred ctor _ _ _) => assoc ctor gen_ctors
  | Some (WSpecial ctor) => assoc ctor gen_ctors
  | _ => None
  end.

(* the import set File().Imports looks its argument up in is built by the audited loop (strconv.Unquote of every spec's path
   literal), set up once per file, assigned nowhere else; the closure is a plain lookup in it *)
(* what the predicates' closures store beyond a call (regenerated from filters.go, utils.go, the methods of filterParams) is
   the audited list: nothing carries an answer from one match to the next *)
Lemma run_state_ok : run_state_okb gen_run_state = true.
Proof. vm_compute. reflexivity. Qed.

Lemma file_facts_ok : file_facts_okb gen_file_facts = true.
Proof. vm_compute. reflexivity. Qed.

Lemma imports_closure_ok :
  match assoc "makeFileImportsFilter" gen_ctors with Some ci => String.eqb (ci_cond ci) doc_imports_closure | None => false end = true.
Proof. vm_compute. reflexivity. Qed.

(* where the Text of a capture comes from: nodeText (the bounds test of the extent: start inside the file, end not behind it,
   start not behind the end), fileBytes, the printer fallback and every assignment to the nodeText field are the audited ones from
   which ValueSources.node_text is transcribed *)
Lemma text_source_ok : value_sources_okb gen_value_sources = true.
Proof. vm_compute. reflexivity. Qed.
